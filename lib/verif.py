"""Shared machinery for /verif checks: build libcoap from /repo's working tree, link harnesses with
ld --wrap seams, run TLC (model checking and trace validation), write evidence, report verdicts.

Exit status convention (DESIGN.md 2.6): 0 property held on everything explored, 1 violation
(with a `VIOLATION property=<id> replay=<path>` line), 2 infrastructure failure (no VIOLATION line).
"""
import json, os, subprocess, sys, time, re, shutil, hashlib, concurrent.futures as cf

ROOT = '/verif'
WORK = os.path.join(ROOT, '.work')
# Development aid (seeded-change evaluation in parallel): VERIF_REPO names another source tree, VERIF_TAG keeps its build, output and
# evidence apart.  The registered commands never set them: they build /repo and write /verif/evidence.
REPO = os.environ.get('VERIF_REPO', '/repo')
TAG = os.environ.get('VERIF_TAG', '')
OUT = os.path.join(ROOT, 'out' + TAG)
EVID = os.path.join(ROOT, 'evidence') if not TAG else os.path.join(OUT, 'evidence')
SPEC = os.path.join(ROOT, 'spec')
HARN = os.path.join(ROOT, 'harness')
TLA_CP = '/opt/veriftools/tla/tla2tools.jar:/opt/veriftools/tla/CommunityModules-deps.jar'
NCPU = os.cpu_count() or 4


class Infra(Exception):
    pass


def seed():
    try:
        return int(os.environ.get('VERIF_SEED', '1'))
    except ValueError:
        return 1


def sh(cmd, **kw):
    return subprocess.run(cmd, shell=isinstance(cmd, str), stdout=subprocess.PIPE, stderr=subprocess.STDOUT,
                          text=True, **kw)


# ----------------------------------------------------------------------------- build
def build(cfg='asan'):
    r = subprocess.run([os.path.join(ROOT, 'bin/build-libcoap'), cfg], stdout=subprocess.PIPE,
                       stderr=subprocess.PIPE, text=True)
    if r.returncode != 0:
        raise Infra('libcoap build failed (tree under test does not build?):\n' + r.stderr[-3000:])
    return r.stdout.strip().splitlines()[-1]


SAN = {'asan': ['-fsanitize=address,undefined', '-fno-omit-frame-pointer'],
       'tsan': ['-fsanitize=thread'], 'plain': []}

SIM_WRAPS = ['coap_ticks', 'epoll_wait', 'epoll_ctl', 'coap_socket_send', 'coap_socket_recv', 'coap_socket_close']


def link(name, srcs, wraps=(), cfg='asan', extra=(), cxx=False):
    """Compile harness sources against the freshly built libcoap-3.a; returns path of the binary."""
    b = build(cfg)
    out = os.path.join(b, 'h_' + name)
    cmd = ['clang++' if cxx else 'clang'] + SAN[cfg] + ['-O1', '-g', '-Wall', '-Wno-deprecated-declarations',
           '-Wno-unused-function',
           '-I' + os.path.join(b, 'include'), '-I' + REPO + '/include', '-I' + b, '-I' + HARN]
    cmd += [os.path.join(HARN, s) if not s.startswith('/') else s for s in srcs]
    cmd += ['-o', out, os.path.join(b, 'libcoap-3.a'), '-lgnutls', '-lpthread']
    if wraps:
        cmd += ['-Wl,' + ','.join('--wrap=' + w for w in wraps)]
    cmd += list(extra)
    r = sh(cmd)
    if r.returncode != 0:
        # a link/compile failure caused by the tree under test (renamed internal symbol ...) is infra, not a verdict
        raise Infra('harness %s does not build:\n%s' % (name, r.stdout[-4000:]))
    return out


def run_driver(binary, args, timeout=600, env=None, cwd=None, stdin=None):
    """Run a harness binary; returns (rc, stdout+stderr).  Sanitizer aborts are visible in rc/stderr."""
    e = dict(os.environ)
    e.setdefault('ASAN_OPTIONS', 'detect_leaks=1:abort_on_error=0:exitcode=99:allocator_may_return_null=1')
    e.setdefault('UBSAN_OPTIONS', 'print_stacktrace=1:halt_on_error=0')
    e.setdefault('LSAN_OPTIONS', 'exitcode=98')
    if env:
        e.update(env)
    try:
        r = subprocess.run([binary] + list(args), stdout=subprocess.PIPE, stderr=subprocess.STDOUT, text=True,
                           errors='replace', timeout=timeout, env=e, cwd=cwd, input=stdin)
        return r.returncode, r.stdout
    except subprocess.TimeoutExpired as ex:
        o = ex.stdout or ''
        if isinstance(o, bytes):
            o = o.decode(errors='replace')
        return 124, o + '\nTIMEOUT after %ss' % timeout


def sanitizer_reports(text):
    """Extract (kind, location) pairs of sanitizer reports from driver output."""
    reps = []
    for m in re.finditer(r'^(\S+:\d+:\d+): runtime error: (.*)$', text, re.M):
        reps.append(('ubsan', m.group(1), m.group(2)))
    for m in re.finditer(r'ERROR: AddressSanitizer: (\S+)(.*)', text):
        loc = ''
        m2 = re.search(r'#\d+ 0x[0-9a-f]+ in (\S+) (' + re.escape(REPO) + r'/\S+)', text[m.end():m.end() + 3000])
        if m2:
            loc = m2.group(1) + ' ' + m2.group(2)
        reps.append(('asan', loc, m.group(1)))
    for m in re.finditer(r'ERROR: LeakSanitizer: detected memory leaks', text):
        m2 = re.search(r'#\d+ 0x[0-9a-f]+ in (coap_\S+|oscore_\S+|cose_\S+) (' + re.escape(REPO) + r'/\S+)', text[m.end():m.end() + 3000])
        reps.append(('lsan', (m2.group(1) + ' ' + m2.group(2)) if m2 else '', 'leak'))
    return reps


# ----------------------------------------------------------------------------- TLC
def tlc(module, cfgfile, env=None, workers=1, metadir=None, extra=(), timeout=1800, xss=None, xmx='4g',
        deque=True, cwd=SPEC):
    metadir = metadir or os.path.join(WORK, 'tlc', '%s_%d_%d' % (module, os.getpid(), int(time.time() * 1000) % 100000))
    os.makedirs(os.path.dirname(metadir), exist_ok=True)
    shutil.rmtree(metadir, ignore_errors=True)
    cmd = ['java', '-XX:+UseParallelGC', '-Xmx' + xmx]
    if xss:
        cmd.append('-Xss' + xss)
    if deque:
        cmd.append('-Dtlc2.tool.queue.IStateQueue=StateDeque')
    cmd += ['-cp', TLA_CP, 'tlc2.TLC', '-workers', str(workers), '-metadir', metadir, '-noGenerateSpecTE', '-config', cfgfile]
    cmd += list(extra) + [module + '.tla']
    e = dict(os.environ)
    e.pop('JAVA_TOOL_OPTIONS', None)
    if env:
        e.update({k: str(v) for k, v in env.items()})
    t0 = time.time()
    try:
        r = subprocess.run(cmd, cwd=cwd, stdout=subprocess.PIPE, stderr=subprocess.STDOUT, text=True,
                           errors='replace', timeout=timeout, env=e)
        out, rc = r.stdout, r.returncode
    except subprocess.TimeoutExpired as ex:
        out = (ex.stdout or b'').decode(errors='replace') if isinstance(ex.stdout, bytes) else (ex.stdout or '')
        rc = 124
    shutil.rmtree(metadir, ignore_errors=True)
    st = {'rc': rc, 'out': out, 'wall': time.time() - t0}
    m = re.search(r'(\d+) states generated, (\d+) distinct states found', out)
    if m:
        st['generated'] = int(m.group(1))
        st['distinct'] = int(m.group(2))
    m = re.search(r'depth of the complete state graph search is (\d+)', out)
    if m:
        st['depth'] = int(m.group(1))
    return st


def mc(module, cfgfile, must_fire=(), workers=None, timeout=1800, xmx='8g', extra=()):
    """Model-check a closed model.  Returns stats; raises Infra on vacuity/parse errors; a property
    violation of the MODEL is returned as st['violated']=True with the TLC output."""
    st = tlc(module, cfgfile, workers=workers or min(NCPU, 8), extra=['-coverage', '1'] + list(extra), timeout=timeout,
             xmx=xmx, deque=False)
    out = st['out']
    if st['rc'] == 124:
        raise Infra('TLC timeout on %s' % module)
    st['violated'] = bool(re.search(r'Error: (Invariant|Action property|Temporal properties|Deadlock)', out)) or \
        'is violated' in out
    if ('distinct' not in st and not st['violated']) or 'TLC threw an unexpected exception' in out:
        raise Infra('TLC failed on %s:\n%s' % (module, out[-3000:]))
    # action coverage: lines like  <Submit line 12, col 1 to line 14, col 30 of module X>: 12:345
    cov = {}
    for m in re.finditer(r'^<(\w+) line \d+, col \d+ to line \d+, col \d+ of module \w+(?: \([\d ]+\))?>: (\d+):(\d+)', out, re.M):
        cov[m.group(1)] = cov.get(m.group(1), 0) + int(m.group(3))
    st['action_cov'] = cov
    missing = [a for a in must_fire if cov.get(a, 0) == 0 and cov.get(a[1:], 0) == 0]
    if missing and not st['violated']:
        raise Infra('vacuous model run of %s: actions never taken: %s' % (module, missing))
    return st


def validate_traces(module, trace_files, env=None, cfgfile=None, timeout=1200, xss=None, xmx='3g', jobs=None):
    """Validate ndjson trace files with Trace_<X>.tla; one JVM per file, in parallel.
    Each run writes a JSON result {rejected:[{id,line,why}], executions, discarded, known, lines}."""
    cfgfile = cfgfile or module + '.cfg'
    jobs = jobs or max(1, min(NCPU, len(trace_files)))
    results = []

    def one(tf):
        res = tf + '.result.json'
        if os.path.exists(res):
            os.unlink(res)
        e = {'TRACE': tf, 'OUT': res}
        if env:
            e.update(env)
        st = tlc(module, cfgfile, env=e, workers=1, timeout=timeout, xss=xss, xmx=xmx)
        if not os.path.exists(res):
            # one retry: a JVM that died for an unrelated reason must not become a verdict
            st = tlc(module, cfgfile, env=e, workers=1, timeout=timeout, xss=xss, xmx=xmx)
        if not os.path.exists(res):
            raise Infra('trace validation of %s with %s produced no result:\n%s' % (tf, module, st['out'][-3000:]))
        with open(res) as f:
            r = json.load(f)
        # vacuity guard: an execution whose trace has nothing between its Reset line and the next one was not judged at all
        empty, prev_reset, prev_id = [], False, None
        with open(tf, 'rb') as f:
            for line in f:
                is_reset = line.startswith(b'{"e":"Reset"') or line.startswith(b'{"e": "Reset"')
                if is_reset:
                    if prev_reset:
                        empty.append(prev_id)
                    m = re.search(rb'"id": ?(-?\d+)', line)
                    prev_id = int(m.group(1)) if m else None
                prev_reset = is_reset
        if prev_reset:
            empty.append(prev_id)
        if empty and os.environ.get('VERIF_ALLOW_EMPTY') != '1':
            raise Infra('%d execution(s) of %s left no event at all (first ids %s): the driver skipped their commands' % (len(empty), tf, empty[:5]))
        r['trace'] = tf
        r['states'] = st.get('distinct', 0)
        r['generated'] = st.get('generated', 0)
        return r

    with cf.ThreadPoolExecutor(max_workers=jobs) as ex:
        for r in ex.map(one, trace_files):
            results.append(r)
    return results


# ----------------------------------------------------------------------------- findings / evidence
def known_findings():
    p = os.path.join(ROOT, 'findings', 'known_findings.json')
    if not os.path.exists(p):
        return []
    with open(p) as f:
        return json.load(f).get('findings', [])


def enabled_findings(prop=None):
    """ids of findings with status 'known' (a 'fixed' entry enables nothing)."""
    return [f for f in known_findings() if f.get('status') == 'known' and (prop is None or f['property'] == prop)]


def write_evidence(pid, tier, level, coverage, wall, violations=0, assumptions=()):
    os.makedirs(EVID, exist_ok=True)
    ev = {'property_id': pid, 'tier': tier, 'seed': seed(), 'level': level, 'coverage': coverage,
          'assumptions': list(assumptions), 'wall_s': round(wall, 2), 'violations': violations}
    p = os.path.join(EVID, pid + '.json')
    with open(p + '.tmp', 'w') as f:
        json.dump(ev, f, indent=1, sort_keys=True)
    os.replace(p + '.tmp', p)
    return p


def outdir(pid, tier):
    d = os.path.join(OUT, pid, tier)
    shutil.rmtree(d, ignore_errors=True)
    os.makedirs(d, exist_ok=True)
    return d


def save_replay(pid, name, obj):
    d = os.path.join(OUT, pid, 'replay')
    os.makedirs(d, exist_ok=True)
    p = os.path.join(d, name)
    with open(p, 'w') as f:
        if isinstance(obj, str):
            f.write(obj)
        else:
            json.dump(obj, f, indent=1)
    return p


def finish(pid, violations, known_fired=()):
    """Print the verdict lines and exit.  violations: list of (description, replay_path)."""
    for kf in known_fired:
        print('KNOWN-FINDING: property=%s %s' % (pid, kf))
    if violations:
        for desc, path in violations[:20]:
            print('VIOLATION property=%s replay=%s' % (pid, path))
            print('  ' + desc)
        sys.exit(1)
    print('OK property=%s' % pid)
    sys.exit(0)


# ----------------------------------------------------------------------------- line-oriented drivers
def run_line_cases(drv, lines, out, extra_args=(), timeout=1200, nchunk=None):
    """Split `lines` (one case per line) over NCPU chunk files, run `drv <cases> <trace> [from]` on each, restarting
    after a crash at the line following the crashed one (the driver logs {"e":"Case","ln":k} and flushes before
    each case).  Returns (trace_files, line_of[(chunk, ln)] -> original index, crashes[(orig index, rc, output)])."""
    import concurrent.futures as cfu
    nchunk = nchunk or NCPU
    chunks = [[] for _ in range(nchunk)]
    for i, ln in enumerate(lines):
        chunks[i % nchunk].append((i, ln))
    jobs = []
    for ci, ch in enumerate(chunks):
        if not ch:
            continue
        cfile = os.path.join(out, 'cases-%02d.txt' % ci)
        with open(cfile, 'w') as f:
            f.write('\n'.join(l for _, l in ch) + '\n')
        jobs.append((ci, cfile, os.path.join(out, 'trace-%02d.ndjson' % ci), [i for i, _ in ch]))

    def one(job):
        ci, cfile, tfile, idx = job
        frm, res = 0, []
        for _attempt in range(60):
            rc, o = run_driver(drv, [cfile, tfile] + list(extra_args) + ([str(frm)] if frm else []), timeout=timeout)
            reps = sanitizer_reports(o)
            if rc == 0 and not reps:
                break
            last = None
            try:
                with open(tfile, 'rb') as f:
                    data = f.read()
                if not data.endswith(b'\n'):
                    data = data[:data.rfind(b'\n') + 1]
                for line in data.splitlines():
                    if line.startswith(b'{"e":"Case"'):
                        last = json.loads(line)['ln']
                with open(tfile, 'wb') as f:
                    f.write(data + b'{"e":"Crash"}\n')
            except Exception:
                pass
            res.append((idx[last - 1] if last else -1, rc, o[-6000:]))
            if rc == 0 or last is None or last >= len(idx):
                break
            frm = last
        return res
    crashes = []
    with cfu.ThreadPoolExecutor(max_workers=NCPU) as ex:
        for r in ex.map(one, jobs):
            crashes += r
    return [j[2] for j in jobs], {(j[2], k + 1): orig for j in jobs for k, orig in enumerate(j[3])}, crashes


# ----------------------------------------------------------------------------- common driver-then-validate flow
def drive_and_validate(pid, drv, cases, out, module, env=None, xmx='3g', xss=None, drv_timeout=1500, extra_args=None, nfiles=None):
    """cases: list of (id, [lines]).  Splits them over NCPU case files, runs the driver on each (in parallel), marks an aborted
    run with a Crash event (cutting a torn last line), validates every trace with <module>, saves a replay file per rejection.
    Returns (violations [(text, replay path)], executions, known-finding ids, per-file results)."""
    import concurrent.futures as cfu
    jobs = []
    nfiles = nfiles or NCPU
    for ci in range(nfiles):
        ch = cases[ci::nfiles]
        if not ch:
            continue
        cf_ = os.path.join(out, 'cases-%02d.txt' % ci)
        with open(cf_, 'w') as f:
            for _, ls in ch:
                f.write('\n'.join(ls) + '\n')
        jobs.append((cf_, os.path.join(out, 'trace-%02d.ndjson' % ci)))
    crashes = []

    def rundrv(j):
        rc, o = run_driver(drv, [j[0], j[1]] + list(extra_args or []), timeout=drv_timeout)
        return j, rc, o
    with cfu.ThreadPoolExecutor(max_workers=NCPU) as ex:
        for j, rc, o in ex.map(rundrv, jobs):
            if rc != 0 or sanitizer_reports(o):
                crashes.append((j, rc, o[-8000:]))
                data = open(j[1], 'rb').read() if os.path.exists(j[1]) else b''
                if not data.endswith(b'\n'):
                    data = data[:data.rfind(b'\n') + 1]
                with open(j[1], 'wb') as f:
                    f.write(data + b'{"e":"Crash"}\n')
    results = validate_traces(module, [j[1] for j in jobs], env=env, xmx=xmx, xss=xss)
    bycase = dict(cases)
    vio, nexec, known = [], 0, set()
    for r in results:
        nexec += r['executions']
        known |= set(r.get('known', []))
        for rj in r['rejected']:
            p = save_replay(pid, 'case-%d.txt' % rj['id'], '\n'.join(bycase.get(rj['id'], [])) + '\n# ' + rj['why'] + '\n')
            vio.append(('%s (case %d, %s line %d)' % (rj['why'], rj['id'], os.path.basename(r['trace']), rj['line']), p))
    for (j, rc, o) in crashes:
        p = save_replay(pid, 'crash-%s.log' % os.path.basename(j[0]), o)
        vio.append(('driver aborted / sanitizer report (rc=%d) on %s' % (rc, j[0]), p))
    if not crashes and nexec != len(cases):
        raise Infra('%s judged %d executions but %d cases were run: the traces do not have the shape the trace specification expects' % (module, nexec, len(cases)))
    return vio, nexec, known, results
