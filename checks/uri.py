"""C16 -- URI text <-> CoAP options.

Model:    spec/Uri.tla (RFC 3986 / RFC 7252 6.4-6.5 as operators), spec/MC_Uri.tla (left inverse => injectivity, TLC)
Binding:  harness/drv_uri.c calls the real coap_split_uri / coap_split_path / coap_split_query / *_into_optlist /
          coap_get_uri_path / coap_get_query on exact-size heap copies; spec/Trace_Uri.tla judges every result.
"""
import itertools, random, time, os
import verif as V


def hx(b):
    return bytes(b).hex() if len(b) else '-'


def gen(tier, rnd):
    L = []
    alpha = [97, 47, 37, 46, 38, 63, 35, 0, 255, 50, 101, 32, 43, 61]
    segs = [[]] + [[a] for a in alpha] + [[a, b] for a in alpha for b in alpha]
    # options -> text -> options: every list of <= 2 segments of <= 2 bytes over the hostile alphabet
    pool = segs if tier == 'thorough' else [s for s in segs if len(s) < 2 or rnd.random() < 0.45]
    for s1 in pool:
        L.append('S ' + hx(s1))
        L.append('T ' + hx(s1))
    for s1 in pool:
        for s2 in (pool if tier == 'thorough' else rnd.sample(pool, 14)):
            L.append('S %s %s' % (hx(s1), hx(s2)))
            L.append('T %s %s' % (hx(s1), hx(s2)))
    for _ in range(1500 if tier == 'quick' else 60000):
        n = rnd.randint(1, 5)
        ss = [[rnd.choice(alpha + list(range(256))) for _k in range(rnd.choice((0, 1, 1, 2, 3, 7)))] for _j in range(n)]
        L.append(('S ' if rnd.random() < 0.5 else 'T ') + ' '.join(hx(s) for s in ss))
    # text -> options: paths from a grammar of segment spellings
    sp = [b'a', b'', b'.', b'..', b'%2e', b'%2E', b'%2e%2e', b'.%2e', b'%2E.', b'...', b'.a', b'a.', b'%41', b'a%2Fb', b'a%25b',
          b'%2541', b'%252e', b'%252E%252e', b'a%252Fb', b'%zz', b'%4', b'%', b'%%2e', b'a b', b'\xc3\xa9', b'a%', b'%2', b'%2e%2', b'b%2e', b'%00', b'%ff', b'%FF', b'&', b'=']
    for a in sp:
        L.append('P ' + hx(a))
        L.append('Q ' + hx(a))
    for a, b in itertools.product(sp, repeat=2):
        L.append('P ' + hx(a + b'/' + b))
        L.append('Q ' + hx(a + b'&' + b))
    trip = list(itertools.product(sp, repeat=3))
    for a, b, c in (trip if tier == 'thorough' else rnd.sample(trip, 2500)):
        L.append('P ' + hx(a + b'/' + b + b'/' + c))
    for p in (b'a/b/../../../c', b'a/b?x/../y', b'a#b/..', b'a//b', b'/a', b'a/', b'//', b'a/./b/%2e/c/%2E%2e/d', b'../a', b'a/b/..', b'a/b/.'):
        L.append('P ' + hx(p))
    for _ in range(800 if tier == 'quick' else 30000):
        n = rnd.randint(0, 24)
        L.append(rnd.choice('PQ') + ' ' + hx(bytes(rnd.choice(b'a/%.2eE&?#=4z\x00\xff') for _k in range(n))))
    # URIs from the grammar: scheme x host form x port form x path x query, and a malformed catalogue
    schemes = [b'coap', b'coaps', b'coap+tcp', b'coaps+tcp', b'coap+ws', b'coaps+ws']
    hosts = [b'h', b'example.com', b'10.0.0.1', b'[::1]', b'[2001:db8::1]', b'[fe80::1%25eth0]', b'a-b.c']
    ports = [b'', b':', b':1', b':5683', b':5684', b':65535', b':65536', b':99999999999', b':0', b':80x', b':-1']
    paths = [b'', b'/', b'/a', b'/a/b', b'/a/../b', b'/%2e/x', b'/a%2Fb', b'/.well-known/core', b'/a/', b'//']
    queries = [b'', b'?', b'?a=1', b'?a=1&b=2', b'?a%26b', b'?&', b'?a=1&&']
    for s, h, p, pa, q in itertools.product(schemes, hosts, ports, paths, queries):
        if tier == 'quick' and rnd.random() > 0.08:
            continue
        L.append('U ' + hx(s + b'://' + h + p + pa + q))
    # port numbers: every digit string around the limits (65535 / 65536, one digit more, leading zeros, what wraps in 16 and 32 bits)
    for pt in (b'65534', b'65535', b'65536', b'65537', b'655350', b'655359', b'655360', b'6553500000', b'065535', b'0065536', b'00000', b'000001', b'131071', b'131072',
               b'4294967295', b'4294967296', b'4294967297', b'4295032831', b'18446744073709551616', b'6553', b'65530', b'9', b'99999', b'100000'):
        for form in (b'coap://h:%s/x', b'coap://[2001:db8::1]:%s', b'coaps+tcp://example.com:%s/a?b=1', b'coap://h:%s'):
            L.append('U ' + hx(form % pt))
    for u in (b'coap://', b'coap:///a', b'coap://[', b'coap://[]', b'coap://[::1', b'coap:/h/a', b'coap:h', b'http://h/a', b'cap://h/a',
              b'coap://h:1:2/', b'://h', b'coap://h/a?b#c', b'coap://:5683/a', b'coapx://h', b'coap', b'c', b'coap://h?x', b'coap://h:5/?x',
              b'coaps://h:/', b'/a/b', b'/', b'coap://%2Funix', b'coap://h/%', b'coap://h/%4'):
        L.append('U ' + hx(u))
    for _ in range(400 if tier == 'quick' else 20000):
        n = rnd.randint(0, 30)
        L.append('U ' + hx(rnd.choice(schemes + [b'co', b'']) + bytes(rnd.choice(b':/[]ah.%2e?&#105') for _k in range(n))))
    return L


def run(pid, tier):
    t0 = time.time()
    rnd = random.Random(V.seed() * 611953 + 16)
    out = V.outdir(pid, tier)
    drv = V.link('drv_uri', ['drv_uri.c'])
    mcst = V.mc('MC_Uri', 'MC_Uri.cfg' if tier == 'quick' else 'MC_Uri_thorough.cfg', timeout=3000, xmx='16g')
    if mcst['violated']:
        raise V.Infra('MC_Uri: the RFC operators are not mutually inverse (specification error):\n' + mcst['out'][-2000:])
    lines = gen(tier, rnd)
    traces, lineof, crashes = V.run_line_cases(drv, lines, out)
    results = V.validate_traces('Trace_Uri', traces, xss='256m')
    viol, judged, unclear, ncase = [], 0, 0, 0
    for r in results:
        judged += r.get('judged', 0)
        unclear += r.get('outside_rfc_clear_domain', 0)
        ncase += r['executions']
        for rj in r['rejected']:
            orig = lineof.get((r['trace'], rj['id']), -1)
            viol.append((rj['why'], lines[orig] if orig >= 0 else '?', r['trace'], rj['line']))
    vio_out = []
    for i, (why, case, tr, ln) in enumerate(viol[:50]):
        p = V.save_replay(pid, 'case-%d.txt' % i, case + '\n# ' + why + '\n')
        vio_out.append(('%s on "%s" (%s line %d)' % (why, case[:80], os.path.basename(tr), ln), p))
    for (orig, rc, o) in crashes:
        p = V.save_replay(pid, 'crash-%d.log' % orig, (lines[orig] if orig >= 0 else '?') + '\n' + o)
        vio_out.append(('driver aborted / sanitizer report on "%s" (rc=%d)' % ((lines[orig] if orig >= 0 else '?')[:80], rc), p))
    V.write_evidence(pid, tier, 'model_checking', dict(
        states=mcst['distinct'], transitions=mcst['generated'], traces_validated_against_impl=ncase,
        samples=[lines[0], lines[len(lines) // 2], lines[-1]], conversions_judged=judged,
        conversions_outside_rfc_clear_domain=unclear, crashes=len(crashes), exhaustive=False,
        rule='MC_Uri: left inverse of options->text on all segment lists over a hostile alphabet; code binding: every generated '
             'segment list / path / query / URI is converted by the real functions on exact-size heap copies (ASan) and TLC compares '
             'each result with the RFC operators (Trace_Uri)'),
        time.time() - t0, violations=len(vio_out),
        assumptions=['inputs with an invalid percent-escape, a path ending in a dot segment, the empty string, fragments, userinfo and '
                     'upper-case schemes are executed (memory safety observed) but not judged', 'overreads are observed by ASan, not decided'])
    V.finish(pid, vio_out, [])
