"""C05 -- stream transports deliver the same messages however the byte stream is cut (TCP framing).

Model:    spec/Stream.tla: Messages(stream) as a function of the bytes + the three-state reader; MC_Stream checks on the
          model that the reader fed with EVERY chunking of every small stream equals Messages(concatenation)
Binding:  harness/drv_stream.c creates a real TCP server session through the real accept() path and supplies scripted
          chunks through the wrapped coap_socket_read(); spec/Trace_Stream.tla requires the delivered requests / pongs /
          closure to equal Stream!Obs(stream) for every chunking executed.
"""
import random, itertools, time, os
import verif as V


def enc_tcp(code, tok=b'', opts=(), pl=b'', body=None):
    def ext(x):
        return (x, b'') if x < 13 else (13, bytes([x - 13])) if x < 269 else (14, bytes([(x - 269) >> 8, (x - 269) & 255]))
    if body is None:
        body = b''
        prev = 0
        for num, val in sorted(opts, key=lambda o: o[0]):
            dn, de = ext(num - prev)
            ln, le = ext(len(val))
            body += bytes([(dn << 4) | ln]) + de + le + val
            prev = num
        if pl:
            body += b'\xff' + pl
    L = len(body)
    if L < 13:
        h = bytes([L << 4])
        le = b''
    elif L < 269:
        h, le = bytes([13 << 4]), bytes([L - 13])
    elif L < 65805:
        h, le = bytes([14 << 4]), bytes([(L - 269) >> 8, (L - 269) & 255])
    else:
        h, le = bytes([15 << 4]), (L - 65805).to_bytes(4, 'big')
    tn, te = ext(len(tok))
    return bytes([h[0] | tn]) + le + bytes([code]) + te + tok + body


CSM = enc_tcp(0xe1)


def pat(bid, n):
    return bytes((131 * bid + 7 * i + i // 256) & 255 for i in range(n))


def catalogue():
    C = {}
    C['get0'] = enc_tcp(1, b'', [(11, b'a')])
    C['get8'] = enc_tcp(1, b'\x01\x02\x03\x04\x05\x06\x07\x08', [(11, b'ab'), (15, b'q=1')])
    C['put12'] = enc_tcp(3, b'\x09', [(11, b'a')], b'0123456789')[:0] + enc_tcp(3, b'\x09', [(11, b'a')], b'01234567')      # L = 12
    C['put13'] = enc_tcp(3, b'\x0a', [(11, b'a')], b'012345678')                                                              # L = 13: 8-bit form
    C['tok13'] = enc_tcp(1, bytes(range(13)), [(11, b'a')])                        # 1 extended-token byte
    C['tok20'] = enc_tcp(2, bytes(range(20)), [(11, b'a')], b'xy')
    C['ping'] = enc_tcp(0xe2, b'\x77')
    C['ping0'] = enc_tcp(0xe2)
    C['pong'] = enc_tcp(0xe3, b'\x55')
    C['empty'] = enc_tcp(0)
    C['csm2'] = enc_tcp(0xe1, b'', [(2, b'\x04\x00')])
    C['resp'] = enc_tcp(0x45, b'\x01', [], b'zz')
    C['badopt'] = enc_tcp(1, b'\x31', body=b'\xb1a\xf0')                           # reserved delta nibble inside: dropped
    C['badlen'] = enc_tcp(1, b'\x32', body=b'\xb5a')                               # option value truncated: dropped
    C['marker'] = enc_tcp(1, b'\x33', body=b'\xb1a\xff')                           # payload marker without payload: dropped
    C['release'] = enc_tcp(0xe4)
    C['abort'] = enc_tcp(0xe5)
    C['release_holdoff'] = enc_tcp(0xe4, b'', [(4, b'\x05')])                      # 7.04 with Hold-Off: completes through the partial-PDU path
    C['abort_diag'] = enc_tcp(0xe5, b'\x21', [(2, b'\x00\x02')], b'bye')            # 7.05 with Bad-CSM-Option and a diagnostic payload
    return C


def enc_ws(code, tok=b'', opts=(), pl=b''):
    # RFC 8323 section 8.2: as over TCP but with the Len nibble 0 - the frame delimits the message
    t = enc_tcp(code, tok, opts, pl)
    ln = t[0] >> 4
    skip = 1 + (0 if ln < 13 else 1 if ln == 13 else 2 if ln == 14 else 4)
    return bytes([t[0] & 15]) + t[skip:]


HTTP_UPGRADE = (b'GET /.well-known/coap HTTP/1.1\r\nHost: 127.0.0.1\r\nUpgrade: websocket\r\nConnection: Upgrade\r\n'
                b'Sec-WebSocket-Key: dGhlIHNhbXBsZSBub25jZQ==\r\nSec-WebSocket-Protocol: coap\r\nSec-WebSocket-Version: 13\r\n\r\n')


HTTP_RESPONSE = (b'HTTP/1.1 101 Switching Protocols\r\nUpgrade: websocket\r\nConnection: Upgrade\r\nSec-WebSocket-Accept: ' + b'#' * 28 +
                 b'\r\nSec-WebSocket-Protocol: coap\r\n\r\n')


def ws_frame(payload, rnd, opcode=2, masked=True, key=None):
    key = key if key is not None else bytes(rnd.randrange(256) for _ in range(4))
    n = len(payload)
    b1 = 0x80 if masked else 0
    if n < 126:
        hdr = bytes([0x80 | opcode, b1 | n])
    elif n < 65536:
        hdr = bytes([0x80 | opcode, b1 | 126, n >> 8, n & 255])
    else:
        hdr = bytes([0x80 | opcode, b1 | 127]) + n.to_bytes(8, 'big')
    if not masked:
        return hdr + payload
    return hdr + key + bytes(b ^ key[i % 4] for i, b in enumerate(payload))


def ws_catalogue():
    W = {}
    W['csm'] = enc_ws(0xe1, b'', [(2, b'\x04\x80')])
    W['get0'] = enc_ws(1, b'', [(11, b'a')])
    W['get8'] = enc_ws(1, b'\x01\x02\x03\x04\x05\x06\x07\x08', [(11, b'ab'), (15, b'q=1')])
    W['put'] = enc_ws(3, b'\x09', [(11, b'a')], b'0123456789')
    W['put120'] = enc_ws(3, b'\x0a', [(11, b'a')], bytes(range(120)))              # 125 / 126 / 127 byte frames: the 7-bit / 16-bit length switch
    W['put121'] = enc_ws(3, b'\x0b', [(11, b'a')], bytes(range(121)))
    W['put122'] = enc_ws(3, b'\x0c', [(11, b'a')], bytes(range(122)))
    W['put1400'] = enc_ws(3, b'\x0d', [(11, b'a')], bytes(i & 255 for i in range(1400)))
    W['tok13'] = enc_ws(1, bytes(range(13)), [(11, b'a')])
    W['ping'] = enc_ws(0xe2, b'\x77')
    W['ping0'] = enc_ws(0xe2)                                                        # two bytes
    W['pong'] = enc_ws(0xe3, b'\x55')
    W['empty'] = enc_ws(0)
    W['resp'] = enc_ws(0x45, b'\x01', [], b'zz')
    W['badopt'] = bytes([0x01, 1, 0x31, 0xb1, ord('a'), 0xf0])
    W['marker'] = bytes([0x01, 1, 0x33, 0xb1, ord('a'), 0xff])
    W['release'] = enc_ws(0xe4)
    W['abort_diag'] = enc_ws(0xe5, b'\x21', [(2, b'\x00\x02')], b'bye')
    return W


def cuts_to_chunks(total, cuts):
    prev, out = 0, []
    for c in cuts:
        out.append(c - prev)
        prev = c
    return out


def gen(tier, rnd):
    cases = []
    C = catalogue()
    cid = [0]

    def case(stream_lines, chunks, mx=0, edge=0, ws=0, http=0, role=0, hostile=0):
        cid[0] += 1
        cases.append((cid[0], ['X id=%d max=%d edge=%d ws=%d http=%d role=%d hostile=%d' % (cid[0], mx, edge, ws, http, role, hostile)] + stream_lines +
                      ['C ' + ' '.join(str(c) for c in chunks), 'E']))

    def lit(parts):
        return ['S ' + b''.join(parts).hex()]
    small = [['get0'], ['get8', 'ping'], ['put12', 'put13'], ['tok13', 'get0'], ['ping', 'empty', 'get0'], ['badopt', 'get0'], ['resp', 'pong', 'get8'],
             ['csm2', 'tok20'], ['marker', 'badlen', 'ping0'], ['get0', 'release', 'get8'], ['get0', 'abort', 'ping'], ['get8', 'release_holdoff', 'get0'], ['ping', 'abort_diag', 'get0'], ['put13', 'get0', 'get8', 'ping']]
    for names in small:
        parts = [CSM] + [C[n] for n in names]
        n = sum(len(p) for p in parts)
        sl = lit(parts)
        case(sl, [])                                     # one read
        case(sl, [1] * n)                                # one byte per read
        case(sl, [0, 1, 0, 2, 0] + [3] * n)              # empty reads interleaved
        for c1 in range(1, n):                           # every single cut
            case(sl, cuts_to_chunks(n, [c1]))
        two = list(itertools.combinations(range(1, n), 2))
        for cs in (two if tier == 'thorough' or n <= 20 else rnd.sample(two, 120)):
            case(sl, cuts_to_chunks(n, cs))
        three = list(itertools.combinations(range(1, n), 3))
        for cs in (three if tier == 'thorough' and n <= 48 else rnd.sample(three, min(len(three), 150 if n <= 24 else 60))):
            case(sl, cuts_to_chunks(n, cs))
    # the 16-bit and 32-bit length forms and a 2-byte extended token length: long messages, pattern payloads
    for (tl, plen, nm) in ((0, 300, 'len16'), (4, 65804 - 3, 'len16max'), (2, 65805 - 3, 'len32'), (269, 5, 'tok269'), (300, 70000, 'tok300len32')):
        tok = pat(7, tl)
        body_opts = b'\xb1a'
        L = len(body_opts) + 1 + plen
        m_hdr = enc_tcp(1, tok, body=body_opts + b'\xff' + b'\x00' * plen)
        head_len = len(m_hdr) - plen
        sl = ['K 9 %d' % plen] + (['K 7 %d' % tl] if tl >= 16 else []) + ['S ' + (CSM + m_hdr[:head_len]).hex(), 'P 9 %d' % plen, 'S ' + C['ping'].hex()]
        n = len(CSM) + len(m_hdr) + len(C['ping'])
        case(sl, [])
        case(sl, [1] * 12 + [1472, 1472, 1, 1471, 1473])
        # the same arrivals signalled once each (a TLS layer underneath): the reader has to drain what one wake-up brought
        case(sl, [], edge=1)
        case(sl, [1] * 12 + [1472, 1472, 1, 1471, 1473], edge=1)
        case(sl, [len(CSM) + 2, 1472 * 2, 1472 * 3 + 5], edge=1)
        for _ in range(6 if tier == 'quick' else 60):
            k = rnd.randint(1, 8)
            cs = sorted(rnd.sample(range(1, n), k))
            case(sl, cuts_to_chunks(n, cs))
        hb = len(CSM)
        for c1 in range(hb + 1, hb + head_len + 2):     # every cut inside the long message's header
            case(sl, cuts_to_chunks(n, [c1]))
            case(sl, cuts_to_chunks(n, [hb + 1, c1]) if c1 > hb + 1 else [hb + 1])
    # declared length above the maximum: closed, not buffered
    for (mx, L) in ((1500, 3000), (1500, 70000), (0, 20000000), (1500, 1700), (0, 8388864 + 65805), (0, (1 << 31) + 65805), (0, 0xfffefef2 + 65805), (0, 1 << 32),
                    (1500, (1 << 32) + 40), (0, (1 << 32) + 65804), (1500, 0xffffffff + 65805)):         # ... up to what 32 bits of extended length can say
        big = enc_tcp(1, b'\x01', body=b'\xb1a\xff' + b'\x00' * 0)[:0]
        Lb = L
        if Lb < 65805:
            hdr = bytes([(14 << 4) | 1, (Lb - 269) >> 8, (Lb - 269) & 255, 1, 0x01])
        else:
            hdr = bytes([(15 << 4) | 1]) + (Lb - 65805).to_bytes(4, 'big') + bytes([1, 0x01])
        sl = lit([CSM, C['get0'], hdr, b'\xb1a\xff' + b'x' * 40])
        n = len(CSM) + len(C['get0']) + len(hdr) + 43
        case(sl, [], mx)
        case(sl, [1] * n, mx)
        for c1 in range(len(CSM) + len(C['get0']), len(CSM) + len(C['get0']) + len(hdr) + 1):
            case(sl, cuts_to_chunks(n, [c1]), mx)
    # the peer's own CSM announces a Max-Message-Size far above what this endpoint accepts (that is the peer's receive limit, not ours): a
    # message above OUR limit still closes the session, one at our limit is delivered
    CSM_BIG = bytes([0x40, 0xe1, 0x23, 0x01, 0x86, 0xa0])
    for (mx, L) in ((1500, 3000), (1152, 5004), (1500, 70000), (2000, 99000)):
        hdr = bytes([(14 << 4) | 1, (L - 269) >> 8, (L - 269) & 255, 1, 0x01]) if L < 65805 else bytes([(15 << 4) | 1]) + (L - 65805).to_bytes(4, 'big') + bytes([1, 0x01])
        sl = lit([CSM_BIG, C['get0'], hdr, b'\xb1a\xff' + b'x' * 40])
        n = len(CSM_BIG) + len(C['get0']) + len(hdr) + 43
        case(sl, [], mx)
        case(sl, [1] * n, mx)
        case(sl, cuts_to_chunks(n, [len(CSM_BIG) + len(C['get0']) + 2]), mx)
    sl = ['K 9 1200', 'S ' + (CSM_BIG + enc_tcp(3, b'\x05', body=b'\xb1a\xff' + b'\x00' * 1200)[:-1200]).hex(), 'P 9 1200', 'S ' + C['get0'].hex()]
    case(sl, [], 1500)
    # just below the maximum: delivered
    sl = ['K 9 1200', 'S ' + (CSM + enc_tcp(3, b'\x05', body=b'\xb1a\xff' + b'\x00' * 1200)[:-1200]).hex(), 'P 9 1200', 'S ' + C['get0'].hex()]
    case(sl, [], 1500)
    case(sl, [3, 700, 1, 1], 1500)
    # ---- WebSocket: the upgrade request, then one masked binary frame per message (readiness level-triggered: the reader takes one frame per wake-up) ----
    W = ws_catalogue()
    H = len(HTTP_UPGRADE)
    wsmall = [['get0'], ['get8', 'ping'], ['put', 'get0'], ['put120', 'put121', 'put122', 'get0'], ['tok13', 'ping0', 'get0'], ['empty', 'resp', 'pong', 'get8'],
              ['badopt', 'get0'], ['marker', 'get8'], ['get0', 'release', 'get8'], ['ping', 'abort_diag', 'get0'], ['put1400', 'get0'], ['get0', 'get0', 'get0', 'get8', 'ping', 'put']]
    for names_ in wsmall:
        frames = [ws_frame(W['csm'], rnd)] + [ws_frame(W[n_], rnd) for n_ in names_]
        body = b''.join(frames)
        sl = lit([HTTP_UPGRADE, body])
        n = H + len(body)
        case(sl, [], ws=1, http=H)
        case(sl, [H], ws=1, http=H)
        case(sl, [1] * min(n, 600), ws=1, http=H)                        # one byte per read through the handshake and the first frames
        case(sl, [H] + [1] * (n - H), ws=1, http=H)
        case(sl, [H, 2, 4], ws=1, http=H)                                # frame header cut after the first two bytes and after the key
        cutset = list(range(H + 1, n))
        for c1 in (cutset if (tier == 'thorough' or len(cutset) <= 80) else rnd.sample(cutset, 80)):
            case(sl, cuts_to_chunks(n, [H, c1]), ws=1, http=H)
        for _ in range(40 if tier == 'quick' else 400):
            cs = sorted(rnd.sample(range(1, n), rnd.randint(2, 6)))
            case(sl, cuts_to_chunks(n, cs), ws=1, http=H)
    # frames a CoAP endpoint does not take: unmasked, text, ping, close, continuation; a frame longer than the buffer
    odd = [ws_frame(W['get0'], rnd, masked=False), ws_frame(W['get0'], rnd, opcode=1), ws_frame(b'', rnd, opcode=9), ws_frame(b'\x03\xe8', rnd, opcode=8),
           ws_frame(W['get0'], rnd, opcode=0), ws_frame(bytes(1500), rnd), bytes([0x82, 0xff, 0, 0, 0, 1, 0, 0, 0, 0, 1, 2, 3, 4]),
           bytes([0x82, 0xff, 0x80, 0, 0, 0, 0, 0, 0, 0x10, 9, 8, 7, 6]) + bytes(4096),            # 64-bit length with the top bit set (RFC 6455 forbids it)
           bytes([0x82, 0xff, 0xff, 0xff, 0xff, 0xff, 0xff, 0xff, 0xff, 0xff, 1, 1, 1, 1]) + bytes(64),
           bytes([0x82, 0xfe, 0xff, 0xff, 5, 5, 5, 5]) + bytes(3000)]                                 # 16-bit length 65535
    for o in odd:
        body = ws_frame(W['csm'], rnd) + ws_frame(W['get8'], rnd) + o + ws_frame(W['get0'], rnd)
        sl = lit([HTTP_UPGRADE, body])
        n = H + len(body)
        case(sl, [H], ws=1, http=H)
        case(sl, [H] + [1] * 40, ws=1, http=H)
        case(sl, [H, 3, 9, 1], ws=1, http=H)
    # ---- the same on a CLIENT session (role=1): the driver is the server, the library connects to it; the stream is what the server sends ----
    CSMX = enc_tcp(0xe1, b'', [(6, b'\x01\x01\x0c')])               # the server's CSM allows extended tokens (RFC 8974): a client session takes its limit from it
    for names_ in small:
        parts = [CSMX] + [C[n_] for n_ in names_]
        n = sum(len(p) for p in parts)
        sl = lit(parts)
        case(sl, [], role=1)
        case(sl, [1] * n, role=1)
        for c1 in range(1, n):
            case(sl, cuts_to_chunks(n, [c1]), role=1)
        two = list(itertools.combinations(range(1, n), 2))
        for cs in (two if tier == 'thorough' and n <= 40 else rnd.sample(two, min(len(two), 40))):
            case(sl, cuts_to_chunks(n, cs), role=1)
    # WebSocket client: the 101 response (Sec-WebSocket-Accept patched in by the driver), then UNMASKED frames (RFC 6455: a server does not mask)
    HR = len(HTTP_RESPONSE)
    wsmall_c = wsmall + [['ping0', 'ping0', 'ping0', 'ping'], ['ping0'] * 9 + ['get0'], ['empty', 'ping0', 'empty', 'ping', 'get0', 'ping0']]
    for names_ in wsmall_c:
        frames = [ws_frame(enc_ws(0xe1, b'', [(2, b'\x04\x80'), (6, b'\x01\x01\x0c')]), rnd, masked=False)] + [ws_frame(W[n_], rnd, masked=False) for n_ in names_]
        body = b''.join(frames)
        sl = lit([HTTP_RESPONSE, body])
        n = HR + len(body)
        case(sl, [], ws=1, http=HR, role=1)
        case(sl, [HR], ws=1, http=HR, role=1)                           # every frame in one arrival: several may fit the 14-byte header buffer
        case(sl, [1] * min(n, 600), ws=1, http=HR, role=1)
        case(sl, [HR] + [1] * (n - HR), ws=1, http=HR, role=1)
        case(sl, [HR, 1, 1, 2], ws=1, http=HR, role=1)
        cutset = list(range(HR + 1, n))
        for c1 in (cutset if (tier == 'thorough' or len(cutset) <= 60) else rnd.sample(cutset, 60)):
            case(sl, cuts_to_chunks(n, [HR, c1]), ws=1, http=HR, role=1)
        for c1 in (range(1, HR) if tier == 'thorough' else rnd.sample(range(1, HR), 12)):   # cuts inside the handshake
            case(sl, cuts_to_chunks(n, [c1]), ws=1, http=HR, role=1)
        for _ in range(20 if tier == 'quick' else 300):
            cs = sorted(rnd.sample(range(1, n), rnd.randint(2, 6)))
            case(sl, cuts_to_chunks(n, cs), ws=1, http=HR, role=1)
    # ---- the handshake itself: other valid spellings, long header lines up to and beyond what the reader buffers (C05: an over-long
    #      line closes the session, however it arrives) ----
    def upgrade(extra=(), order=None, eol=b'\r\n', spell=0):
        hs = [b'Host: 127.0.0.1', b'Upgrade: websocket', b'Connection: Upgrade', b'Sec-WebSocket-Key: dGhlIHNhbXBsZSBub25jZQ==',
              b'Sec-WebSocket-Protocol: coap', b'Sec-WebSocket-Version: 13']
        if spell:
            hs = [b'host: localhost:5683', b'UPGRADE: WebSocket', b'connection: keep-alive, Upgrade', b'sec-websocket-key:  dGhlIHNhbXBsZSBub25jZQ==',
                  b'Sec-Websocket-Protocol:\tcoap', b'SEC-WEBSOCKET-VERSION: 13']
        hs = hs + list(extra)
        if order:
            hs = [hs[i] for i in order] + hs[len(order):]
        return b'GET /.well-known/coap HTTP/1.1' + eol + eol.join(hs) + eol + eol

    def response(extra=(), order=None, eol=b'\r\n'):
        hs = [b'Upgrade: websocket', b'Connection: Upgrade', b'Sec-WebSocket-Accept: ' + b'#' * 28, b'Sec-WebSocket-Protocol: coap']
        hs = hs + list(extra)
        if order:
            hs = [hs[i] for i in order] + hs[len(order):]
        return b'HTTP/1.1 101 Switching Protocols' + eol + eol.join(hs) + eol + eol

    def agent(k):          # a header line with exactly k bytes in front of its LF (CR included)
        return b'User-Agent: ' + b'x' * (k - 13)
    # optional whitespace after the colon is SP or HTAB (RFC 7230 3.2): every header, or single ones, separated by a TAB (libcoap refuses a header with no whitespace at all after the colon - legal HTTP, but acceptance of a handshake is not what C05 is about; not generated)
    tabbed = [(0, upgrade().replace(b': ', b':\t')), (0, upgrade().replace(b'Upgrade: websocket', b'Upgrade:\twebsocket')),
              (0, upgrade().replace(b'Connection: Upgrade', b'Connection:\tUpgrade').replace(b'Version: 13', b'Version:\t13')),
              (1, response().replace(b': ', b':\t'))]
    hs_variants = list(tabbed)
    hs_variants += [(0, upgrade(order=[5, 4, 3, 2, 1, 0])), (0, upgrade(eol=b'\n')), (0, upgrade(spell=1)), (0, upgrade(extra=[b'Origin: http://example.org', b'X-Empty:  ']))]
    hs_variants += [(0, upgrade(extra=[agent(k)])) for k in (100, 140, 145, 146, 147, 150, 157, 158, 159, 160, 161, 175, 300)]
    hs_variants += [(0, upgrade(extra=[agent(158), agent(158), agent(60)])), (0, upgrade(extra=[agent(20)], order=[0, 1, 2])[:-2] + agent(400) + b'\r\n\r\n')]
    hs_variants += [(1, response(order=[3, 2, 1, 0])), (1, response(eol=b'\n')), (1, response(extra=[b'Server: libcoap-test', b'Date: today']))]
    hs_variants += [(1, response(extra=[agent(k)])) for k in (100, 146, 150, 158, 159, 160, 175, 300)]
    for role_, hsb in hs_variants:
        frames = [ws_frame(enc_ws(0xe1, b'', [(2, b'\x04\x80'), (6, b'\x01\x01\x0c')]), rnd, masked=not role_)] + [ws_frame(W[n_], rnd, masked=not role_) for n_ in ('get0', 'ping', 'get8')]
        body = b''.join(frames)
        sl = lit([hsb, body])
        Hh = len(hsb)
        n = Hh + len(body)
        case(sl, [], ws=1, http=Hh, role=role_)
        case(sl, [Hh], ws=1, http=Hh, role=role_)
        case(sl, [1] * n, ws=1, http=Hh, role=role_)
        for sz in (2, 3, 5, 7, 13, 14, 15, 16, 28, 29, 64, 145, 146, 147, 159, 160, 161):
            case(sl, [sz] * (n // sz + 1), ws=1, http=Hh, role=role_)
        for c1 in (range(1, Hh + 3) if tier == 'thorough' or (role_, hsb) in tabbed else rnd.sample(range(1, Hh + 3), 25)):
            case(sl, cuts_to_chunks(n, [c1]), ws=1, http=Hh, role=role_)
        for _ in range(10 if tier == 'quick' else 200):
            cs = sorted(rnd.sample(range(1, n), rnd.randint(2, 6)))
            case(sl, cuts_to_chunks(n, cs), ws=1, http=Hh, role=role_)
    # ---- handshakes that are NOT valid (hostile=1: judged for robustness only - no sanitizer report, no hang; this is C02's part of the catalogue) ----
    good_req, good_rsp = upgrade(), response()
    bad = [(0, b'GET\r\n\r\n'), (0, b'\r\n\r\n'), (0, b'\n' * 40), (0, b'GET /.well-known/coap HTTP/1.1\r\nUpgrade:\r\n\r\n'), (0, b'GET /.well-known/coap HTTP/1.1\r\nUpgrade\r\n\r\n'),
           (0, good_req.replace(b'dGhlIHNhbXBsZSBub25jZQ==', b'dGhl')), (0, good_req.replace(b'dGhlIHNhbXBsZSBub25jZQ==', b'!' * 24)), (0, good_req.replace(b'dGhlIHNhbXBsZSBub25jZQ==', b'A' * 100)),
           (0, good_req.replace(b'Host: 127.0.0.1\r\n', b'Host: a\r\nHost: b\r\n')), (0, good_req.replace(b'13', b'12')), (0, good_req.replace(b'GET /.well-known/coap', b'GET /x')),
           (0, good_req[:-2] + b'\x00\r\n'), (0, b'\x00' * 200), (0, b'\xff' * 500), (0, good_req.replace(b'Upgrade: websocket', b'Upgrade: \x00websocket')),
           (0, good_req.replace(b'\r\n', b'\r')), (0, b'GET /.well-known/coap HTTP/1.1\r\n' + b'A: b\r\n' * 200 + b'\r\n'), (0, good_req[:-2] + b'x' * 158 + b'\n' + b'y' * 159 + b'\n\r\n'),
           (0, good_req + b'\x82\xfe'), (0, good_req + b'\x82\xff' + b'\xff' * 8), (0, good_req + bytes([0x88, 0x80, 1, 2, 3, 4])), (0, good_req + bytes([0x82, 0x81, 1, 2, 3, 4, 0x55])),
           (1, b'HTTP/1.1\r\n\r\n'), (1, b'HTTP/1.1\r\n'), (1, b'HTTP/1.1 \r\n\r\n'), (1, b'HTTP/1.1 200 OK\r\n\r\n'), (1, b'HTTP/1.0 101 x\r\n\r\n'), (1, b'\r\n'), (1, b'101\r\n\r\n'),
           (1, good_rsp.replace(b'#' * 28, b'A' * 28)), (1, good_rsp.replace(b'#' * 28, b'')), (1, good_rsp.replace(b'Sec-WebSocket-Accept: ', b'Sec-WebSocket-Accept:')),
           (1, good_rsp.replace(b'Upgrade: websocket', b'Upgrade')), (1, good_rsp.replace(b'coap', b'mqtt')), (1, good_rsp[:-2] + b'\x00\r\n'), (1, b'\x00' * 200), (1, b'\xff' * 500),
           (1, good_rsp + bytes([0x82, 0x80, 0, 0, 0, 0])), (1, good_rsp + bytes([0x82, 0xfe])), (1, good_rsp + b'\x82\x7f' + b'\xff' * 8), (1, good_rsp + bytes([0x82, 0x01, 0x01])),
           (1, good_rsp + bytes([0x88, 0x00])), (1, good_rsp + bytes([0x82, 0x00]) * 9), (1, good_rsp[:-2] + agent(159) + b'\r\n\r\n'), (1, good_rsp[:-2] + agent(160) + b'\r\n\r\n')]
    for _ in range(150 if tier == 'quick' else 10000):
        role_ = rnd.randrange(2)
        b = bytearray(good_rsp if role_ else good_req)
        for _m in range(rnd.randint(1, 4)):
            r_, pos = rnd.random(), rnd.randrange(len(b))
            if r_ < 0.4:
                b[pos] = rnd.choice((0, 10, 13, 32, 58, 9, 255, rnd.randrange(256)))
            elif r_ < 0.7:
                del b[pos:pos + rnd.randint(1, 20)]
            else:
                b[pos:pos] = bytes(rnd.choice((0, 10, 13, 32, 58, 65)) for _x in range(rnd.randint(1, 170)))
        bad.append((role_, bytes(b) + (ws_frame(W['get0'], rnd, masked=not role_) if rnd.random() < 0.5 else b'')))
    for role_, hb in bad:
        sl = lit([hb])
        n = len(hb)
        case(sl, [], ws=1, http=n, role=role_, hostile=1)
        case(sl, [1] * n, ws=1, http=n, role=role_, hostile=1)
        if n > 3:
            case(sl, cuts_to_chunks(n, sorted(rnd.sample(range(1, n), 2))), ws=1, http=n, role=role_, hostile=1)
    # ---- byte streams that are NOT valid CoAP-over-TCP / WebSocket frames (hostile=1: robustness only): random bytes, valid streams with random edits,
    #      for server and client sessions, with and without the opening CSM ----
    allnames = list(C)
    for _ in range(250 if tier == 'quick' else 20000):
        role_ = rnd.randrange(2)
        wsx = rnd.random() < 0.4
        r_ = rnd.random()
        if wsx:
            hs = HTTP_RESPONSE if role_ else HTTP_UPGRADE
            fr = [ws_frame(W[rnd.choice(list(W))], rnd, masked=(not role_) if rnd.random() < 0.9 else bool(role_)) for _k in range(rnd.randint(1, 5))]
            b = bytearray(b''.join(fr))
        else:
            hs = b''
            b = bytearray(b''.join(([CSMX if role_ else CSM] if rnd.random() < 0.7 else []) + [C[rnd.choice(allnames)] for _k in range(rnd.randint(1, 5))]))
        if r_ < 0.25:
            b = bytearray(rnd.randrange(256) for _x in range(rnd.randint(1, 300)))
        else:
            for _m in range(rnd.randint(1, 5)):
                pos = rnd.randrange(len(b)) if b else 0
                q_ = rnd.random()
                if q_ < 0.5 and b:
                    b[pos] = rnd.choice((0, 255, 0xff, 0xd0, 0xe0, 0xf0, 0x0d, 0x0e, 0x0f, 0x7e, 0x7f, 0xfe, rnd.randrange(256)))
                elif q_ < 0.75 and b:
                    del b[pos:pos + rnd.randint(1, 8)]
                else:
                    b[pos:pos] = bytes(rnd.randrange(256) for _x in range(rnd.randint(1, 12)))
        sl = lit([hs, bytes(b)])
        n = len(hs) + len(b)
        if n < 2:
            continue
        ch = [] if rnd.random() < 0.4 else [1] * n if rnd.random() < 0.3 else cuts_to_chunks(n, sorted(rnd.sample(range(1, n), min(n - 1, rnd.randint(1, 5)))))
        case(sl, ch, ws=1 if wsx else 0, http=len(hs), role=role_, hostile=1, edge=1 if (not wsx and rnd.random() < 0.2) else 0)
    # random streams and random cuts
    names = [k for k in C if k not in ('release', 'abort', 'release_holdoff', 'abort_diag')]
    for _ in range(600 if tier == 'quick' else 120000):
        role = 1 if rnd.random() < 0.3 else 0
        parts = [CSMX if role else CSM] + [C[rnd.choice(names)] for _k in range(rnd.randint(1, 6))]
        n = sum(len(p) for p in parts)
        k = rnd.randint(0, min(10, n - 1))
        cs = sorted(rnd.sample(range(1, n), k))
        ch = cuts_to_chunks(n, cs)
        if rnd.random() < 0.2:
            ch = [x for c in ch for x in (c, 0)]
        case(lit(parts), ch, edge=1 if rnd.random() < 0.25 else 0, role=role)
    # many messages arriving in one wake-up that is larger than the read buffer (1472), signalled once
    for k in range(6 if tier == 'quick' else 60):
        parts = [CSM] + [C[rnd.choice(names)] for _k in range(rnd.randint(120, 400))]
        n = sum(len(p) for p in parts)
        cs = sorted(rnd.sample(range(1, n), rnd.randint(0, 3)))
        case(lit(parts), cuts_to_chunks(n, cs), edge=1)
    return cases


def run(pid, tier):
    t0 = time.time()
    rnd = random.Random(V.seed() * 2654435 + 5)
    out = V.outdir(pid, tier)
    drv = V.link('drv_stream', ['drv_stream.c', 'simnet.c'], V.SIM_WRAPS + ['coap_socket_read', 'coap_socket_write'])
    mcst = V.mc('MC_Stream', 'MC_Stream.cfg' if tier == 'quick' else 'MC_Stream_thorough.cfg', must_fire=['AFeed'], timeout=3000, xmx='16g')
    if mcst['violated']:
        raise V.Infra('MC_Stream violated (specification error):\n' + mcst['out'][-2500:])
    # the WebSocket frame reader (header buffer that reads ahead, leftover, partial payload, drain loop) against Stream!WsMessagesR, every arrival pattern
    wsst = []
    for cfgname in ('MC_StreamWS_client.cfg', 'MC_StreamWS_server.cfg'):
        st = V.mc('MC_StreamWS', cfgname, must_fire=['AArrive', 'AReadEvent'], workers=8, timeout=900)
        if st['violated']:
            raise V.Infra('MC_StreamWS (%s) violated (specification error):\n' % cfgname + st['out'][-2500:])
        wsst.append(st)
    # ... and the model tells the reader as it was from the reader as it is: one call per read event stalls, a payload kept in the caller's buffer is lost
    for cfgname, what in (('MC_StreamWS_nodrain.cfg', 'Invariant AtRestI is violated'), ('MC_StreamWS_nopartial.cfg', 'Invariant PrefixI is violated')):
        neg = V.tlc('MC_StreamWS', cfgname, workers=4, deque=False, timeout=600)
        if what not in neg['out']:
            raise V.Infra('MC_StreamWS sanity: %s does not produce "%s"' % (cfgname, what))
    # the handshake line reader (160-byte line buffer, reads of at most 14 bytes) against Stream!HttpScan, every arrival pattern; as it was (NUL one past the
    # buffer) and the seeded variant (refusal depends on where reads end) are told apart
    st = V.mc('MC_StreamHttp', 'MC_StreamHttp.cfg', must_fire=['AArrive', 'AReadEvent'], workers=8, timeout=900)
    if st['violated']:
        raise V.Infra('MC_StreamHttp violated (specification error):\n' + st['out'][-2500:])
    wsst.append(st)
    for cfgname, what in (('MC_StreamHttp_asitwas.cfg', 'Invariant BoundedI is violated'), ('MC_StreamHttp_early.cfg', 'Invariant AtRestI is violated')):
        neg = V.tlc('MC_StreamHttp', cfgname, workers=4, deque=False, timeout=600)
        if what not in neg['out']:
            raise V.Infra('MC_StreamHttp sanity: %s does not produce "%s"' % (cfgname, what))
    cases = gen(tier, rnd)
    jobs = []
    for ci in range(V.NCPU):
        ch = cases[ci::V.NCPU]
        if not ch:
            continue
        cf = os.path.join(out, 'cases-%02d.txt' % ci)
        with open(cf, 'w') as f:
            for _, ls in ch:
                f.write('\n'.join(ls) + '\n')
        jobs.append((cf, os.path.join(out, 'trace-%02d.ndjson' % ci)))
    import concurrent.futures as cfu
    crashes = []

    def rundrv(j):
        rc, o = V.run_driver(drv, [j[0], j[1]], timeout=400 if tier == 'quick' else 3000)
        return j, rc, o
    with cfu.ThreadPoolExecutor(max_workers=V.NCPU) as ex:
        for j, rc, o in ex.map(rundrv, jobs):
            if rc != 0 or V.sanitizer_reports(o):
                crashes.append((j, rc, o[-8000:]))
                with open(j[1], 'rb') as f:
                    data = f.read()
                if not data.endswith(b'\n'):
                    data = data[:data.rfind(b'\n') + 1]
                with open(j[1], 'wb') as f:
                    f.write(data + b'{"e":"Crash"}\n')
    results = V.validate_traces('Trace_Stream', [j[1] for j in jobs], xss='512m', xmx='4g')
    bycase = dict(cases)
    vio_out, nexec, nund = [], 0, 0
    for r in results:
        nexec += r['executions']
        nund += r['discarded']
        for rj in r['rejected']:
            p = V.save_replay(pid, 'case-%d.txt' % rj['id'], '\n'.join(bycase.get(rj['id'], [])) + '\n# ' + rj['why'] + '\n')
            vio_out.append(('%s (case %d, %s line %d)' % (rj['why'], rj['id'], os.path.basename(r['trace']), rj['line']), p))
    for (j, rc, o) in crashes:
        p = V.save_replay(pid, 'crash-%s.log' % os.path.basename(j[0]), o)
        vio_out.append(('driver aborted / sanitizer report (rc=%d) on %s' % (rc, j[0]), p))
    V.write_evidence(pid, tier, 'model_checking', dict(
        states=mcst['distinct'] + sum(x['distinct'] for x in wsst), transitions=mcst['generated'] + sum(x['generated'] for x in wsst), traces_validated_against_impl=nexec - nund,
        samples=[cases[3][1], cases[-1][1]], chunkings_executed=nexec, undecidable_by_model=nund, exhaustive=False,
        rule='MC_Stream: reader = Messages for every chunking of every stream over a small alphabet; MC_StreamWS: the WebSocket frame reader (14-byte read-ahead header buffer, '
             'leftover, partial payload, drain loop) = WsMessages for every arrival pattern, with the two repaired defects as negative configurations; MC_StreamHttp: the handshake line reader '
             '= HttpScan for every arrival pattern of handshakes with a 20..175-byte header line; code binding: streams of 1-6 messages '
             '(all length forms incl. 16/32-bit, tokens 0/8/13/20/269/300, ping/pong/empty/CSM/responses/malformed/release/abort, oversize) '
             'cut at every 1-cut, (sampled) 2- and 3-cut placement, one byte per read, empty reads, buffer-size reads and random cuts; server sessions (real accept path) '
             'and client sessions (real connect to the driver\'s listener); WebSocket: upgrade request / 101 response in several valid spellings, header lines of 100..400 bytes '
             '(over-long closes), masked / unmasked frames with 7/16/64-bit lengths, cuts in handshake, frame header, key and payload, many small frames in one arrival'),
        time.time() - t0, violations=len(vio_out),
        assumptions=['whether the lines of a handshake make a valid upgrade request / response is not modelled: the C05 cases use valid ones, invalid ones (hostile=1) '
                     'are judged for robustness only (sanitizer report, hang); WSS / TLS records and fragmented WebSocket frames are not generated',
                     'TKL 15 inside a stream is not generated',
                     'declared sizes within 100 bytes of the configured maximum are not generated'])
    V.finish(pid, vio_out, [])
