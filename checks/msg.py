"""C06 / C07 / C08 -- message layer and request/response layer of the libcoap client.

Model:    spec/Reliability.tla + spec/Exchange.tla, closed model spec/MC_Reliability.tla (TLC, invariants)
Binding:  harness/drv_rel.c runs the real client on the simulator against a scripted peer over generated
          schedules; spec/Trace_Msg.tla validates every recorded execution (direction B of DESIGN.md).
All three properties are judged on the union of the three schedule suites; a rejection counts for the
property named in its tag (the property whose statement forbids the rejected step).
"""
import os, random, itertools, json, time
import verif as V

CFGS = [  # ato ms, rf milli, mr, tol
    dict(ato=2000, rf=1500, mr=4, tol=16),
    dict(ato=1000, rf=1000, mr=4, tol=16),
    dict(ato=2000, rf=1000, mr=2, tol=16),
    dict(ato=4000, rf=2000, mr=3, tol=16),
    dict(ato=1000, rf=1250, mr=4, tol=16),
    dict(ato=3700, rf=2500, mr=3, tol=16 * 8),
    dict(ato=2000, rf=1500, mr=0, tol=16),
    dict(ato=2000, rf=1500, mr=1, tol=16),
    dict(ato=2000, rf=1500, mr=7, tol=16),
]


def until(c):
    # virtual horizon: far beyond any give-up (the run stops earlier when nothing is pending)
    return 3000000


class Gen:
    def __init__(self):
        self.cases = []
        self.n = 0

    def case(self, suite, cfg, lines, ns=1, nsess=1, srv=0, trig=5000, ka=0, until_ms=None):
        self.n += 1
        hdr = 'X id=%d ato=%d rf=%d mr=%d ns=%d nsess=%d tol=%d until=%d' % (
            self.n, cfg['ato'], cfg['rf'], cfg['mr'], ns, nsess, cfg['tol'], until(cfg))
        if until_ms:
            hdr = hdr.replace('until=%d' % until(cfg), 'until=%d' % until_ms)
        if srv:
            hdr += ' srv=1 trig=%d' % trig
        if ka:
            hdr += ' ka=%d' % ka
        self.cases.append((self.n, suite, [hdr] + lines + ['E']))


def suite_rel(g, tier, rnd):
    """C06: retransmission schedule / single outcome."""
    # R1: which copy is answered, how, and when relative to the timers
    for cfg in CFGS:
        mr = cfg['mr']
        exact = cfg['rf'] == 1000
        delays = [0, 1, cfg['ato'] - 1] + ([cfg['ato'], cfg['ato'] + 1] if exact else [])
        for i in range(0, mr + 2):
            for kind in ('ack', 'rst', 'pig'):
                for d in delays:
                    if tier == 'quick' and cfg is not CFGS[0] and d not in (0, cfg['ato'] - 1, cfg['ato']):
                        continue
                    ls = ['A 0 0 CON 17'] + ['R 17 %d none' % c for c in range(i)]
                    if i <= mr:
                        ls.append('R 17 %d %s+%d' % (i, kind, d))
                    g.case('rel.answer', cfg, ls)
    # R2: every drop subset of the first 10 datagrams of one exchange (5 copies, 5 acknowledgements)
    cfg = CFGS[0]
    nbits = 10 if tier == 'quick' else 10
    for mask in range(1 << nbits):
        ls = ['A 0 0 CON 17']
        rcv = 0
        for j in range(5):
            if mask >> j & 1:
                ls.append('L %d' % j)
            else:
                ls.append('R 17 %d %s' % (rcv, 'none' if mask >> (5 + j) & 1 else 'ack+3'))
                rcv += 1
        g.case('rel.dropsubset', cfg, ls)
    # R3: two sessions sharing the context's send queue; answers that cancel by message id and by token
    kinds = ['ack+%d', 'none', 'sepnon+%d', 'rst+%d', 'pig+%d', 'ack+%d sepcon+700']
    offs = [(0, 500, 700), (0, 1500, 1600), (0, 0, 0), (0, 2500, 2600)]
    ds = [100, 1000] if tier == 'quick' else [1, 100, 1000, 1900]
    for cfg in (CFGS[0], CFGS[2], CFGS[7]):
        for (ta, tb, tc) in offs:
            for ka, kb, kc in itertools.product(kinds, repeat=3):
                if tier == 'quick' and rnd.random() > 0.12:
                    continue
                for d in ds:
                    ls = ['A %d 0 CON 17' % ta, 'A %d 1 CON 18' % tb, 'A %d 0 CON 19' % tc]
                    for tok, k in ((17, ka), (18, kb), (19, kc)):
                        r = k % d if '%d' in k else k
                        ls.append('R %d 0 %s' % (tok, r))
                        if k == 'none':
                            ls += ['R %d %d none' % (tok, c) for c in range(1, cfg['mr'] + 1)]
                    g.case('rel.twosessions', cfg, ls, ns=2, nsess=2)
    # R3b: an ACK / RST carrying the right message id but coming from another peer (other session) concludes nothing
    for cfg in (CFGS[2], CFGS[7]):
        for kind in ('xack', 'xrst'):
            for d in (10, 1500):
                for tb in (0, 300):
                    ls = ['A 0 0 CON 17', 'A %d 1 CON 18' % tb, 'R 17 0 %s+%d' % (kind, d), 'R 18 0 ack+%d' % (d + 5),
                          'R 17 1 ack+10']
                    g.case('rel.otherpeer', cfg, ls, ns=1, nsess=2)
    # R4: duplicated / delayed acknowledgements and duplicated requests
    for cfg in (CFGS[0], CFGS[1]):
        a = cfg['ato']
        for react in ('ack+100+%d' % (a + 500), 'ack+%d+%d' % (a - 1, a + 1), 'rst+50+60', 'pig+10+%d' % (a // 2),
                      'ack+10 rst+20', 'none'):
            for tx in ('', 'D 0 5 900', 'Y 0 %d' % (a - 10), 'D 1 0 0'):
                ls = ['A 0 0 CON 17', 'R 17 0 ' + react] + ([tx] if tx else [])
                if react == 'none':
                    ls.append('R 17 1 ack+%d+%d' % (5, a))
                g.case('rel.dupdelay', cfg, ls)


def styles_for(ty):
    if ty == 'CON':
        return ['pig+%d', 'ack+0 sepcon+%d', 'ack+0 sepnon+%d', 'sepcon+%d', 'sepnon+%d', 'rst+%d', 'none']
    return ['sepnon+%d', 'sepcon+%d', 'none']


def suite_exch(g, tier, rnd):
    """C07: one exchange outstanding per session, network delay < ACK_TIMEOUT."""
    cfg = dict(ato=2000, rf=1500, mr=2, tol=16)
    dl = [50, 1900] if tier == 'quick' else [0, 50, 700, 1900]
    # E1: single request, every style, the first copy or its answer lost, answers duplicated
    for ty in ('CON', 'NON'):
        for st in styles_for(ty):
            for d in dl:
                for lossmode in ('', 'L0', 'R0none'):
                    for dup in (0, 300, 1800):
                        for fail in ('', ' F'):
                            if tier == 'quick' and fail and dup:
                                continue
                            if ty == 'NON' and lossmode:
                                continue
                            ls = ['A 0 0 %s 33%s' % (ty, fail)]
                            s = st % d if '%d' in st else st
                            if dup and s != 'none':
                                # last reaction is duplicated by the network
                                s = s + '+%d' % (d + dup)
                            idx = 0
                            if lossmode == 'L0':
                                ls.append('L 0')
                            elif lossmode == 'R0none':
                                ls.append('R 33 0 none')
                                idx = 1
                            ls.append('R 33 %d %s' % (idx, s))
                            if s == 'none':
                                ls += ['R 33 %d none' % c for c in range(idx + 1, 4)]
                            g.case('exch.single', cfg, ls)
    # E2: sequences of 2-3 requests, next one submitted after the previous concluded
    seqs = list(itertools.product(['pig+%d', 'ack+0 sepcon+%d', 'sepnon+%d', 'ack+0 sepnon+%d', 'sepcon+%d'], repeat=2))
    for (s1, s2) in seqs:
        for d1, d2, gap in ((100, 50, 100), (50, 50, 0), (1900, 100, 10)):
            for dup1 in (0, 500, 1500):
                for f1 in ('', ' F'):
                    if tier == 'quick' and f1 and dup1 == 1500:
                        continue
                    a = s1 % d1 + ('+%d' % (d1 + dup1) if dup1 else '')
                    b = s2 % d2
                    ls = ['A 0 0 CON 17%s' % f1, 'N %d 0 CON 18' % gap, 'N %d 0 CON 19' % gap,
                          'R 17 0 ' + a, 'R 18 0 ' + b, 'R 19 0 pig+20']
                    g.case('exch.sequence', cfg, ls)
    # E3: the acknowledgement of a separate Confirmable response is lost -> the peer retransmits it
    for d in (100, 900):
        for n in (2, 3):
            for f in ('', ' F'):
                rs = 'ack+0 sepcon+%d' % d + ''.join('+%d' % (d + 400 * k) for k in range(1, n))
                ls = ['A 0 0 CON 40%s' % f, 'R 40 0 ' + rs, 'N 50 0 CON 41', 'R 41 0 pig+10']
                # the client's ACK/RST is its 2nd datagram: lose it
                g.case('exch.acklost', cfg, ls + ['L 1'])
                g.case('exch.acklost', cfg, ls)
    # E5: the duplicate of an accepted Confirmable response arrives after a later response was rejected (FAIL)
    for st2 in ('sepnon+%d', 'ack+0 sepnon+%d', 'pig+%d'):
        for d2 in (20, 300):
            for ty2 in ('CON', 'NON'):
                if ty2 == 'NON' and 'ack' in st2 or ty2 == 'NON' and 'pig' in st2:
                    continue
                ls = ['A 0 0 CON 17', 'R 17 0 ack+0 sepcon+100+1500', 'N 100 0 %s 18 F' % ty2, 'R 18 0 ' + st2 % d2]
                g.case('exch.dupafterfail', cfg, ls)
                ls = ['A 0 0 CON 17 F', 'R 17 0 ack+0 sepcon+100+1500', 'N 100 0 %s 18' % ty2, 'R 18 0 ' + st2 % d2]
                g.case('exch.dupafterfail', cfg, ls)
    # E4: two sessions, independent exchanges interleaved
    for sa, sb in itertools.product(['pig+%d', 'ack+0 sepcon+%d', 'sepnon+%d'], repeat=2):
        for da, db in ((100, 100), (300, 100), (100, 1900)):
            ls = ['A 0 0 CON 17', 'A 10 1 CON 18', 'R 17 0 ' + sa % da + '+%d' % (da + 200), 'R 18 0 ' + sb % db,
                  'N 20 0 NON 21', 'N 20 1 CON 22', 'R 21 0 sepnon+30+40', 'R 22 0 pig+5']
            g.case('exch.twosessions', cfg, ls, nsess=2)


def suite_async(g, tier, rnd):
    """C07 with a real libcoap server as the peer: answers at once (r), deferred until the server application releases them (w),
    deferred by a timed async entry (v).  Single faults on every datagram of the exchange, in both directions; all delays < ACK_TIMEOUT."""
    cfg = dict(ato=2000, rf=1500, mr=3, tol=16)
    for path in 'rwv':
        for ty in ('CON', 'NON'):
            for trig in ((300, 5000) if path != 'r' else (0,)):
                base = ['A 0 0 %s 33 p=%s' % (ty, path), 'N 100 0 %s 34 p=r' % ty]
                faults = [[]]
                for j in range(0, 4):
                    faults += [['L %d' % j], ['D %d 5 900' % j], ['D %d 0 0' % j], ['Y %d 1500' % j],
                               ['LS %d' % j], ['DS %d 5 900' % j], ['DS %d 0 1900' % j], ['YS %d 1500' % j]]
                if tier != 'quick':
                    faults += [a + b for a in faults[1:] for b in faults[1:] if a[0].split()[0] != b[0].split()[0] or a[0].split()[1] != b[0].split()[1]]
                else:
                    faults += [['L 0', 'LS 0'], ['D 0 5 900', 'LS 0'], ['D 0 5 900', 'DS 1 5 900'], ['LS 0', 'LS 1'], ['L 0', 'D 1 3 700']]
                for f in faults:
                    g.case('exch.async', cfg, base + f, srv=1, trig=trig)
    # two deferred answers pending at once on two sessions, repeats of both requests in between
    for trig in (300, 5000):
        for f in ([], ['D 0 5 900'], ['D 1 5 900', 'LS 0'], ['LS 1', 'D 0 10 20']):
            g.case('exch.async', cfg, ['A 0 0 CON 33 p=w', 'A 10 1 CON 35 p=v', 'N 50 0 CON 34 p=r', 'N 50 1 NON 36 p=w'] + f,
                   nsess=2, srv=1, trig=trig)


def suite_nstart(g, tier, rnd):
    """C08: bursts, NSTART, held FIFO, acks/resets in every order, peer resetting every copy it received."""
    cfg = dict(ato=2000, rf=1000, mr=1, tol=16)
    pat = {1: ['C', 'N'], 2: ['CC', 'CN', 'NC'], 3: ['CCC', 'CNC', 'CCN', 'NCC'], 4: ['CCCC', 'CNCN', 'CCNC'],
           5: ['CCCCC', 'CCNCC'], 6: ['CCCCCC', 'CNCCNC']}
    reacts = ['ack+%d', 'rst+%d', 'none', 'pig+%d', 'ack+%d sepcon+300']
    for k in range(1, 7):
        for p in pat[k]:
            for ns in (1, 2, 3):
                ncon = p.count('C')
                combos = list(itertools.product(range(len(reacts)), repeat=min(ncon, 3)))
                if tier == 'quick' and len(combos) > 12:
                    combos = rnd.sample(combos, 12)
                for combo in combos:
                    for dmode in ('inc', 'dec', 'eq'):
                        ls = []
                        ci = 0
                        for i, ch in enumerate(p):
                            tok = 50 + i
                            ls.append('A 0 0 %s %d' % ('CON' if ch == 'C' else 'NON', tok))
                            if ch == 'C':
                                r = reacts[combo[ci % len(combo)]]
                                d = {'inc': 100 + 150 * ci, 'dec': 1500 - 200 * ci, 'eq': 400}[dmode]
                                ls.append('R %d 0 %s' % (tok, r % d if '%d' in r else r))
                                if r == 'none':
                                    ls.append('R %d 1 none' % tok)
                                ci += 1
                            else:
                                ls.append('R %d 0 sepnon+%d' % (tok, 70))
                        g.case('nstart.burst', cfg, ls, ns=ns)
    # submissions interleaved with retransmissions; peer resets both copies of a retransmitted message
    for ns in (1, 2):
        for late in (2050, 2600):
            ls = ['A 0 0 CON 60', 'A 0 0 CON 61', 'A 0 0 CON 62', 'A 0 0 CON 63',
                  'R 60 0 rst+%d' % late, 'R 60 1 rst+100', 'R 61 0 ack+1500', 'R 62 0 ack+1500', 'R 63 0 ack+10']
            g.case('nstart.rsteach', cfg, ls, ns=ns)
            ls = ['A 0 0 CON 60', 'A 0 0 CON 61', 'A 0 0 CON 62',
                  'R 60 0 ack+%d' % late, 'R 60 1 ack+100', 'R 61 0 ack+1500', 'R 62 0 ack+1500']
            g.case('nstart.ackeach', cfg, ls, ns=ns)
    # several sessions per context, later submissions while earlier ones retransmit
    for ns in (1, 2):
        for t2 in (0, 1000, 2000, 2500):
            ls = ['A 0 0 CON 70', 'A 0 1 CON 71', 'A %d 0 CON 72' % t2, 'A %d 1 CON 73' % t2, 'A %d 0 NON 74' % t2,
                  'R 70 0 none', 'R 70 1 ack+30', 'R 71 0 ack+2100', 'R 72 0 ack+20', 'R 73 0 rst+20']
            g.case('nstart.sessions', cfg, ls, ns=ns, nsess=2)


def suite_samemid(g, tier, rnd):
    """Message ids are per session: two (three) sessions of one context with Confirmables in flight under the SAME message id - the
    context keeps them in one send queue.  One of them is answered late (first copy unanswered), the others at once."""
    cfg = dict(ato=2000, rf=1000, mr=2, tol=16)
    for ns in (1, 2):
        for first in (0, 1):                       # which session's message is queued first (head of the send queue)
            for kind in ('ack', 'rst', 'pig'):
                for nsess in (2, 3):
                    a, b = (0, 1) if first == 0 else (1, 0)
                    ls = ['A 0 %d CON 70 m=4660' % a, 'A 5 %d CON 71 m=4660' % b, 'A 6 %d CON 72' % a, 'A 7 %d CON 73' % b,
                          'A 8 %d CON 76 m=4661' % a, 'A 9 %d CON 77 m=4661' % b,
                          'R 70 0 none', 'R 70 1 %s+30' % kind, 'R 71 0 %s+20' % kind, 'R 72 0 ack+10', 'R 73 0 ack+10',
                          'R 76 0 ack+700', 'R 77 0 none', 'R 77 1 none', 'R 77 2 none']
                    if nsess == 3:
                        ls += ['A 3 2 CON 74 m=4660', 'R 74 0 none', 'R 74 1 none', 'R 74 2 none', 'A 4 2 CON 75', 'R 75 0 pig+5']
                    g.case('nstart.samemid', cfg, ls, ns=ns, nsess=nsess)


def suite_keepalive(g, tier, rnd):
    """Keepalive pings (Empty Confirmable messages of the library's own) take part in NSTART: submissions before, while and after a ping is
    in flight; the peer's Reset (the pong) ends the ping and frees its slot."""
    cfg = dict(ato=2000, rf=1000, mr=2, tol=16)
    for ns in (1, 2):
        for ka in (1, 3):
            K = ka * 1000
            for t2 in (K - 5, K, K + 1, K + 2, K + 50, 2 * K + 100, 3 * K + 7):
                ls = ['A 0 0 CON 80', 'R 80 0 ack+10', 'A %d 0 CON 81' % t2, 'A %d 0 CON 82' % (t2 + 1), 'A %d 0 NON 83' % (t2 + 2),
                      'R 81 0 pig+20', 'R 82 0 ack+30', 'R 83 0 sepnon+5']
                g.case('nstart.keepalive', cfg, ls, ns=ns, ka=ka, until_ms=5 * K + 20000)
            ls = ['A 0 0 CON 80', 'A 0 1 CON 84', 'R 80 0 ack+10', 'R 84 0 none', 'R 84 1 ack+10', 'A %d 0 CON 81' % (2 * K + 30), 'A %d 1 CON 85' % (2 * K + 31),
                  'R 81 0 pig+20', 'R 85 0 rst+20']
            g.case('nstart.keepalive', cfg, ls, ns=ns, nsess=2, ka=ka, until_ms=5 * K + 20000)


def suite_sendfail(g, tier, rnd):
    """A transient send error (ENOBUFS) on one datagram: in a send call the call fails; for a held message that is being released, or a retransmission,
    the message stays queued, keeps its NSTART slot and goes out again on schedule."""
    cfg = dict(ato=2000, rf=1000, mr=2, tol=16)
    for ns in (1, 2):
        for j in range(0, 5):
            for t3 in (400, 2500):
                ls = ['A 0 0 CON 60', 'A 1 0 CON 61', 'A 2 0 CON 62', 'A %d 0 CON 63' % t3, 'A %d 0 NON 64' % (t3 + 1),
                      'R 60 0 ack+300', 'R 61 0 ack+50', 'R 62 0 pig+50', 'R 63 0 ack+50', 'R 64 0 sepnon+5', 'F %d' % j]
                g.case('nstart.sendfail', cfg, ls, ns=ns)
        g.case('nstart.sendfail', cfg, ['A 0 0 CON 60', 'R 60 0 none', 'R 60 1 ack+10', 'F 1', 'A 100 0 CON 61', 'R 61 0 ack+10'], ns=ns)


def suite_random(g, tier, rnd, n):
    for _ in range(n):
        cfg = rnd.choice(CFGS[:5] + CFGS[6:8])
        one = rnd.random() < 0.5          # respect the C07 assumptions in half of the cases
        nsess = rnd.choice((1, 1, 2))
        ns = 1 if one else rnd.choice((1, 2, 3))
        nreq = rnd.randint(1, 4 if one else 7)
        a = cfg['ato']
        ls = []
        for i in range(nreq):
            tok = 100 + i
            ty = 'CON' if rnd.random() < 0.8 else 'NON'
            s = rnd.randrange(nsess)
            f = ' F' if rnd.random() < 0.15 else ''
            if one:
                ls.append(('A 0' if not any(x.split()[2] == str(s) for x in ls if x[0] in 'AN') else 'N %d' % rnd.choice((0, 10, 500)))
                          + ' %d %s %d%s' % (s, ty, tok, f))
            else:
                ls.append('A %d %d %s %d%s' % (rnd.choice((0, 0, 100, a, a + 7, 3 * a)), s, ty, tok, f))
            copies = rnd.randint(0, min(cfg['mr'], 3))
            for c in range(copies):
                ls.append('R %d %d none' % (tok, c))
            st = rnd.choice(styles_for(ty))
            d = rnd.choice((0, 1, 50, a // 2, a - 1))
            r = st % d if '%d' in st else st
            if r != 'none' and rnd.random() < 0.3:
                r += '+%d' % (d + rnd.choice((1, 200, a - 1 - d if a - 1 - d > 0 else 1)))
            ls.append('R %d %d %s' % (tok, copies, r))
            if r == 'none':
                ls += ['R %d %d none' % (tok, c) for c in range(copies + 1, cfg['mr'] + 1)]
        for _j in range(rnd.randint(0, 2)):
            j = rnd.randrange(0, 6)
            ls.append(rnd.choice(('L %d' % j, 'D %d %d %d' % (j, rnd.choice((0, 5)), rnd.choice((9, a - 1))),
                                  'Y %d %d' % (j, rnd.choice((3, a - 1))))))
        g.case('random.c07' if one else 'random.free', cfg, ls, ns=ns, nsess=nsess)


WRAPS = V.SIM_WRAPS
PROP_OF_TAG = {'C06': 'C06', 'C07': 'C07', 'C08': 'C08'}
MUST_FIRE = ['ASend', 'ARelease', 'ARetransmit', 'AGiveUp', 'ANackCb', 'ADeliverCb', 'ASendAck', 'ASendRst',
             'AClientRx', 'ALose', 'APeerRx', 'ATick']


def run(pid, tier):
    t0 = time.time()
    rnd = random.Random(V.seed() * 7919 + {'C06': 1, 'C07': 2, 'C08': 3}[pid])
    out = V.outdir(pid, tier)
    drv = V.link('drv_rel', ['drv_rel.c', 'simnet.c'], WRAPS)
    # 1. the property on the closed model
    mcst = V.mc('MC_Reliability', 'MC_Reliability.cfg' if tier == 'quick' else 'MC_Reliability_thorough.cfg',
                must_fire=MUST_FIRE, workers=V.NCPU, timeout=3000, xmx='24g')
    if mcst['violated']:
        raise V.Infra('the closed model violates its own invariants (specification error):\n' + mcst['out'][-3000:])
    # keepalive pings competing with an application message for the NSTART slot
    pg = V.mc('MC_Reliability', 'MC_Reliability_ping.cfg', must_fire=['APing', 'ASend', 'ARetransmit', 'AGiveUp'], workers=8, timeout=900, xmx='12g')
    if pg['violated']:
        raise V.Infra('the closed model with keepalive pings violates its own invariants (specification error):\n' + pg['out'][-3000:])
    # the receiver's memory as libcoap has it (one message id per session and type): the model finds the double conclusion of KF_C07_OLD_DUPLICATE
    neg = V.tlc('MC_Reliability', 'MC_Reliability_onedeep.cfg', workers=8, deque=False, timeout=900, xmx='12g')
    if 'Invariant ConcludeOnceI is violated' not in neg['out']:
        raise V.Infra('MC_Reliability sanity: the one-deep duplicate memory is NOT rejected by the model')
    # 2. executions of the real code
    g = Gen()
    suite_rel(g, tier, rnd)
    suite_exch(g, tier, rnd)
    suite_async(g, tier, rnd)
    suite_nstart(g, tier, rnd)
    suite_samemid(g, tier, rnd)
    suite_keepalive(g, tier, rnd)
    suite_sendfail(g, tier, rnd)
    suite_random(g, tier, rnd, 1500 if tier == 'quick' else 60000)
    nchunk = V.NCPU
    chunks = [[] for _ in range(nchunk)]
    for i, c in enumerate(g.cases):
        chunks[i % nchunk].append(c)
    traces, bycase = [], {}
    for ci, ch in enumerate(chunks):
        if not ch:
            continue
        cf_ = os.path.join(out, 'cases-%02d.txt' % ci)
        with open(cf_, 'w') as f:
            for (cid, suite, ls) in ch:
                bycase[cid] = (suite, ls)
                f.write('\n'.join(ls) + '\n')
        traces.append((cf_, os.path.join(out, 'trace-%02d.ndjson' % ci)))
    import concurrent.futures as cfu
    crashed = []

    def rundrv(p):
        rc, o = V.run_driver(drv, [p[0], p[1]], timeout=900)
        return p, rc, o
    with cfu.ThreadPoolExecutor(max_workers=V.NCPU) as ex:
        for p, rc, o in ex.map(rundrv, traces):
            if rc != 0 or V.sanitizer_reports(o):
                crashed.append((p, rc, o))
    env = {f['id']: '1' for f in V.enabled_findings()}
    results = V.validate_traces('Trace_Msg', [t[1] for t in traces], env=env)
    # 3. verdict
    viol, notes, known, nexec, ndisc, states = [], [], set(), 0, 0, 0
    for r in results:
        nexec += r['executions']
        ndisc += r['discarded']
        states += r['states']
        known |= set(r['known'])
        for rj in r['rejected']:
            tag = rj['why'].split(':')[0]
            suite, ls = bycase.get(rj['id'], ('?', []))
            rec = dict(case=rj['id'], suite=suite, why=rj['why'], line=rj['line'], trace=r['trace'], lines=ls)
            if tag == pid:
                viol.append(rec)
            else:
                notes.append(rec)
    vio_out = []
    for rec in viol:
        p = V.save_replay(pid, 'case-%d.txt' % rec['case'], '\n'.join(rec['lines']) + '\n# ' + rec['why'] + '\n')
        vio_out.append(('%s (suite %s, case %d, %s line %d)' % (rec['why'], rec['suite'], rec['case'],
                                                              os.path.basename(rec['trace']), rec['line']), p))
    for (p, rc, o) in crashed:
        # a crash/sanitizer report of the traced run is an implementation step with no counterpart in the model
        path = V.save_replay(pid, 'crash-%s.log' % os.path.basename(p[0]), o[-20000:])
        vio_out.append(('driver aborted or sanitizer report (rc=%d) on %s' % (rc, p[0]), path))
    kf = [f for f in V.enabled_findings(pid) if f['id'] in known]
    samples = [dict(suite=s, case=ls) for (_, s, ls) in g.cases[:1] + g.cases[len(g.cases) // 2:len(g.cases) // 2 + 1]]
    bysuite = {}
    for (_, s, _l) in g.cases:
        bysuite[s] = bysuite.get(s, 0) + 1
    V.write_evidence(pid, tier, 'model_checking', dict(
        states=mcst['distinct'], transitions=mcst['generated'],
        traces_validated_against_impl=nexec - ndisc,
        samples=samples, model_action_coverage=mcst['action_cov'],
        trace_states=states, executions=nexec, discarded_outside_assumptions=ndisc,
        executions_per_suite=bysuite, rejected_for_this_property=len(viol),
        rejected_tagged_for_other_properties=[dict(case=n['case'], why=n['why']) for n in notes[:50]],
        known_findings_fired=sorted(known), exhaustive=False,
        rule='closed model MC_Reliability checked exhaustively within its constants; every generated schedule '
             '(enumerated suites + VERIF_SEED random) is executed by the real libcoap client on the simulator and '
             'the recorded trace validated by TLC against Trace_Msg (Reliability+Exchange)'),
        time.time() - t0, violations=len(vio_out),
        assumptions=['scripted peer is a de-duplicating server that answers only what it received',
                     'virtual clock: 1 tick = 1 ms; Q6 rounding tolerance tol on T',
                     'TLC, the trace writer and the simulator are trusted'])
    V.finish(pid, vio_out, ['%s: %s' % (f['id'], f['signature']) for f in kf])
