"""C19 -- (D)TLS sessions exchange application data only after an authenticated handshake.

Model:    spec/Gate.tla (when do credentials let a PSK handshake complete) + spec/MC_Gate.tla (closed model of the send gate:
          delay queue, flush on connect, NACK on failure)
Binding:  harness/drv_dtls.c: a real libcoap DTLS/PSK client and server (GnuTLS) on the simulated datagram network; requests are
          submitted during the handshake; handler invocations on both sides, NACKs and the first bytes of every datagram are
          logged; spec/Trace_Gate.tla judges every execution against the credential configuration.
"""
import random, time, os, itertools
import verif as V


def gen(tier, rnd):
    cases = []
    cid = [0]

    def case(cidn, ckey, table, hint='srv', acc=1, nq=2, inj=0, rel=0, idcb=1, drop=(), sni='', warm='', snik=(), dup=(), mute=0, sclose=0, obs=0, tk2=0, nonq=0, shold=0):
        cid[0] += 1
        cases.append((cid[0], ['X id=%d cid=%s ckey=%s sk=%s hint=%s acc=%d nq=%d inj=%d rel=%d idcb=%d drop=%s sni=%s warm=%s snik=%s dup=%s mute=%d sclose=%d obs=%d tk2=%d nonq=%d shold=%d'
                               % (cid[0], cidn, ckey, ','.join('%s:%s' % kv for kv in table), hint, acc, nq, inj, rel, idcb, ','.join(map(str, drop)),
                                  sni, warm, ','.join('%s:%s' % kv for kv in snik), ','.join(map(str, dup)), mute, sclose, obs, tk2, nonq, shold), 'E']))
    K = 'secretkey0123456'
    keys = [K, K[:-1], K + 'x', K[:8], 'S' + K[1:], K.upper(), 'a', K * 2]
    # equal / different length / prefix / extension / one character off
    for ck in keys:
        for nq in (0, 1, 3):
            case('alice', ck, [('alice', K)], nq=nq)
            case('alice', ck, [('alice', K)], nq=nq, idcb=0)
    # identities the server knows / does not know, several entries, same key under another identity
    for ident in ('alice', 'bob', 'alic', 'alicee', 'ALICE', 'mallory'):
        case(ident, K, [('alice', K), ('bob', 'otherkey12345678')], nq=2)
        case(ident, 'otherkey12345678', [('alice', K), ('bob', 'otherkey12345678')], nq=2)
        case(ident, K, [('alice', K)], nq=2, idcb=0)            # one key for everybody: identity does not matter
    # hint rejected by the client
    for nq in (1, 3):
        case('alice', K, [('alice', K)], acc=0, nq=nq)
        case('alice', K, [('alice', K)], acc=0, nq=nq, rel=5000)
        case('alice', K, [('alice', K)], hint='', acc=1, nq=nq)
    # the server sends no hint and the client's callback refuses: the (empty) hint has to be put to the callback all the same
    for nq in (0, 2):
        case('alice', K, [('alice', K)], hint='', acc=0, nq=nq)
        case('alice', K, [('alice', K)], hint='', acc=0, nq=nq, idcb=0)
    # per-server-name keys: the name selects the key - on the first session that names it and on later ones (warm: the server has seen the name before)
    K2, K3 = 'hostkey-22222222', 'otherhost-333333'
    snik = [('host.example', K2), ('other.example', K3)]
    for warm in ('', 'host.example', 'other.example'):
        for (sn, ck) in (('host.example', K2), ('host.example', K), ('host.example', K3), ('other.example', K3), ('other.example', K2), ('nohost.example', K),
                         ('nohost.example', K2)):
            case('alice', ck, [('alice', K)], nq=2, idcb=0, sni=sn, warm=warm, snik=snik)
    case('alice', K, [('alice', K)], nq=1, idcb=0, sni='', snik=snik)                       # no name asked for: not in the table
    case('alice', K, [('alice', K)], nq=1, idcb=0, sni='', snik=snik + [('', K)])
    # session released by the application at various times while the handshake cannot complete / has completed
    for rel in (1, 100, 5000, 100000, 400000):
        case('alice', 'wrongkey', [('alice', K)], nq=2, rel=rel)
        case('mallory', K, [('alice', K)], nq=2, rel=rel)
        case('alice', K, [('alice', K)], nq=2, rel=rel)
    # queued requests for which the library keeps state of its own (Observe registrations): still one NACK each when the handshake fails,
    # the session is released before it completes, the peer stays silent or the established session is lost; delivered once when it succeeds
    for obs in (1, 2, 9):
        for nq in (1, 2, 3):
            if obs != 9 and obs > nq:
                continue
            case('alice', 'wrongkey', [('alice', K)], nq=nq, obs=obs, tk2=1)
            case('mallory', K, [('alice', K)], nq=nq, obs=obs, tk2=1)
            case('alice', K, [('alice', K)], acc=0, nq=nq, obs=obs, tk2=1)
            case('alice', K, [('alice', K)], nq=nq, obs=obs, tk2=1)
            case('alice', 'wrongkey', [('alice', K)], nq=nq, obs=obs, rel=100, tk2=1)
            case('alice', K, [('alice', K)], nq=nq, obs=obs, drop=tuple(range(0, 40)), tk2=1)
            case('alice', K, [('alice', K)], nq=nq, obs=obs, mute=1, sclose=500, tk2=1)
    # the same with one-byte tokens 1..nq and the second request the first with state: KF_C19_APP_TOKEN_EQUALS_STATE_TOKEN (directed)
    case('mallory', K, [('alice', K)], nq=3, obs=2)
    case('alice', K, [('alice', K)], nq=2, obs=2)
    # Non-confirmable requests among the queued ones: everything submitted before the session is up goes out in submission order, whatever its type
    for nonq in (1, 2, 3, 9):
        for nq in (2, 3, 4):
            if nonq != 9 and nonq > nq:
                continue
            case('alice', K, [('alice', K)], nq=nq, nonq=nonq)
            case('alice', K, [('alice', K)], nq=nq, nonq=nonq, idcb=0)
            case('alice', 'wrongkey', [('alice', K)], nq=nq, nonq=nonq)
    # cleartext CoAP thrown at the DTLS endpoint: from a stranger and from the client's own address, credentials right and wrong
    for inj in (1, 2):
        case('alice', K, [('alice', K)], nq=2, inj=inj)
        case('alice', 'wrongkey', [('alice', K)], nq=2, inj=inj)
        case('alice', K, [('alice', K)], nq=0, inj=inj)
    # ... and from the client's address after the client has closed its session, which the server application still references (or not)
    for shold in (1, 0):
        for rel in (2000, 100000):
            for nq in (1, 2):
                case('alice', K, [('alice', K)], nq=nq, inj=3, rel=rel, shold=shold)
                case('alice', K, [('alice', K)], nq=nq, inj=3, rel=rel, shold=shold, idcb=0)
    # duplication during and after the handshake: nothing is lost, so everything queued is still delivered exactly once, in order; a duplicate record is
    # discarded by the DTLS layer and must not cost the session
    for i in range(16):
        case('alice', K, [('alice', K)], nq=3, dup=(i,))
        if i % 3 == 0:
            case('alice', K, [('alice', K)], nq=3, dup=(i, i + 1, i + 2))
            case('alice', 'wrongkey', [('alice', K)], nq=2, dup=(i,))
    case('alice', K, [('alice', K)], nq=3, dup=tuple(range(16)))
    case('alice', K, [('alice', K)], nq=2, inj=2, dup=(6, 7, 8))
    # the established session is lost (the server goes away, its close_notify arrives) while a request is in flight and others wait: one NACK each
    for nq in (1, 2, 4):
        for sc in (1, 500, 5000):
            case('alice', K, [('alice', K)], nq=nq, mute=1, sclose=sc)
            case('alice', K, [('alice', K)], nq=nq, mute=0, sclose=sc)
    # loss during and after the handshake (GnuTLS retransmits on the real clock; only safety is asserted for these runs)
    nd = 40 if tier == 'thorough' else 14
    for i in range(nd):
        case('alice', K, [('alice', K)], nq=2, drop=(i,))
        if i % 2 == 0:
            case('alice', 'wrongkey', [('alice', K)], nq=2, drop=(i,))
    for _ in range(3000 if tier == 'thorough' else 20):
        case(rnd.choice(('alice', 'bob', 'eve')), rnd.choice(keys), [('alice', K), ('bob', rnd.choice(keys))], acc=rnd.choice((1, 1, 0)), nq=rnd.randint(0, 4),
             inj=rnd.choice((0, 0, 1, 2)), rel=rnd.choice((0, 0, 50, 7000)), idcb=rnd.choice((1, 1, 0)), drop=sorted(rnd.sample(range(12), rnd.choice((0, 0, 1, 2)))))
    return cases


def run(pid, tier):
    t0 = time.time()
    rnd = random.Random(V.seed() * 15485863 + 19)
    out = V.outdir(pid, tier)
    drv = V.link('drv_dtls', ['drv_dtls.c', 'simnet.c'], V.SIM_WRAPS)
    sts = []
    for c in ('MC_Gate_TRUE.cfg', 'MC_Gate_FALSE.cfg'):
        st = V.mc('MC_Gate', c, must_fire=['Submit', 'Failed'], workers=2, timeout=300)
        if st['violated']:
            raise V.Infra('MC_Gate violated (specification error):\n' + st['out'][-2000:])
        sts.append(st)
    cases = gen(tier, rnd)
    os.environ['ASAN_OPTIONS'] = 'detect_leaks=0:abort_on_error=0:exitcode=99:allocator_may_return_null=1'     # GnuTLS global state
    env = {f['id']: '1' for f in V.enabled_findings()}
    vio_out, nexec, known, results = V.drive_and_validate(pid, drv, cases, out, 'Trace_Gate', xmx='3g', env=env)
    nm = sum(r.get('matching', 0) for r in results)
    nx = sum(r.get('mismatching', 0) for r in results)
    if (nm == 0 or nx == 0) and not vio_out:
        raise V.Infra('vacuous: %d matching and %d mismatching configurations executed' % (nm, nx))
    V.write_evidence(pid, tier, 'model_checking', dict(
        states=sum(s['distinct'] for s in sts), transitions=sum(s['generated'] for s in sts), traces_validated_against_impl=nexec,
        matching_configurations=nm, mismatching_configurations=nx, samples=[cases[0][1], cases[-1][1]], exhaustive=False,
        rule='client key equal / shorter / longer / prefix / one character off / other case / doubled; identity known, unknown, prefix, extension, other case, key of '
             'another identity; server with identity check and with one key for everybody; hint rejected or empty; session released after 1 ms .. 400 s; cleartext CoAP '
             'injected at the DTLS endpoint from a stranger and from the client address; loss of each of the first datagrams; 0-4 requests queued during the handshake'),
        time.time() - t0, violations=len(vio_out),
        assumptions=['DTLS over UDP with PSK only (GnuTLS): TLS over TCP, certificates and SNI are not exercised',
                     'GnuTLS retransmits lost handshake flights on the real clock, so under loss only safety (no delivery without authentication, no cleartext, '
                     'at most one NACK or response per request) is asserted'])
    kf = [f for f in V.enabled_findings(pid) if f['id'] in known]
    V.finish(pid, vio_out, ['%s: %s' % (f['id'], f['signature']) for f in kf])
