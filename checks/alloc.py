"""C18 -- any single allocation failure is survived: clean error, no leak, endpoint still works.

Model:    spec/AllocFault.tla (ledger of live objects, ownership rule of coap_send, end-of-run obligations)
Binding:  harness/drv_alloc.c runs each scenario of a fixed catalogue with the k-th allocation failing, for EVERY k the
          scenario performs (link-time interposition of coap_malloc_type / coap_realloc_type / coap_free_type); every
          allocation and release is logged, spec/Trace_Alloc.tla validates the ledger of every run, the result of the
          canary exchange and the balance after teardown; a crash or sanitizer report of a run is a violation of that run.
"""
import json, os, random, time
import verif as V

WRAPS = V.SIM_WRAPS + ['coap_malloc_type', 'coap_realloc_type', 'coap_free_type']
SCENARIOS = ['setup', 'get', 'block1', 'block2', 'observe', 'uri', 'async', 'oscore', 'oscore2', 'rawblock1', 'wkc']


def run(pid, tier):
    t0 = time.time()
    rnd = random.Random(V.seed() * 104729 + 18)
    out = V.outdir(pid, tier)
    # leaks are decided per run by the ledger; LeakSanitizer at process exit would blame the last run of the process
    os.environ['ASAN_OPTIONS'] = 'detect_leaks=0:abort_on_error=0:exitcode=99:allocator_may_return_null=1'
    import shutil
    shutil.rmtree(os.path.join(V.ROOT, 'out', pid, 'replay'), ignore_errors=True)
    drv = V.link('drv_alloc', ['drv_alloc.c', 'simnet.c'], WRAPS)
    # 1. how many allocations does each scenario perform?
    cdir = os.path.join(out, 'count')
    os.makedirs(cdir, exist_ok=True)
    tfs, _, crashes0 = V.run_line_cases(drv, ['%s 0' % sc for sc in SCENARIOS], cdir, nchunk=len(SCENARIOS))
    if crashes0:
        raise V.Infra('a scenario of the catalogue does not run without fault injection:\n' + crashes0[0][2][-3000:])
    counts = {}
    for tf in tfs:
        sc = None
        for line in open(tf):
            e = json.loads(line)
            if e['e'] == 'Reset':
                sc = e['sc']
            if e['e'] == 'Done':
                counts[sc] = e['allocs']
    if set(counts) != set(SCENARIOS) or min(counts.values()) < 1:
        raise V.Infra('allocation counts incomplete: %r' % counts)
    # 2. every index; thorough: sampled pairs as well
    lines = ['%s 0' % sc for sc in SCENARIOS]
    for sc in SCENARIOS:
        lines += ['%s %d' % (sc, k) for k in range(1, counts[sc] + 2)]
    if tier == 'thorough':
        for sc in SCENARIOS:
            n = counts[sc]
            for _ in range(min(3000, n * n // 2)):
                a = rnd.randint(1, n)
                b = rnd.randint(a + 1, n + 1)
                lines.append('%s %d %d' % (sc, a, b))
    rnd.shuffle(lines)
    tfs, line_of, crashes = V.run_line_cases(drv, lines, out, timeout=2400)
    results = V.validate_traces('Trace_Alloc', tfs, xmx='6g')
    vio_out, nexec, ninj = [], 0, 0
    seen = set()
    for r in results:
        nexec += r['executions']
        ninj += r.get('injections', 0)
        for rj in r['rejected']:
            orig = line_of.get((r['trace'], rj['id']))
            case = lines[orig] if orig is not None else '?'
            key = (rj['why'], case)
            if key in seen:
                continue
            seen.add(key)
            p = V.save_replay(pid, 'case-%s.txt' % case.replace(' ', '-'), case + '\n# ' + rj['why'] + '\n')
            vio_out.append(('%s (scenario and failing allocation index: %s; %s line %d)' % (rj['why'], case, os.path.basename(r['trace']), rj['line']), p))
    if not crashes and (nexec != len(lines) or ninj < len(lines) - 3 * len(SCENARIOS)):
        raise V.Infra('vacuous: %d runs judged for %d cases, %d injections' % (nexec, len(lines), ninj))
    for (orig, rc, o) in crashes:
        case = lines[orig] if orig >= 0 else '?'
        p = V.save_replay(pid, 'crash-%s.log' % case.replace(' ', '-'), case + '\n' + o)
        # the Crash event in the trace already produced a rejection for this run; keep the log next to it
    V.write_evidence(pid, tier, 'model_checking', dict(
        states=sum(r.get('states', 0) for r in results), transitions=sum(r.get('generated', 0) for r in results),
        traces_validated_against_impl=nexec, injections=ninj, allocations_per_scenario=counts, samples=lines[:3], exhaustive=(tier == 'quick' or True),
        ledger_events=sum(r.get('ledger_events', 0) for r in results),
        rule='(states / transitions: TLC states of the ledger validation runs) for each scenario of the catalogue (%s) and every index k of an allocation it performs: fail exactly the k-th allocation'
             % ', '.join(SCENARIOS) + ('; plus sampled pairs' if tier == 'thorough' else '')),
        time.time() - t0, violations=len(vio_out),
        assumptions=['only allocations made through coap_malloc_type / coap_realloc_type are failed (GnuTLS and libc allocate on their own)',
                     'the application checks every result and releases what it still owns'])
    V.finish(pid, vio_out, [])
