"""C11 -- Observe: registered observers get fresh, ordered notifications until cancelled.

Model:    spec/Observe.tla (+ closed model MC_Observe: register / change / notify / cancel interleavings, 24-bit wrap)
Binding:  harness/drv_obs.c: real server with observable resources on the simulator, scripted observers that register,
          cancel, acknowledge / drop / reset notifications; spec/Trace_Observe.tla judges every datagram sent to observers.
"""
import random, time, os
import verif as V


def gen(tier, rnd):
    cases = []
    cid = [0]

    def case(ops, mode=0, start=0, nres=1, big=0):
        cid[0] += 1
        cases.append((cid[0], ['X id=%d mode=%d start=%d nres=%d big=%d' % (cid[0], mode, start, nres, big)] + ops + ['E']))
    for mode in (0, 1, 2):
        for start in (0, 16777210):
            # steady stream of changes: ordering, 1-in-6 CON, wrap
            case(['G 0 0 a1'] + ['H 0', 'I 50'] * 14, mode, start)
            # bursts between I/O steps coalesce but the last state arrives
            case(['G 0 0 a1', 'H 0 5', 'I 100', 'H 0 3', 'H 0 2', 'I 100', 'H 0'], mode, start)
            # cancel by Observe=1, then changes
            case(['G 0 0 a1', 'H 0', 'I 50', 'U 0 0 a1', 'H 0', 'I 50', 'H 0 3', 'I 5000'], mode, start)
            # re-registration: same token / new token / after cancel
            case(['G 0 0 a1', 'G 0 0 a1', 'H 0', 'I 50', 'G 0 0 a1', 'H 0', 'I 50', 'H 0', 'I 50'], mode, start)
            case(['G 0 0 a1', 'H 0', 'I 50', 'G 0 0 b2', 'H 0', 'I 50', 'H 0', 'I 50', 'U 0 0 b2', 'H 0', 'I 50'], mode, start)
            case(['G 0 0 a1', 'U 0 0 a1', 'G 0 0 a1', 'H 0', 'I 50', 'U 0 0 a1', 'G 0 0 c3', 'H 0', 'I 50'], mode, start)
            # several clients, resources, queries
            case(['G 0 0 a1', 'G 1 0 a1', 'G 2 1 d4', 'G 3 0 e5 k=1', 'G 0 0 f6 k=1', 'H 0', 'I 50', 'H 1', 'I 50', 'U 1 0 a1', 'H 0 2', 'I 50',
                  'H 2', 'H 1', 'I 50'], mode, start, nres=3)
            # Reset in reply to a notification
            case(['G 0 0 a1', 'G 1 0 b1', 'P 0 rstall', 'H 0', 'I 50', 'H 0', 'I 50', 'H 0', 'I 50'], mode, start)
            case(['G 0 0 a1', 'P 0 rst'] + ['H 0', 'I 50'] * 8 + ['P 0 ack', 'H 0', 'I 50'], mode, start)
            # a Confirmable notification that is never acknowledged: observation fails, nothing afterwards
            case(['G 0 0 a1', 'G 1 0 b1', 'P 0 drop'] + ['H 0', 'I 50'] * 7 + ['I 200000', 'H 0', 'I 50', 'H 0', 'I 200000', 'H 0', 'I 50'], mode, start)
            # acknowledgement only for a retransmission
            case(['G 0 0 a1', 'P 0 drop'] + ['H 0', 'I 50'] * 6 + ['I 2500', 'P 0 ack', 'I 20000', 'H 0', 'I 50'], mode, start)
            # error response from the handler ends the observation
            case(['G 0 0 a1', 'G 1 0 b1', 'H 0', 'I 50', 'M 0 132', 'H 0', 'I 50', 'M 0 69', 'H 0', 'I 50', 'H 0', 'I 50'], mode, start)
            # resource deletion
            case(['G 0 0 a1', 'G 1 1 b1', 'H 0', 'I 50', 'D 0', 'I 50', 'H 1', 'I 50'], mode, start, nres=2)
            # the session stays alive while it has observers (server session timeout is 300 s)
            case(['G 0 0 a1', 'H 0', 'I 50', 'I 400000', 'H 0', 'I 50', 'I 700000', 'H 0', 'I 50'], mode, start)
    # notifications larger than one block (representation of 40 / 100 / 1000 bytes in blocks of 32): the observer fetches the rest, or does not
    for mode in (0, 1, 2):
        for bigl in (40, 100, 1000):
            for pol in ('fetch', 'ack'):
                case(['P 0 %s' % pol, 'G 0 0 a1'] + ['H 0', 'I 50'] * 9 + ['I 5000', 'H 0 3', 'I 100', 'H 0', 'I 5000'], mode, 0, big=bigl)
            case(['P 0 fetch', 'P 1 ack', 'G 0 0 a1', 'G 1 0 b1', 'H 0', 'I 10', 'H 0', 'I 10', 'H 0', 'I 3000', 'U 0 0 a1', 'H 0', 'I 50', 'H 0 2', 'I 5000'], mode, 0, big=bigl)
            case(['P 0 fetch', 'G 0 0 a1', 'H 0', 'I 50', 'P 0 drop'] + ['H 0', 'I 50'] * 7 + ['I 200000', 'H 0', 'I 5000'], mode, 0, big=bigl)
            case(['P 0 fetch', 'G 0 0 a1', 'H 0', 'I 50', 'P 0 rstall', 'H 0', 'I 50', 'H 0', 'I 5000'], mode, 0, big=bigl)
    # a Reset that answers an OLDER notification (known finding KF_C11_RST_OLD_NOTIFICATION)
    case(['G 0 0 a1', 'H 0', 'I 50', 'P 0 rstold', 'H 0', 'I 50', 'I 1000', 'H 0', 'I 50', 'H 0', 'I 50'], 0, 0)
    # a change still pending (its pass deferred behind an unacknowledged Confirmable notification) when another observation is registered
    # on the same session: the deferred pass repeats the registration response (known finding KF_C11_PENDING_CHANGE_REPEATS_REGISTRATION_VALUE)
    case(['P 1 drop', 'U 1 0 02', 'H 1 1', 'I 100000', 'H 1 1', 'H 0 1', 'U 3 0 02', 'H 0 2', 'I 10', 'H 0 1', 'I 50', 'P 1 drop', 'G 1 1 21',
          'G 1 1 32 k=1', 'H 0 1', 'H 1 1', 'H 1 1', 'H 0 5', 'H 1 1', 'G 1 1 21', 'U 1 0 12 k=1'], 1, 0, nres=2)
    # random
    for _ in range(300 if tier == 'quick' else 20000):
        nres = rnd.randint(1, 3)
        toks = ['a1', 'b2', 'c3', 'd4']
        ops = []
        for _k in range(rnd.randint(3, 25)):
            r = rnd.random()
            c, rs = rnd.randrange(4), rnd.randrange(nres)
            qi = rnd.choice((0, 0, 1))
            # a client never uses one token for two different observations at a time
            tk = '%02x' % (16 * (2 * rs + qi) + rnd.choice((1, 2)))
            if r < 0.25:
                ops.append('G %d %d %s%s' % (c, rs, tk, ' k=1' if qi else ''))
            elif r < 0.33:
                ops.append('U %d %d %s%s' % (c, rs, tk, ' k=1' if qi else ''))
            elif r < 0.7:
                ops.append('H %d %d' % (rs, rnd.choice((1, 1, 1, 2, 5))))
            elif r < 0.85:
                ops.append('I %d' % rnd.choice((10, 50, 50, 3000, 100000, 400000)))
            elif r < 0.93:
                ops.append('P %d %s' % (c, rnd.choice(('ack', 'ack', 'fetch', 'drop', 'rst', 'rstall'))))
            elif r < 0.97:
                ops.append('M %d %d' % (rs, rnd.choice((69, 132, 160))))
            else:
                ops.append('D %d' % rs)
        case(ops, rnd.choice((0, 0, 1, 2)), rnd.choice((0, 0, 16777200)), nres, big=rnd.choice((0, 0, 0, 70, 300)))
    return cases


def run(pid, tier):
    t0 = time.time()
    rnd = random.Random(V.seed() * 65537 + 11)
    out = V.outdir(pid, tier)
    drv = V.link('drv_obs', ['drv_obs.c', 'simnet.c'], V.SIM_WRAPS)
    mcst = V.mc('MC_Observe', 'MC_Observe.cfg' if tier == 'quick' else 'MC_Observe_thorough.cfg',
                must_fire=['ARegister', 'ACancel', 'AChange', 'ANotify', 'AReset'], timeout=3000, xmx='16g')
    if mcst['violated']:
        raise V.Infra('MC_Observe violated (specification error):\n' + mcst['out'][-2500:])
    # the dirty flag as libcoap keeps it (one per resource): the model finds the repeated registration value (KF_C11_PENDING_CHANGE_REPEATS_REGISTRATION_VALUE)
    neg = V.tlc('MC_Observe', 'MC_Observe_asbuilt.cfg', workers=2, deque=False, timeout=600)
    if 'Invariant MonotoneStrict is violated' not in neg['out']:
        raise V.Infra('MC_Observe sanity: the resource-wide dirty flag is NOT rejected by the model')
    cases = gen(tier, rnd)
    # direction A: behaviours generated by TLC from spec/Gen_Observe.tla (the driver's commands as actions over Observe), each command followed by the
    # set of registered (client, resource) pairs the specification predicts
    import json as _json, re as _re
    gst = V.tlc('Gen_Observe', 'Gen_Observe.cfg', workers=4, extra=['-simulate', 'num=%d' % (60 if tier == 'quick' else 3000), '-depth', '14', '-seed', str(V.seed() * 17 + 11)],
                timeout=900, xmx='4g', deque=False)
    if 'is violated' in gst['out'] or 'Error:' in gst['out']:
        raise V.Infra('Gen_Observe: the behaviour generator violates its own invariants (specification error):\n' + gst['out'][-2500:])
    nbeh, seenb = 0, set()
    for m in _re.finditer(r'^<<"BEH", "(.*)">>$', gst['out'], _re.M):
        txt = m.group(1).replace('\\"', '"')
        if txt in seenb:
            continue
        seenb.add(txt)
        nbeh += 1
        ops = []
        for a in _json.loads(txt):
            c, x, y = a['c'], a['a'], a['b']
            ops += {'G': ['G %d %d %02x%02x' % (x, y, 0xa0 + x, y)], 'U': ['U %d %d %02x%02x' % (x, y, 0xa0 + x, y)], 'Prst': ['P %d rstall' % x], 'Pack': ['P %d ack' % x],
                    'H': ['H %d' % x, 'I 50'], 'D': ['D %d' % x]}[c]
            ops.append('Z ' + ' '.join('%d:%d' % (p[0], p[1]) for p in a['reg']))
        cases.append((200000 + nbeh, ['X id=%d mode=0 start=0 nres=2 big=0' % (200000 + nbeh)] + ops + ['E']))
    if nbeh < 30:
        raise V.Infra('Gen_Observe produced %d behaviours only' % nbeh)
    jobs = []
    for ci in range(V.NCPU):
        ch = cases[ci::V.NCPU]
        if not ch:
            continue
        cf = os.path.join(out, 'cases-%02d.txt' % ci)
        with open(cf, 'w') as f:
            for _, ls in ch:
                f.write('\n'.join(ls) + '\n')
        jobs.append((cf, os.path.join(out, 'trace-%02d.ndjson' % ci)))
    import concurrent.futures as cfu
    crashes = []

    def rundrv(j):
        rc, o = V.run_driver(drv, [j[0], j[1]], timeout=400 if tier == 'quick' else 3000)
        return j, rc, o
    with cfu.ThreadPoolExecutor(max_workers=V.NCPU) as ex:
        for j, rc, o in ex.map(rundrv, jobs):
            if rc != 0 or V.sanitizer_reports(o):
                crashes.append((j, rc, o[-8000:]))
                with open(j[1], 'rb') as f:
                    data = f.read()
                if not data.endswith(b'\n'):
                    data = data[:data.rfind(b'\n') + 1]
                with open(j[1], 'wb') as f:
                    f.write(data + b'{"e":"Crash"}\n')
    env = {f['id']: '1' for f in V.enabled_findings()}
    results = V.validate_traces('Trace_Observe', [j[1] for j in jobs], env=env, xmx='3g')
    bycase = dict(cases)
    vio_out, nexec, known = [], 0, set()
    for r in results:
        nexec += r['executions']
        known |= set(r['known'])
        for rj in r['rejected']:
            p = V.save_replay(pid, 'case-%d.txt' % rj['id'], '\n'.join(bycase.get(rj['id'], [])) + '\n# ' + rj['why'] + '\n')
            vio_out.append(('%s (case %d, %s line %d)' % (rj['why'], rj['id'], os.path.basename(r['trace']), rj['line']), p))
    for (j, rc, o) in crashes:
        p = V.save_replay(pid, 'crash-%s.log' % os.path.basename(j[0]), o)
        vio_out.append(('driver aborted / sanitizer report (rc=%d) on %s' % (rc, j[0]), p))
    # session loss as a cause of deregistration: stream (TCP) observers of the session driver, one to three observations of one resource on a
    # connection that goes away, judged by Trace_Sessions (the observer list libcoap keeps must not refer to the lost session any more)
    import sessions as S
    lcases, lid = [], [0]

    def lcase(ops, timeout=0, maxidle=0, tcp=0):
        lid[0] += 1
        lcases.append((lid[0], ['X id=%d timeout=%d maxidle=%d tcp=%d' % (lid[0], timeout, maxidle, tcp)] + list(ops) + ['E']))
    for to in (1, 10):
        S.obs_loss(lcase, to)
    lout = os.path.join(out, 'loss')
    os.makedirs(lout, exist_ok=True)
    sdrv = V.link('drv_sess', ['drv_sess.c', 'simnet.c'], S.WRAPS)
    lvio, lexec, _k, _r = V.drive_and_validate(pid, sdrv, lcases, lout, 'Trace_Sessions', xmx='2g', nfiles=2)
    vio_out += [('session loss: ' + t, p_) for (t, p_) in lvio]
    kf = [f for f in V.enabled_findings(pid) if f['id'] in known]
    V.write_evidence(pid, tier, 'model_checking', dict(
        session_loss_histories=lexec, behaviours_generated_by_tlc_and_replayed=nbeh,
        states=mcst['distinct'], transitions=mcst['generated'], traces_validated_against_impl=nexec,
        samples=[cases[0][1], cases[-1][1]], model_action_coverage=mcst['action_cov'], known_findings_fired=sorted(known), exhaustive=False,
        rule='MC_Observe: all interleavings of register / re-register / cancel / change / notify / reset for 2 clients with the counter starting below the '
             '24-bit wrap; real server: every cancel cause (Observe=1, RST to CON / NON notification, unacknowledged CON notification, error response, '
             'resource deletion, loss of the (TCP) session with one to three observations on it), re-registration with same and new token, 1-4 clients on 1-3 resources with and without query, bursts of changes, '
             'three notification modes, counter wrap, idle periods beyond the session timeout, random histories'),
        time.time() - t0, violations=len(vio_out),
        assumptions=['several changes between two I/O steps may coalesce', 'the registration response takes part in the Observe order (>= for a re-registration)',
                     'the 1-in-6 Confirmable rule is not asserted for NOTIFY_NON_ALWAYS resources'])
    V.finish(pid, vio_out, ['%s: %s' % (f['id'], f['signature']) for f in kf])
