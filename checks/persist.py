"""C17 -- persisted observe state survives a crash at any point and is restored on restart.

Model:    spec/Persist.tla (server state after a history) + spec/MC_Persist.tla (file update protocol with a crash between any
          two calls; TLC: file is always the complete old or new content; the in-place variant is shown to violate it)
Binding:  harness/drv_persist.c runs a real server with coap_persist_startup(); every stdio / rename call of the persistence
          code on the three files is intercepted (ld --wrap); for EVERY call index n of a history the process is killed right
          before and right after call n, the files are read, a fresh process is started on them and asked which resources exist
          and who gets notified; spec/Trace_Persist.tla judges files (old-or-new), restored resources / observations and the
          first Observe values after restart.
"""
import os, json, random, shutil, subprocess, time, itertools
import concurrent.futures as cfu
import verif as V

WRAPS = V.SIM_WRAPS + ['fopen', 'fclose', 'fflush', 'fwrite', 'fread', 'rename', 'remove']
_port = [0]


def port():
    # one fixed port: nothing is ever sent on the real sockets and libcoap binds UDP with SO_REUSEADDR, so parallel runs can share it;
    # the persisted records contain the port, so reference and crash runs must agree on it
    return 56830


def split_gens(ops):
    """ops may contain ('restart',) markers: the process exits cleanly there and a new one is started on the files.
    Returns [(base, ops of that generation)], base = number of operations of the history before the generation (its restart marker included)."""
    gens, cur, base = [], [], 0
    for i, op in enumerate(ops):
        if op[0] == 'restart':
            gens.append((base, cur))
            cur, base = [], i + 1
        else:
            cur.append(op)
    gens.append((base, cur))
    return gens


def script_of(ops, snaps=True, base=0):
    ls, names = [], []
    if snaps:
        ls.append('S %d' % base)
    for j, op in enumerate(ops, base + 1):
        k = op[0]
        if k == 'create':
            ls.append('C %s' % op[1])
        elif k == 'delete':
            ls.append('X %s' % op[1])
        elif k == 'register':
            ls.append('O %d %s %s' % (op[2], op[1], op[3]))
        elif k == 'cancel':
            ls.append('U %d %s %s' % (op[2], op[1], op[3]))
        elif k == 'change':
            ls.append('H %s %d' % (op[1], op[2]))
        if snaps:
            ls.append('S %d' % j)
    return ls


def ops_json(ops):
    out = []
    for op in ops:
        if op[0] == 'restart':
            out.append(dict(k='restart', name='', c=-1, tok='', n=0))
            continue
        d = dict(k=op[0], name=op[1], c=-1, tok='', n=0)
        if op[0] in ('register', 'cancel'):
            d['c'], d['tok'] = op[2], op[3]
        if op[0] == 'change':
            d['n'] = op[2]
        out.append(d)
    return out


def run_proc(drv, d, prt, script, trace, kill, freq, base=0):
    sp = os.path.join(d, 'script-%s.txt' % abs(hash((tuple(script), kill, base))))
    with open(sp, 'w') as f:
        f.write('\n'.join(script) + '\n')
    return V.run_driver(drv, [d + '/', str(prt), sp, trace, str(kill), str(freq), str(base)], timeout=120)


FULL = set()        # histories whose kill points are all executed in the quick tier too


def histories(tier, rnd):
    H = []
    FULL.clear()
    H.append(([('create', 'r1'), ('create', 'r2'), ('register', 'r1', 0, 'a1'), ('register', 'r2', 1, 'b2'), ('change', 'r1', 1), ('change', 'r1', 1), ('change', 'r1', 1), ('cancel', 'r2', 1, 'b2')], 1))
    H.append(([('create', 'r1'), ('register', 'r1', 0, 'a1')] + [('change', 'r1', 1)] * 5 + [('create', 'r2'), ('delete', 'r1'), ('register', 'r2', 0, 'c3')], 2))
    H.append(([('create', 'r1'), ('create', 'r2'), ('create', 'r3'), ('delete', 'r2'), ('create', 'r2'), ('register', 'r3', 2, 'd4')] + [('change', 'r3', 1)] * 12, 10))
    H.append(([('create', 'r1'), ('register', 'r1', 0, 'a1'), ('register', 'r1', 1, 'b1'), ('register', 'r1', 0, 'a1'), ('cancel', 'r1', 1, 'b1'), ('change', 'r1', 1), ('change', 'r1', 1)], 1))
    # several generations: the process is restarted cleanly in between, operations continue on the restored state
    H.append(([('create', 'r1'), ('register', 'r1', 0, 'a1'), ('change', 'r1', 1), ('restart',), ('cancel', 'r1', 0, 'a1'), ('change', 'r1', 1)], 1))
    H.append(([('create', 'r1'), ('create', 'r2'), ('register', 'r1', 0, 'a1'), ('register', 'r2', 1, 'b2'), ('restart',), ('change', 'r1', 1), ('delete', 'r2'),
               ('register', 'r1', 1, 'b1'), ('restart',), ('cancel', 'r1', 0, 'a1'), ('change', 'r1', 1), ('create', 'r3')], 2))
    # a resource whose counter line precedes another's is deleted: a kill inside the deletion leaves an orphan line in front of the live one
    FULL.add(len(H))
    H.append(([('create', 'r1'), ('create', 'r2'), ('register', 'r1', 0, 'a1'), ('register', 'r2', 1, 'b2'), ('change', 'r1', 1), ('change', 'r1', 1),
               ('change', 'r2', 1), ('change', 'r2', 1), ('change', 'r2', 1), ('delete', 'r1')], 1))
    FULL.add(len(H))
    H.append(([('create', 'r2'), ('create', 'r1'), ('register', 'r2', 0, 'a1'), ('register', 'r1', 1, 'b2')] + [('change', 'r2', 1)] * 4 + [('change', 'r1', 1)] * 7 +
              [('delete', 'r2'), ('change', 'r1', 1)], 3))
    names = ['r1', 'r2']
    for _ in range(3 if tier == 'quick' else 40):
        ops, have, regs = [], set(), {}
        for _k in range(rnd.randint(3, 6)):
            r = rnd.random()
            n = rnd.choice(names)
            if r < 0.35 or not have:
                ops.append(('create', n)); have.add(n)
            elif r < 0.45:
                ops.append(('delete', n)); have.discard(n); regs = {k: v for k, v in regs.items() if k[1] != n}
            elif r < 0.7:
                c = rnd.randrange(2)
                tok = '%02x' % (16 * (1 + names.index(n)) + c + 1)
                ops.append(('register', n, c, tok)); regs[(c, n)] = tok
            elif r < 0.8 and regs:
                (c, n2), tok = rnd.choice(list(regs.items()))
                ops.append(('cancel', n2, c, tok)); del regs[(c, n2)]
            else:
                ops += [('change', n, 1)] * rnd.choice((1, 2, 7))
        H.append((ops, rnd.choice((1, 2, 4, 10))))
    return H


def run(pid, tier):
    t0 = time.time()
    rnd = random.Random(V.seed() * 4099 + 17)
    out = V.outdir(pid, tier)
    drv = V.link('drv_persist', ['drv_persist.c', 'simnet.c'], WRAPS)
    mcst = V.mc('MC_Persist', 'MC_Persist.cfg', must_fire=['OpenNew', 'Copy', 'AppendRec', 'Flush', 'Close', 'Rename', 'Crash'], timeout=600)
    if mcst['violated']:
        raise V.Infra('MC_Persist violated (specification error):\n' + mcst['out'][-2000:])
    neg = V.tlc('MC_Persist', 'MC_Persist_inplace.cfg', workers=1, deque=False, timeout=600)
    if 'is violated' not in neg['out']:
        raise V.Infra('MC_Persist sanity: the in-place protocol is NOT rejected by the model')
    scratch = os.path.join(V.WORK, 'persist-%d' % os.getpid())
    shutil.rmtree(scratch, ignore_errors=True)
    os.makedirs(scratch)
    H = histories(tier, rnd)
    execs = []           # (exec id, history index, kill)
    traces_dir = os.path.join(out, 'exec')
    os.makedirs(traces_dir)
    eid = [0]
    infra = []
    shape = []

    def reference(hi):
        ops, freq = H[hi]
        d = os.path.join(scratch, 'ref-%d' % hi)
        os.makedirs(d)
        tr = os.path.join(d, 'trace.ndjson')
        calls = []
        for (base, gops) in split_gens(ops):
            rc, o = run_proc(drv, d, port(), script_of(gops, base=base), tr, 0, freq, base)
            if rc != 0:
                infra.append('reference run of history %d failed rc=%d: %s' % (hi, rc, o[-1500:]))
        snaps = []
        for line in open(tr):
            try:
                e = json.loads(line)
            except ValueError:
                continue
            if e.get('e') == 'Snap':
                snaps.append(dict(j=e['j'], dyn=e['dyn'], obs=e['obs'], cnt=e['cnt']))
            if e.get('e') == 'Finished':
                calls.append(e['calls'])
        if len(calls) != len(split_gens(ops)) or len(snaps) < len(ops) + 1:
            infra.append('reference run of history %d incomplete (%d generations finished, %d snapshots)' % (hi, len(calls), len(snaps)))
            calls = (calls + [0] * 8)[:len(split_gens(ops))]
        return snaps, calls
    refs = [reference(hi) for hi in range(len(H))]
    if infra:
        # a sanitizer report in the uncrashed run is a finding of the run itself
        pass
    jobs = []
    for hi, (ops, freq) in enumerate(H):
        snaps, calls = refs[hi]
        all_names = sorted(set(op[1] for op in ops if op[0] != 'restart'))
        kills = [(g, n) for g, c in enumerate(calls) for n in range(1, c + 1)]
        if tier == 'quick' and len(kills) > 45 and hi not in FULL:
            kills = sorted(rnd.sample(kills, 45))
        for (g, n) in kills:
            for sign in (1, -1):
                eid[0] += 1
                jobs.append((eid[0], hi, sign * n, all_names, g))
        if len(calls) > 1:
            eid[0] += 1
            jobs.append((eid[0], hi, 0, all_names, len(calls) - 1))      # no kill at all: every generation ends cleanly, then the query process

    def one(job):
        xid, hi, kill, all_names, gen = job
        ops, freq = H[hi]
        snaps, calls = refs[hi]
        d = os.path.join(scratch, 'x-%d' % xid)
        os.makedirs(d)
        tr = os.path.join(traces_dir, 'x-%05d.ndjson' % xid)
        prt = port()
        with open(tr, 'w') as f:
            f.write(json.dumps(dict(e='Reset', id=xid, hist=hi, kill=kill, gen=gen, ops=ops_json(ops), snaps=snaps)) + '\n')
        gens = split_gens(ops)
        note, o = '', ''
        for g, (base, gops) in enumerate(gens[:gen + 1]):
            k = kill if g == gen else 0
            rc, o1 = run_proc(drv, d, prt, script_of(gops, snaps=False, base=base), tr, k, freq, base)
            o += o1
            if g == gen and kill != 0 and rc != 77:
                note = 'process of generation %d ended rc=%d instead of being killed' % (g, rc)
            if (g < gen or kill == 0) and rc != 0:
                note = 'process of generation %d ended rc=%d' % (g, rc)
        if kill == 0:
            with open(tr, 'a') as f:
                f.write(json.dumps(dict(e='Killed', call=0, when='clean-exit', fn='-', op=len(ops))) + '\n')
        files = {}
        for fn in ('dyn', 'obs', 'cnt'):
            p = os.path.join(d, fn)
            files[fn] = open(p, 'rb').read().hex() if os.path.exists(p) else '-'
        with open(tr, 'a') as f:
            f.write(json.dumps(dict(e='Files', **files)) + '\n')
        rc2, o2 = run_proc(drv, d, prt, ['Q ' + ' '.join(all_names), 'N ' + ' '.join(all_names)], tr, 0, freq, len(ops) + 1)
        reps = V.sanitizer_reports(o) + V.sanitizer_reports(o2)
        if rc2 != 0 or reps:
            with open(tr, 'a') as f:
                f.write('{"e":"Crash"}\n')
        shutil.rmtree(d, ignore_errors=True)
        # structural guard against a vacuous validation: every process of the execution announced itself, the last one finished its queries
        txt = open(tr).read()
        if txt.count('"e":"Start"') != gen + 2 or not txt.rstrip().endswith('}') or '"e":"Exists"' not in txt:
            if rc2 == 0 and not reps:
                shape.append('execution %d: %d Start events for %d processes' % (xid, txt.count('"e":"Start"'), gen + 2))
        return xid, tr, note, (o2[-3000:] if (rc2 != 0 or reps) else '')
    res = []
    with cfu.ThreadPoolExecutor(max_workers=V.NCPU) as ex:
        res = list(ex.map(one, jobs))
    shutil.rmtree(scratch, ignore_errors=True)
    # concatenate per chunk for validation
    chunks = []
    for ci in range(V.NCPU):
        part = res[ci::V.NCPU]
        if not part:
            continue
        cf = os.path.join(out, 'trace-%02d.ndjson' % ci)
        with open(cf, 'w') as f:
            for (_x, tr, _n, _o) in part:
                f.write(open(tr).read())
        chunks.append(cf)
    if shape:
        raise V.Infra('traces do not have the shape the trace specification judges (nothing would be decided): ' + '; '.join(shape[:5]))
    results = V.validate_traces('Trace_Persist', chunks, xmx='3g')
    byid = {j[0]: j for j in jobs}
    vio_out, nexec = [], 0
    for r in results:
        nexec += r['executions']
        for rj in r['rejected']:
            j = byid.get(rj['id'])
            desc = dict(history=H[j[1]][0], save_freq=H[j[1]][1], kill=j[2]) if j else {}
            p = V.save_replay(pid, 'exec-%d.json' % rj['id'], dict(why=rj['why'], **desc))
            vio_out.append(('%s (history %s, kill %s call %s)' % (rj['why'], j[1] if j else '?', 'before' if j and j[2] < 0 else 'after', abs(j[2]) if j else '?'), p))
    crashlogs = [(x, o) for (x, _t, _n, o) in res if o]
    for (x, o) in crashlogs[:5]:
        V.save_replay(pid, 'restart-crash-%d.log' % x, o)
    if infra:
        p = V.save_replay(pid, 'reference-run.log', '\n'.join(infra))
        vio_out.append(('the uncrashed reference run itself failed (sanitizer report or abort): see log', p))
    V.write_evidence(pid, tier, 'model_checking', dict(
        states=mcst['distinct'], transitions=mcst['generated'], traces_validated_against_impl=nexec,
        samples=[dict(history=H[0][0], save_freq=H[0][1], kill_points=sum(refs[0][1]))], histories=len(H), kill_points_executed=len(jobs),
        stdio_calls_per_history=[sum(c) for (_s, c) in refs], exhaustive=(tier == 'thorough'),
        rule='for each history every index n of a stdio/rename call made by the persistence code is a kill point, once before and once after the call '
             '(quick: up to 45 sampled indices per history), in every generation of histories that restart the process cleanly in between; after the kill the three files must equal the reference content before or after the interrupted '
             'operation, and a restarted process must have the resources / observers of one of those two states and send larger Observe values'),
        time.time() - t0, violations=len(vio_out),
        assumptions=['process kill: data handed to the kernel survives, stdio buffers do not (no power-loss model)', 'fread calls are not kill points'])
    V.finish(pid, vio_out, [])
