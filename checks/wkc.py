"""C20 -- /.well-known/core listing, filters, windows, block-wise GET.

Model:    spec/Wkc.tla (RFC 6690 link format, filter matching, windows); MC_Wkc checks the window algebra on the model
Binding:  harness/drv_wkc.c registers generated resource tables in a real server context, prints every (offset, length)
          window through coap_print_wellknown into exact-size heap buffers, and GETs the resource block-wise through the
          real server on the simulator; spec/Trace_Wkc.tla judges every listing, window and reassembled body.
"""
import random, time, os, itertools
import verif as V


def hx(s):
    if isinstance(s, str):
        s = s.encode()
    return s.hex() if s else '-'


def tables(tier, rnd):
    T = []
    T.append([])                                                    # no resources at all
    T.append([('a', '--', [])])
    T.append([('sensors/temp', 'o-', [('rt', '"temperature-c"'), ('if', '"sensor"')]),
              ('sensors/light', '--', [('rt', '"light-lux core.s"'), ('if', 'sensor'), ('ct', '0')]),
              ('t', '-s', [('title', '"A, B"'), ('sz', None)])])
    T.append([('.well-known/core', '--', [('rt', 'x')]), ('b', 'os', [('rt', '""'), ('rel', 'a b c')]), ('bb', '--', [('rt', 'b')])])
    T.append([('x', '--', [('rt', 'a')]), ('x/y', '--', [('rt', 'ab')]), ('xy', '--', [('rt', 'a b')]), ('', '--', [('rt', 'abc')])])
    # a value whose last token is shorter than a prefix pattern (the comparison must not run past the value)
    T.append([('q', '--', [('rt', 'alpha b'), ('rel', '"first c"')]), ('q2', '--', [('rt', '"b"')])])
    T.append([('p%d' % i, rnd.choice(('--', 'o-', '-s')), [('rt', 'r%d' % (i % 3))] if i % 2 else []) for i in range(12)])
    for _ in range(2 if tier == 'quick' else 30):
        n = rnd.randint(1, 6)
        t = []
        for i in range(n):
            path = ''.join(rnd.choice('abc/') for _k in range(rnd.randint(1, 5))) + str(i)
            attrs = []
            for nm in rnd.sample(['rt', 'if', 'rel', 'ct', 'title', 'sz', 'r'], rnd.randint(0, 3)):
                v = rnd.choice([None, '', 'a', 'a b', '"a b"', '"x"', 'ab', '0'])
                attrs.append((nm, v))
            t.append((path, rnd.choice(('--', 'o-', '-s', 'os')), attrs))
        T.append(t)
    return T


FILTERS = ['-', 'rt=temperature-c', 'rt=light-lux', 'rt=core.s', 'rt=temp*', 'rt=*', 'if=sensor', 'href=/sensors/temp', 'href=sensors/temp',
           'href=/sensors/*', 'href=/s*', 'href=/t', 'ct=0', 'title=A, B', 'rt=a', 'rt=a*', 'rt=b', 'rt=ab', 'rel=b', 'rel=c*', 'rt=r1', 'rt=r*',
           'href=/p1*', 'href=/x', 'href=/x*', 'href=/', 'nosuch=1', 'rt=zzz', 'sz=1', 'rt', 'rt=', '=x']


MUST = ['rt=bravo*', 'rel=cdefg*', 'rt=b*', 'rt=alpha', 'rt=b', 'rel=first']       # in the quick tier too
FILTERS += [f for f in MUST if f not in FILTERS]


def run(pid, tier):
    t0 = time.time()
    rnd = random.Random(V.seed() * 7 + 20)
    out = V.outdir(pid, tier)
    drv = V.link('drv_wkc', ['drv_wkc.c', 'simnet.c'], V.SIM_WRAPS)
    mcst = V.mc('MC_Wkc', 'MC_Wkc.cfg', timeout=1200)
    if mcst['violated']:
        raise V.Infra('MC_Wkc violated (specification error):\n' + mcst['out'][-2000:])
    T = tables(tier, rnd)
    cases = []
    cid = 0
    for t in T:
        # one case per (table, group of filters): keeps traces parallel
        flt = FILTERS if tier == 'thorough' else ['-'] + rnd.sample(FILTERS[1:], 5) + [f for f in MUST if f not in FILTERS[:1]]
        total_guess = sum(len(p) + 4 + sum(len(n) + 2 + len(v or '') for n, v in a) + 8 for p, _f, a in t)
        for f in flt:
            if f == '-':
                continue
            cid += 1
            ls = ['X id=%d' % cid]
            for (p, fl, attrs) in t:
                ls.append('R %s %s %s' % (hx(p), fl, ' '.join(hx(n) + ('=' + hx(v) if v is not None else '') for n, v in attrs)))
            ls.append('F -' if total_guess < (90 if tier == 'quick' else 400) else 'F -' )
            ls.append('F ' + hx(f))
            if f == flt[1]:
                ls += ['L ' + hx(g) for g in FILTERS[1:]]      # every filter of the catalogue: listing only
            appdefined = any(p == '.well-known/core' for p, _f, _a in t)   # then the application's own handler answers the GET
            for szx in (() if appdefined else (0, 2, 6) if tier == 'quick' else range(7)):
                ls.append('G %d -' % szx)
                if all(c.isalnum() or c in '=*/.-' for c in f):
                    ls.append('G %d %s' % (szx, hx(f)))
                    if szx == 0:
                        # the filtered and the unfiltered listing fetched at the same time by one peer, block by block in turn: each is its own listing
                        ls.append('G %d - %s' % (szx, hx(f)))
                        ls.append('G %d %s -' % (szx, hx(f)))
            ls.append('E')
            cases.append((cid, ls))
    # big tables: windows are quadratic; cap by dropping window sweeps for listings beyond a size in quick tier is NOT done:
    nchunk = V.NCPU
    jobs = []
    for ci in range(nchunk):
        ch = cases[ci::nchunk]
        if not ch:
            continue
        cf = os.path.join(out, 'cases-%02d.txt' % ci)
        with open(cf, 'w') as f:
            for _, ls in ch:
                f.write('\n'.join(ls) + '\n')
        jobs.append((cf, os.path.join(out, 'trace-%02d.ndjson' % ci)))
    import concurrent.futures as cfu
    crashes = []

    def rundrv(j):
        rc, o = V.run_driver(drv, [j[0], j[1]], timeout=400 if tier == 'quick' else 3000)
        return j, rc, o
    with cfu.ThreadPoolExecutor(max_workers=V.NCPU) as ex:
        for j, rc, o in ex.map(rundrv, jobs):
            if rc != 0 or V.sanitizer_reports(o):
                crashes.append((j, rc, o[-8000:]))
                with open(j[1], 'rb') as f:
                    data = f.read()
                if not data.endswith(b'\n'):
                    data = data[:data.rfind(b'\n') + 1]
                with open(j[1], 'wb') as f:
                    f.write(data + b'{"e":"Crash"}\n')
    results = V.validate_traces('Trace_Wkc', [j[1] for j in jobs], xss='256m', xmx='6g', timeout=2400)
    bycase = dict(cases)
    vio_out, nwin, nlist, nexec, unclear = [], 0, 0, 0, 0
    for r in results:
        nwin += r.get('windows', 0)
        nlist += r.get('listings', 0)
        nexec += r['executions']
        unclear += r.get('outside_defined_filters', 0)
        for rj in r['rejected']:
            if rj['why'].startswith('HARNESS'):
                raise V.Infra('harness ordering error: %s' % rj)
            p = V.save_replay(pid, 'case-%d.txt' % rj['id'], '\n'.join(bycase.get(rj['id'], [])) + '\n# ' + rj['why'] + '\n')
            vio_out.append(('%s (case %d, %s line %d)' % (rj['why'], rj['id'], os.path.basename(r['trace']), rj['line']), p))
    for (j, rc, o) in crashes:
        p = V.save_replay(pid, 'crash-%s.log' % os.path.basename(j[0]), o)
        vio_out.append(('driver aborted / sanitizer report (rc=%d) on %s' % (rc, j[0]), p))
    V.write_evidence(pid, tier, 'model_checking', dict(
        states=mcst['distinct'], transitions=mcst['generated'], traces_validated_against_impl=nexec,
        samples=[cases[0][1], cases[-1][1]], windows_checked=nwin, listings_checked=nlist, filters_outside_statement=unclear,
        tables=len(T), exhaustive=True,
        rule='for every generated (resource table, filter): the unfiltered listing must render exactly the registered set, the filtered listing '
             'must equal Wkc!Listing, and EVERY (offset, buffer length) pair with 0 <= offset, length <= listing length + 2 must give exactly the '
             'window bytes, the exact total and the truncation flag; block-wise GET bodies for SZX values must reassemble to the listing'),
        time.time() - t0, violations=len(vio_out),
        assumptions=['attribute order within a link is taken from the unfiltered listing (RFC 6690 leaves it open)',
                     'filters outside "name=value" are executed but not judged'])
    V.finish(pid, vio_out, [])
