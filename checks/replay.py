"""C15 -- OSCORE never accepts a replay or reuses a nonce; forgeries leave no trace.

Model:    spec/Replay.tla (sliding window recipient, sender sequence persistence with crash/restart; TLC invariants)
Binding:  harness/drv_replay.c: real OSCORE server + real OSCORE client on the simulator; histories of fresh (with gaps) /
          byte-identical replay / forged (claimed partial IV, damaged ciphertext) requests and client restarts are executed
          against the real protect / unprotect path; spec/Trace_Replay.tla judges every step.
"""
import random, itertools, time, os
import verif as V


def gen(tier, rnd):
    cases = []
    cid = [0]

    def case(win, b12, freq, ops):
        cid[0] += 1
        cases.append((cid[0], ['X id=%d win=%d b12=%d freq=%d' % (cid[0], win, b12, freq)] + ops + ['E']))
    gaps = [1, 2, 31, 32, 33, 63, 64, 65, 1000]
    for b12 in (1, 0):
        for win in ((32, 1, 2, 63) if tier == 'thorough' else (32, 2)):
            # accept a run, then replay each, at every distance around the window edges
            for g in gaps:
                ops = ['N', 'N', 'N']           # with B.1.2 the first exchange includes the Echo challenge
                ops += ['F %d' % (10 + g), 'R 10' if False else 'N']
                ops += ['R %d' % (10 + g), 'R %d' % (11 + g)]
                case(win, b12, 1, ops)
                # older messages inside / outside the window after a jump, then their replays
                ops = ['N', 'N', 'F 5', 'F %d' % (5 + g), 'R 5', 'F %d' % (5 + g - 1) if g > 1 else 'N', 'R %d' % (5 + g - 1) if g > 1 else 'R 5',
                       'R %d' % (5 + g), 'R 5']
                case(win, b12, 1, ops)
            # the indexing case found at design time: accept n, n+2 -> replay of n
            case(win, b12, 1, ['N', 'N', 'F 10', 'F 12', 'R 10', 'R 12', 'F 11', 'R 11', 'R 10'])
            # forgeries: damaged ciphertext, claimed numbers below / at / above / far above, then genuine traffic continues
            for claimed in (0, 9, 10, 11, 12, 74, 75, 76, 5000, 65535):
                case(win, b12, 1, ['N', 'N', 'F 10', 'G 10 %d' % claimed, 'N', 'R 10', 'R 11', 'G 11 %d' % claimed, 'N', 'R 12'])
            case(win, b12, 1, ['N', 'N', 'F 300', 'G 300 300', 'G 300 0', 'G 300 299', 'N', 'R 300', 'R 301'])
    # replay of the only / the newest accepted number (window holds just that one), also right after a jump that clears the window
    for b12 in (0, 1):
        case(32, b12, 1, ['N', 'R 0', 'R 1', 'N', 'R 0', 'R 1', 'R 2'])
        for j in (40, 64, 65, 200):
            case(32, b12, 1, ['N', 'N', 'F %d' % (2 + j), 'R %d' % (2 + j), 'N', 'R %d' % (3 + j), 'R %d' % (2 + j)])
    # a forgery arriving while the highest accepted number is still 0 (the roll-back must restore a zero, too)
    for claimed in (3, 5, 40, 100):
        case(32, 0, 1, ['N', 'G 0 %d' % claimed, 'F %d' % claimed, 'R %d' % claimed, 'N', 'R 0'])
        case(32, 0, 1, ['N', 'G 0 %d' % claimed, 'N', 'N', 'R 1', 'G 1 %d' % claimed, 'F %d' % claimed])
    # a genuine request is held back in the network; meanwhile newer ones are accepted and a forgery claims the held one's number (or a neighbour's):
    # the forgery leaves no trace, the late original is accepted (once)
    for b12 in (0, 1):
        for win in (32, 8):
            for (L, c) in ((20, 19), (20, 15), (40, 40 - win + 1), (40, 35), (9, 3)):
                if L - c >= win:
                    continue
                case(win, b12, 1, ['N', 'N', 'H %d' % c, 'F %d' % L, 'G %d %d' % (L, c), 'R %d' % c, 'R %d' % c, 'N'])
                case(win, b12, 1, ['N', 'N', 'H %d' % c, 'F %d' % L, 'G %d %d' % (L, c), 'G %d %d' % (L, c + 1), 'G %d %d' % (L, c - 1), 'R %d' % c, 'N', 'R %d' % c])
                case(win, b12, 1, ['N', 'N', 'H %d' % c, 'F %d' % L, 'R %d' % c, 'G %d %d' % (L, c), 'R %d' % c])
                case(win, b12, 1, ['N', 'N', 'F %d' % L, 'G %d %d' % (L, c), 'F %d' % c, 'R %d' % c])
    # the recipient is still in its initial state (Appendix B.1.2: every arrival is challenged with a protected 4.01 + fresh Echo) and the same
    # first request arrives again and again (its answer was lost, or somebody replays it): every challenge is a different message and needs its
    # own nonce; likewise the requests that follow while the client never sees an answer
    for win in (32, 8):
        case(win, 1, 1, ['H 0', 'R 0', 'R 0', 'R 0', 'N', 'N', 'R 0'])
        case(win, 1, 1, ['H 0', 'H 1', 'R 1', 'R 0', 'R 1', 'R 0', 'N', 'R 1'])
        case(win, 1, 1, ['H 0', 'R 0', 'G 0 0', 'G 0 5', 'R 0', 'N', 'N'])
        case(win, 0, 1, ['H 0', 'G 0 0', 'R 0', 'R 0', 'N'])
        case(win, 0, 1, ['H 0', 'H 1', 'G 1 0', 'G 1 1', 'R 1', 'R 0', 'R 0', 'N'])
    # B.1.2 off: the very first message a recipient ever sees is a forgery (any claimed number): it leaves no trace - the first genuine request, whatever
    # its number, is accepted afterwards
    for claimed in (0, 1, 5, 40, 1000):
        case(32, 0, 1, ['H 0', 'G 0 %d' % claimed, 'R 0', 'N', 'R 0'])
        case(32, 0, 1, ['H 0', 'H 1', 'G 1 %d' % claimed, 'G 0 %d' % claimed, 'R 1', 'R 0', 'N'])
    # sender: save callback and restarts at every point
    for freq in (1, 2, 3, 10):
        for k in range(0, 8):
            ops = ['N'] * k + ['C'] + ['N'] * 4 + ['C', 'N', 'N']
            case(32, 0, freq, ops)
            case(32, 1, freq, ops)
    # sender sequence numbers beyond 32 bits (they go up to 2^40 - 1): a life that crosses 2^32, a restart from what was saved there - never a number of an
    # earlier life (sender-side histories: the requests are held back in the network, the recipient plays no part)
    for freq in (1, 4):
        for k in (0, 2, 5):
            case(32, 0, freq, ['h'] * 8 + ['H 4294967290'] + ['h'] * (4 + k) + ['C'] + ['h'] * 6 + ['C', 'h', 'h'])
            case(32, 0, freq, ['h'] * 3 + ['H 1099511627000'] + ['h'] * (3 + k) + ['C'] + ['h'] * 3)
    # random histories
    for _ in range(250 if tier == 'quick' else 20000):
        win = rnd.choice((32, 32, 1, 2, 8, 63))
        b12 = rnd.choice((0, 1))
        ops = ['N', 'N']
        have = []
        cur = 2
        for _k in range(rnd.randint(2, 9)):
            r = rnd.random()
            if r < 0.45:
                g = rnd.choice(gaps + [1, 1, 1])
                cur += g
                ops.append('F %d' % cur)
                have.append(cur)
            elif r < 0.50 and have:
                older = [x for x in range(max(3, cur - 40), cur) if x not in have]
                if older:
                    o = rnd.choice(older)
                    ops += ['H %d' % o, 'F %d' % (cur + 1), 'G %d %d' % (cur + 1, o), 'R %d' % o]
                    cur += 1
                    have += [o, cur]
            elif r < 0.55 and have:
                older = [x for x in range(max(0, cur - 70), cur) if x not in have and x > 2]
                if older:
                    o = rnd.choice(older)
                    ops.append('F %d' % o)
                    have.append(o)
            elif r < 0.8 and have:
                ops.append('R %d' % rnd.choice(have))
            elif r < 0.95 and have:
                ops.append('G %d %d' % (rnd.choice(have), rnd.choice([cur, cur + 1, cur + 64, cur + 1000, max(0, cur - 3), 0])))
            else:
                ops.append('C')
        case(win, b12, rnd.choice((1, 1, 3)), ops)
    return cases


def run(pid, tier):
    t0 = time.time()
    rnd = random.Random(V.seed() * 99991 + 15)
    out = V.outdir(pid, tier)
    drv = V.link('drv_replay', ['drv_replay.c', 'simnet.c'], V.SIM_WRAPS + ['coap_crypto_aead_encrypt'])
    mcst = V.mc('Replay', 'MC_Replay.cfg' if tier == 'quick' else 'MC_Replay_thorough.cfg',
                must_fire=['RxGenuine', 'RxForged', 'Protect', 'Skip', 'CrashRestart'], timeout=3000, xmx='16g')
    if mcst['violated']:
        raise V.Infra('Replay model violated (specification error):\n' + mcst['out'][-2500:])
    cases = gen(tier, rnd)
    jobs = []
    for ci in range(V.NCPU):
        ch = cases[ci::V.NCPU]
        if not ch:
            continue
        cf = os.path.join(out, 'cases-%02d.txt' % ci)
        with open(cf, 'w') as f:
            for _, ls in ch:
                f.write('\n'.join(ls) + '\n')
        jobs.append((cf, os.path.join(out, 'trace-%02d.ndjson' % ci)))
    import concurrent.futures as cfu
    crashes, ub = [], {}

    def rundrv(j):
        rc, o = V.run_driver(drv, [j[0], j[1]], timeout=400 if tier == 'quick' else 3000)
        return j, rc, o
    with cfu.ThreadPoolExecutor(max_workers=V.NCPU) as ex:
        for j, rc, o in ex.map(rundrv, jobs):
            reps = V.sanitizer_reports(o)
            hard = [r for r in reps if r[0] != 'ubsan']
            for r in reps:
                if r[0] == 'ubsan':
                    ub[(r[1], r[2])] = ub.get((r[1], r[2]), 0) + 1
            if rc != 0 or hard:
                crashes.append((j, rc, o[-8000:]))
                with open(j[1], 'rb') as f:
                    data = f.read()
                if not data.endswith(b'\n'):
                    data = data[:data.rfind(b'\n') + 1]
                with open(j[1], 'wb') as f:
                    f.write(data + b'{"e":"Crash"}\n')
    results = V.validate_traces('Trace_Replay', [j[1] for j in jobs], xmx='3g')
    bycase = dict(cases)
    vio_out, nexec, nsteps = [], 0, 0
    for r in results:
        nexec += r['executions']
        nsteps += r.get('steps', 0)
        for rj in r['rejected']:
            p = V.save_replay(pid, 'case-%d.txt' % rj['id'], '\n'.join(bycase.get(rj['id'], [])) + '\n# ' + rj['why'] + '\n')
            vio_out.append(('%s (case %d, %s line %d)' % (rj['why'], rj['id'], os.path.basename(r['trace']), rj['line']), p))
    for (j, rc, o) in crashes:
        p = V.save_replay(pid, 'crash-%s.log' % os.path.basename(j[0]), o)
        vio_out.append(('driver aborted / sanitizer report (rc=%d) on %s' % (rc, j[0]), p))
    # undefined behaviour inside the replay / sequence code is part of this property's mechanism (shift by >= 64)
    for (loc, what), n in sorted(ub.items()):
        if 'oscore.c' in loc and 'shift' in what:
            p = V.save_replay(pid, 'ubsan-%s.txt' % loc.replace('/', '_').replace(':', '_'), '%s: %s (x%d)\n' % (loc, what, n))
            vio_out.append(('undefined behaviour in the replay window code: %s %s' % (loc, what), p))
    V.write_evidence(pid, tier, 'model_checking', dict(
        states=mcst['distinct'], transitions=mcst['generated'], traces_validated_against_impl=nexec,
        samples=[cases[0][1], cases[-1][1]], steps_judged=nsteps, model_action_coverage=mcst['action_cov'],
        ubsan_reports_seen={'%s %s' % k: v for k, v in ub.items()}, exhaustive=False,
        rule='Replay.tla model-checked (all histories of bounded length: window, forgeries, sender save/crash/restart); real histories: runs with gaps '
             '{1,2,31,32,33,63,64,65,1000}, replays at every distance around the window, older in-window messages, forgeries with claimed partial IVs '
             'below/at/above/far above, client restarts at every point for ssn_freq 1/2/3/10, B.1.2 on and off, random histories'),
        time.time() - t0, violations=len(vio_out),
        assumptions=['an older, never accepted in-window request may be accepted or rejected (either verdict)', 'AES-CCM itself is GnuTLS\'s'])
    V.finish(pid, vio_out, [])
