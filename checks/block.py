"""C09 -- block-wise transfer delivers the sender's body intact, once, or fails explicitly.

Model:    spec/Block.tla (block geometry, what an application may obtain) + spec/MC_Block.tla (closed model of the Block1 /
          Block2 exchange as libcoap runs it: state tokens, Request-Tag, server reassembly keyed by Request-Tag, lossy duplicating
          channel; TLC: a delivered body is always exactly one sender's body)
Binding:  harness/drv_block.c: a real libcoap client and a real libcoap server on the simulator, a scripted verdict
          (pass / drop / duplicate / late) per emitted datagram; every handler invocation, release callback and datagram is
          logged; spec/Trace_Block.tla judges the application layer and the wire layer of every execution.
"""
import random, time, os, itertools
import verif as V


def gen(tier, rnd):
    cases = []
    cid = [0]

    def case(xfers, single=1, con=1, cmtu=0, smtu=0, cszx=-1, sszx=-1, gap=0, net=None, slow=0):
        cid[0] += 1
        ls = ['X id=%d single=%d con=%d cmtu=%d smtu=%d cszx=%d sszx=%d gap=%d slow=%d' % (cid[0], single, con, cmtu, smtu, cszx, sszx, gap, slow)]
        for k, (l1, l2) in enumerate(xfers, 1):
            ls.append('T %d %d %d %d %d' % (k, l1, 2 * k - 1, l2, 2 * k))
        if net:
            ls.append('N ' + ' '.join(net))
        ls.append('E')
        cases.append((cid[0], ls))

    def dirs(L):
        return ((L, -1), (-1, L), (L, L))
    thorough = tier == 'thorough'
    # 1. undisturbed: every length around the multiples of every block size, both directions, both delivery modes, CON and NON
    for szx in range(7):
        B = 16 << szx
        lens = sorted(set([0, 1, B - 1, B, B + 1, 2 * B - 1, 2 * B, 2 * B + 1, 3 * B - 1, 3 * B, 3 * B + 1, 7 * B - 1, 7 * B, 7 * B + 1]))
        if thorough:
            lens = sorted(set(lens + [k * B + d for k in range(1, 9) for d in (-1, 0, 1)] + [rnd.randint(0, 12 * B) for _ in range(10)]))
        for L in lens:
            for xf in dirs(L):
                for single in (1, 0):
                    for con in ((1, 0) if (thorough or szx in (0, 3, 6)) else (1,)):
                        case([xf], single=single, con=con, cszx=szx)
    # 1b. slow networks: nothing lost, every exchange prompt (delay well below ACK_TIMEOUT), but the transfer as a whole lasts longer than MAX_TRANSMIT_WAIT
    #     (93 s) and EXCHANGE_LIFETIME (247 s): progress, not the start of the transfer, is what the expiry of transfer state has to go by
    for (L, szx, slow) in ((4000, 0, 250), (4000, 0, 600), (9000, 1, 500), (1600, 0, 900)):
        for xf in dirs(L):
            for single in (1, 0):
                case([xf], single=single, con=1, cszx=szx, slow=slow)
        case([(L, -1)], single=1, con=0, cszx=szx, slow=slow)
    # 2. block size chosen from the session maximum; both sides' MTU
    for mtu in (64, 96, 128, 256, 576, 1152, 1400, 2048):
        for L in (0, 15, 16, 17, 100, 1000, 1024, 1025, 3000):
            for xf in dirs(L):
                case([xf], cmtu=mtu, smtu=mtu)
                case([xf], cmtu=mtu, smtu=1152, single=0)
                case([xf], cmtu=1152, smtu=mtu)
    # 3. the peer asks for / forces a smaller size early (server maximum below the client's choice, client Block2 request below the server's)
    for cs in range(1, 7):
        for ss in range(1, 7):
            if cs == ss and not thorough:
                continue
            B = 16 << min(cs, ss)
            for L in (B, 2 * B + 1, (16 << max(cs, ss)) * 2 + 5):
                for xf in dirs(L):
                    case([xf], cszx=cs, sszx=ss)
                    if thorough:
                        case([xf], cszx=cs, sszx=ss, single=0)
    for ss in range(1, 6):
        for L in (700, 2048, 2500):
            for xf in dirs(L):
                case([xf], sszx=ss)
    # 4. the large end
    for xf in dirs(65536):
        case([xf], cszx=6)
        case([xf], single=0)
    case([(65535, 65537)], cszx=2 if thorough else 4)
    # 5. two transfers on one session: concurrent and back to back, same resource
    for (a, b) in (((40, -1), (40, -1)), ((-1, 40), (-1, 40)), ((40, 40), (33, 47)), ((3000, -1), (-1, 3000)), ((48, -1), (-1, 48)), ((2000, 2000), (2000, 2000))):
        for gap in (0, 1, 100, 5000):
            for single in (1, 0):
                case([a, b], single=single, gap=gap, cszx=0 if a[0] < 100 and a[1] < 100 else -1)
    # 6. loss, duplication, delay: 3-4 block bodies, faults over the first datagrams
    V3 = ('d', '2', 'l', 'b')
    small = [((40, -1), 6), ((-1, 40), 6), ((40, 40), 11), ((64, -1), 8), ((-1, 64), 8)]
    for (xf, nd) in small:
        for single in (1, 0):
            for pos in range(nd + 3):
                for v in V3:
                    net = ['p'] * pos + [v]
                    case([xf], single=single, cszx=0, net=net)
            pairs = [(p1, v1, p2, v2) for p1 in range(nd + 2) for p2 in range(p1 + 1, nd + 4) for v1 in V3 for v2 in V3]
            for (p1, v1, p2, v2) in (pairs if thorough else rnd.sample(pairs, 60)):
                net = ['p'] * (p2 + 1)
                net[p1], net[p2] = v1, v2
                case([xf], single=single, cszx=0, net=net)
            for _ in range(400 if thorough else 25):
                net = [rnd.choice('pppdd2l2s') for _k in range(rnd.randint(3, 14))]
                case([xf], single=single, con=1 if rnd.random() < 0.8 else 0, cszx=0, net=net)
    # every datagram duplicated / every datagram late: the classic full replays
    for (xf, nd) in small:
        for single in (1, 0):
            case([xf], single=single, cszx=0, net=['2'] * 24)
            case([xf], single=single, cszx=0, net=['l'] * 8)
            case([xf], single=single, cszx=0, net=['d'] * 30)
            case([xf], single=single, cszx=0, net=['p', 'd'] * 12)
    # the first k datagrams get through, then the network is dead (a transfer abandoned mid-way: the NACK must carry the application's token);
    # and every single duplication / loss for Non-confirmable transfers in both delivery modes
    for (xf, nd) in small:
        for single in (1, 0):
            for k in range(1, nd + 2):
                case([xf], single=single, cszx=0, net=['p'] * k + ['d'] * 40)
                case([xf], single=single, cszx=0, net=['p'] * k + ['2'] + ['d'] * 40)
            for pos in range(nd + 3):
                for v in ('2', 'b', 'd', 's'):
                    case([xf], single=single, con=0, cszx=0, net=['p'] * pos + [v])
            case([xf], single=single, con=0, cszx=0, net=['2'] * 24)
            case([xf], single=single, con=0, cszx=0, net=['b'] * 24)
            case([xf], single=single, con=1, cszx=0, net=['b'] * 24)
    # two transfers under faults
    for _ in range(600 if thorough else 40):
        a = rnd.choice(((40, -1), (-1, 40), (40, 40), (70, 20)))
        b = rnd.choice(((40, -1), (-1, 40), (33, 47)))
        net = [rnd.choice('ppppdd2l') for _k in range(rnd.randint(2, 16))]
        case([a, b], single=rnd.choice((1, 1, 0)), gap=rnd.choice((0, 0, 50, 3000)), cszx=0, net=net)
    return cases


def run(pid, tier):
    t0 = time.time()
    rnd = random.Random(V.seed() * 31337 + 9)
    out = V.outdir(pid, tier)
    drv = V.link('drv_block', ['drv_block.c', 'simnet.c'], V.SIM_WRAPS)
    mcst = V.mc('MC_Block', 'MC_Block.cfg' if tier == 'quick' else 'MC_Block_thorough.cfg', workers=V.NCPU, xmx='16g', timeout=3000,
                must_fire=['AClientSend', 'AClientRetransmit', 'AClientRecv', 'AServerRecv', 'ALose', 'ADup'])
    if mcst['violated']:
        raise V.Infra('MC_Block violated (specification error):\n' + mcst['out'][-2500:])
    nd = V.mc('MC_Block', 'MC_Block_nodup.cfg', must_fire=['AClientSend', 'AServerRecv', 'ALose'], timeout=600)
    if nd['violated']:
        raise V.Infra('MC_Block (no duplication) violated (specification error):\n' + nd['out'][-2500:])
    # the model must be able to tell the designs apart: one Request-Tag for all transfers mixes bodies, the stale-ACK rule as it was goes backwards
    for cfgname, what in (('MC_Block_samertag.cfg', 'Invariant ExactBodyI is violated'), ('MC_Block_staleack.cfg', 'MonotoneAckP is violated'),
                          ('MC_Block_done.cfg', 'Invariant NotAllDone is violated')):
        neg = V.tlc('MC_Block', cfgname, workers=4, deque=False, timeout=600)
        if what not in neg['out']:
            raise V.Infra('MC_Block sanity: %s does not produce "%s"' % (cfgname, what))
    # Block2: the response side (cache keyed by the request, ETag, restart on change, stateless blocks after expiry)
    m2 = V.mc('MC_Block2', 'MC_Block2.cfg' if tier == 'quick' else 'MC_Block2_thorough.cfg', workers=V.NCPU, xmx='12g', timeout=3000,
              must_fire=['AServerRecv', 'AClientRecv', 'ADup'])
    if m2['violated']:
        raise V.Infra('MC_Block2 violated (specification error):\n' + m2['out'][-2500:])
    for cfgname in ('MC_Block2_expiry.cfg', 'MC_Block2_expiry_mix.cfg'):
        st = V.mc('MC_Block2', cfgname, workers=8, timeout=900, must_fire=['ACacheExpires'])
        if st['violated']:
            raise V.Infra('MC_Block2 (%s) violated (specification error):\n' % cfgname + st['out'][-2500:])
    for cfgname, what in (('MC_Block2_freshtoken.cfg', 'Invariant OneLiveChainI is violated'), ('MC_Block2_noetag.cfg', 'Invariant NoRawBlockI is violated'),
                          ('MC_Block2_leftover.cfg', 'Invariant AtMostOnceI is violated'), ('MC_Block2_done.cfg', 'Invariant NotConcluded is violated')):
        neg = V.tlc('MC_Block2', cfgname, workers=4, deque=False, timeout=600)
        if what not in neg['out']:
            raise V.Infra('MC_Block2 sanity: %s does not produce "%s"' % (cfgname, what))
    # expiry of transfer state: by progress the slow transfer gets through and the abandoned one goes away; by start (as it was) the slow one dies
    be = V.mc('MC_BlockExpiry', 'MC_BlockExpiry.cfg', must_fire=['Expire', 'Arrive', 'Lose', 'Tick'], workers=2, timeout=300)
    if be['violated']:
        raise V.Infra('MC_BlockExpiry violated (specification error):\n' + be['out'][-2000:])
    neg = V.tlc('MC_BlockExpiry', 'MC_BlockExpiry_bystart.cfg', workers=1, deque=False, timeout=300)
    if 'Invariant ProgressNeverExpiresI is violated' not in neg['out']:
        raise V.Infra('MC_BlockExpiry sanity: expiry counted from the start of the transfer is NOT rejected by the model')
    cases = gen(tier, rnd)
    env = {f['id']: '1' for f in V.enabled_findings()}
    vio_out, nexec, known, results = V.drive_and_validate(pid, drv, cases, out, 'Trace_Block', env=env, xmx='4g')
    kf = [f for f in V.enabled_findings(pid) if f['id'] in known]
    V.write_evidence(pid, tier, 'model_checking', dict(
        states=mcst['distinct'] + m2['distinct'], transitions=mcst['generated'] + m2['generated'], model_action_coverage=dict(mcst['action_cov'], **{'Block2.' + k: v for k, v in m2['action_cov'].items()}), traces_validated_against_impl=nexec, deliveries_judged=sum(r.get('deliveries', 0) for r in results),
        samples=[cases[0][1], cases[-1][1]], known_findings_fired=sorted(known), exhaustive=False,
        rule='every body length around the multiples of every block size 16..1024 in both directions, single-body and per-block delivery, CON and NON; '
             'block size from the session maximum (MTU 64..2048 on either side); early renegotiation by the peer; 64 KiB; two transfers on one '
             'session; every single fault and sampled pairs of faults (drop / duplicate / late) over the first datagrams of 3-4 block transfers, '
             'full replays, random schedules'),
        time.time() - t0, violations=len(vio_out),
        assumptions=['per-block mode: an identical block may be handed over again after loss or duplication (libcoap documents that it does not '
                     'reassemble or de-duplicate there); without faults the blocks must tile the body exactly',
                     'a server handler necessarily sees the token that was on the wire; tokens are judged at the client handlers'])
    V.finish(pid, vio_out, ['%s: %s' % (f['id'], f['signature']) for f in kf])
