"""Registry of checks: source of MANIFEST.json (bin/mkmanifest) and of bin/check's dispatch table."""
REG = {
 'C06': dict(module='msg', engine='msg', category='model_checking', design_ref='4/C06',
   technique='TLA+ spec Reliability (TLC closed model) + trace validation of the real client on a simulated lossy network',
   text='Closed model MC_Reliability (Reliability+Exchange with lossy/duplicating network and de-duplicating peer) is model-checked '
        'exhaustively within small constants for one-outcome, never-late, count bound, one-NACK; the real libcoap client is then run on the '
        'link-time simulator over every drop subset of the first 10 datagrams, every answered-copy x answer-kind x timing, two sessions '
        'sharing the send queue, cross-peer ACK/RST and seeded random schedules, and every recorded trace is validated by TLC against the '
        'same actions (retransmission instants T,2T,4T exact to the ms, byte identity, reported epoll wait <= earliest deadline, exactly one NACK).',
   note='Trusted: TLC, the simulator (ld --wrap of coap_ticks/epoll_wait/epoll_ctl/coap_socket_send/recv), the scripted peer. T is inferred from '
        'the first retransmission and must lie in [ACK_TIMEOUT, ACK_TIMEOUT*RF] +- 16 ms (Q6 rounding). Known finding KF_C06_RST_RENACK is reported, not failed.'),
 'C07': dict(module='msg', engine='msg', category='model_checking', design_ref='4/C07',
   technique='TLA+ spec Exchange over Reliability (TLC closed model) + trace validation of real client executions',
   text='Exchange layer (open/concluded per token, piggybacked / separate CON / NON responses, ACK owed for every CON response incl. duplicates, '
        'RST owed after FAIL, cancel-by-token) model-checked for conclude-at-most-once, then every response style x loss x duplication x delay '
        '(< ACK_TIMEOUT) x verdict on sequences of 1-3 requests is executed by the real client on the simulator and validated by TLC; obligations '
        '(deliver, ack, rst, nack) must be discharged before virtual time advances.',
   note='Preconditions of the statement (one exchange outstanding per session, delay < ACK_TIMEOUT, de-duplicating server) are tracked in the '
        'trace spec; executions outside them are discarded and counted. Known finding KF_C07_OLD_DUPLICATE is reported, not failed.'),
 'C08': dict(module='msg', engine='msg', category='model_checking', design_ref='4/C08',
   technique='TLA+ spec Reliability (NSTART/held FIFO, TLC closed model) + trace validation of real client bursts',
   text='NSTART bound and FIFO of held messages are invariants/guards of Reliability, model-checked in MC_Reliability; bursts of 1-6 CON/NON '
        'submissions x NSTART 1-3 x ack/rst/none/piggy/separate reactions in increasing/decreasing/equal delay order, a peer resetting every copy, '
        'several sessions, and random bursts are executed by the real client and validated: no Tx beyond NSTART, head-of-queue only, nothing held '
        'while a slot is free when time advances, NON never held, nothing left held when quiet.',
   note='The "submitted before the session is established" clause is exercised on DTLS by C19 (UDP sessions are established on creation). '
        'Trusted as for C06.'),
}
