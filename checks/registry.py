"""Registry of checks: source of MANIFEST.json (bin/mkmanifest) and of bin/check's dispatch table."""
REG = {
 'C02': dict(module='hostile', engine='hostile', category='model_checking', design_ref='4/C02',
   technique='TLA+ spec Hostile over CoapWire (decoder as well-formedness oracle) + TLC judging what a real endpoint does with generated hostile datagrams; sanitizers observe memory safety',
   text='Hostile.tla classifies every delivered datagram with CoapWire!DecUDP (the RFC 7252 decoder of the codec family). A real server endpoint (plain, in the middle of a Block1 upload, '
        'with a registered observer) and a real client session with a request outstanding receive base messages and their systematic mutations (every truncation, byte substitutions, '
        'header bit flips, inserted payload markers and reserved nibbles, doubled and extended messages), random byte strings of length 0..1500 and sequences of up to 150 hostile '
        'datagrams, each delivered alone and followed by a quiet period, with debug logging switched on. TLC requires that a malformed datagram never reaches a request or response handler '
        'and is answered by nothing but a Reset or an error response, and that after every sequence a well-formed canary request is answered 2.05 with the right payload. A crash, abort, '
        'sanitizer report or an endpoint that does not become quiet fails the run it happened in (the driver restarts after it).',
   note='Memory safety / undefined behaviour are observed (ASan, UBSan), not decided by the specification. Datagrams through drv_hostile; TCP and WebSocket streams (malformed messages, odd frames, hostile handshakes, random bytes; server and client '
        'sessions) through the stream catalogue shared with C05. OSCORE-protected hostile input is C14\'s tamper sweep; TLS records are not generated.'),
 'C06': dict(module='msg', engine='msg', category='model_checking', design_ref='4/C06',
   technique='TLA+ spec Reliability (TLC closed model) + trace validation of the real client on a simulated lossy network',
   text='Closed model MC_Reliability (Reliability+Exchange with lossy/duplicating network and de-duplicating peer) is model-checked '
        'exhaustively within small constants for one-outcome, never-late, count bound, one-NACK; the real libcoap client is then run on the '
        'link-time simulator over every drop subset of the first 10 datagrams, every answered-copy x answer-kind x timing, two sessions '
        'sharing the send queue, cross-peer ACK/RST and seeded random schedules, and every recorded trace is validated by TLC against the '
        'same actions (retransmission instants T,2T,4T exact to the ms, byte identity, reported epoll wait <= earliest deadline, exactly one NACK).'
        ' Later additions: keepalive pings (Reliability!Ping: a Confirmable of the library\'s own, ended by the pong without NACK; closed model MC_Reliability_ping), several sessions under one message id, transient send errors (TxFail).',
   note='Trusted: TLC, the simulator (ld --wrap of coap_ticks/epoll_wait/epoll_ctl/coap_socket_send/recv), the scripted peer. T is inferred from '
        'the first retransmission and must lie in [ACK_TIMEOUT, ACK_TIMEOUT*RF] +- 16 ms (Q6 rounding). Known finding KF_C06_RST_RENACK is reported, not failed.'),
 'C07': dict(module='msg', engine='msg', category='model_checking', design_ref='4/C07',
   technique='TLA+ spec Exchange over Reliability (TLC closed model) + trace validation of real client executions',
   text='Exchange layer (open/concluded per token, piggybacked / separate CON / NON responses, ACK owed for every CON response incl. duplicates, '
        'RST owed after FAIL, cancel-by-token) model-checked for conclude-at-most-once, then every response style x loss x duplication x delay '
        '(< ACK_TIMEOUT) x verdict on sequences of 1-3 requests is executed by the real client on the simulator and validated by TLC; obligations '
        '(deliver, ack, rst, nack) must be discharged before virtual time advances.'
        ' Later additions: a real libcoap server whose handlers defer their answers (coap_register_async, released by the application or timed) as the peer of the client (drv_rel srv=1), every single fault on every datagram in both directions; the handler is called for a deferred answer when it is due, not before.',
   note='Preconditions of the statement (one exchange outstanding per session, delay < ACK_TIMEOUT, de-duplicating server) are tracked in the '
        'trace spec; executions outside them are discarded and counted. Known finding KF_C07_OLD_DUPLICATE is reported, not failed.'),
 'C08': dict(module='msg', engine='msg', category='model_checking', design_ref='4/C08',
   technique='TLA+ spec Reliability (NSTART/held FIFO, TLC closed model) + trace validation of real client bursts',
   text='NSTART bound and FIFO of held messages are invariants/guards of Reliability, model-checked in MC_Reliability; bursts of 1-6 CON/NON '
        'submissions x NSTART 1-3 x ack/rst/none/piggy/separate reactions in increasing/decreasing/equal delay order, a peer resetting every copy, '
        'several sessions, and random bursts are executed by the real client and validated: no Tx beyond NSTART, head-of-queue only, nothing held '
        'while a slot is free when time advances, NON never held, nothing left held when quiet.'
        ' Later additions: keepalive pings take part in the NSTART accounting (a pong frees the slot), a held message released into a failing socket keeps its slot.',
   note='The "submitted before the session is established" clause is exercised on DTLS by C19 (UDP sessions are established on creation). '
        'Trusted as for C06.'),
 'C01': dict(module='codec', engine='codec', category='model_checking', design_ref='4/C01',
   technique='TLA+ spec CoapWire/Pdu (TLC closed model: Dec(Enc(m))=m) + TLC validation of every real API call, encoding and re-parse',
   text='CoapWire transcribes RFC 7252/8323/8974 encodings and decodings as operators; MC_Pdu model-checks that every builder/editor call '
        'sequence over a boundary alphabet keeps options ordered and round-trips under all three framings. The real PDU API is then driven '
        'through token x type x code x payload boundaries, every insertion order of option sets placed on the 12/13 and 268/269 delta and length '
        'boundaries, max_size exact-fit bands, refusal cases, implicit Hop-Limit, and random call sequences; TLC checks each return value, each '
        'accessor dump, each of the UDP/TCP/WS encodings byte-exactly against the RFC operators, and each re-parse.'
        ' The write side of the WebSocket transport: a real server session answers requests whose echoed payload makes the responses 100..140 bytes long; every frame written is judged by Stream!WsWritten (complete, unmasked, minimal length form, one well-formed message).',
   note='Long opaque values are pattern blobs abbreviated as runs (DESIGN.md 2.4); the 32-bit TCP length form cannot be produced by this build '
        '(max PDU 65804) and is exercised only on the parse side (C03/C05). Trusted: TLC, the driver\'s atom projection.'),
 'C03': dict(module='codec', engine='codec', category='model_checking', design_ref='4/C03',
   technique='TLA+ reference decoder (CoapWire!Dec) evaluated by TLC on every input given to the real coap_pdu_parse',
   text='For a catalogue of valid messages every byte position is mutated (high/low nibble to 13/14/15/0/9/12, complement, 0xFF, +-1, byte inserted, '
        'truncation at every length, appended markers) under UDP, TCP and WS framing, plus hand-made boundary inputs (option number overflow, '
        'reserved nibbles, TKL 9-15, non-empty Empty, marker without payload), the per-option length table at min-1/min/max/max+1 and blind random '
        'strings; TLC evaluates the RFC decoder on the logged bytes and requires accept <=> well-formed and accessor dump = reference decoding.',
   note='Three table cells where RFC and libcoap differ (Uri-Query 0, Echo 0, Q-Block > 3) and unknown critical signalling options accept either '
        'verdict (counted in evidence). Stream delimitation (TCP/WS reader) belongs to C05.'),
 'C04': dict(module='codec', engine='codec', category='model_checking', design_ref='4/C04',
   technique='TLA+ spec Pdu (list-edit semantics, TLC closed model) + TLC validation of real edit sequences with forced reallocation',
   text='Insert / update / remove / token replacement are list operations on the abstract message in Pdu; MC_Pdu checks all call sequences over a '
        'boundary alphabet. The real API is driven over every single edit on six starting messages (built and parsed-from-wire, with/without payload, '
        'allocation shrunk to the used size before every edit so that growth must realloc), ladders that make the following option cross the 13/269 '
        'delta thresholds in both directions, all token length class pairs, and random sequences up to 40 edits; after every edit TLC compares the '
        'accessor dump, and the re-encoding and re-parse, with the model.',
   note='ASan/UBSan observe stale-pointer use after realloc; they are not part of the model. Trusted as for C01.'),
 'C16': dict(module='uri', engine='uri', category='model_checking', design_ref='4/C16',
   technique='TLA+ operators for RFC 3986/7252 URI<->option conversion (TLC: left inverse on all small segment lists) + TLC judging every real conversion',
   text='Uri.tla defines SplitUri, PathToSegs/QueryToSegs (split, decode once, dot-segment removal incl. %2e spellings) and the escaping direction; '
        'MC_Uri checks on every list of <= 2-3 segments over a hostile byte alphabet that text->options is a left inverse of options->text (so the '
        'lookup key is injective). The real coap_get_uri_path/coap_get_query output for all those lists (and random ones) is parsed by the RFC operators '
        'and must give the list back and feed back through coap_split_path/query; paths/queries from a grammar of 30 segment spellings and URIs from '
        'scheme x host x port x path x query plus a malformed catalogue are split by the real functions and compared with the model.',
   note='All inputs are exact-size heap copies without terminator under ASan (overread = abort = violation), output buffers of every smaller size are swept. '
        'Latitude cells (DESIGN.md 7.1) are executed but not judged and counted in evidence.'),
 'C18': dict(module='alloc', engine='alloc', category='model_checking', design_ref='4/C18',
   technique='TLA+ spec AllocFault (ledger and ownership rules) + exhaustive enumeration of the failing allocation index over a scenario catalogue on the real code, every run validated by TLC',
   text='The allocator entry points coap_malloc_type / coap_realloc_type / coap_free_type are interposed at link time. For each scenario (context set-up and tear-down, CON/NON '
        'request-response incl. 4.04, Block1 PUT of 3000 bytes, Block2 GET of 3000 bytes, observe register + notify + cancel, URI / optlist / string helpers, async response, OSCORE '
        'exchange) the allocations are counted, then the scenario is run once per allocation index k with exactly that allocation returning NULL. Every allocation and release is logged '
        'with an object number; TLC validates the ledger of each run (no release of an object that is not live, nothing live after tear-down), that a PDU handed to coap_send() is gone '
        'when coap_send() reports failure, that release callbacks ran once per body, and that a canary exchange run afterwards with memory available - on the same endpoints when they '
        'survived - succeeds. A crash or sanitizer report in a run is a violation of that run (the driver restarts after it).',
   note='Allocations inside GnuTLS and libc are not failed. Thorough adds sampled pairs of failing indices.'),
 'C19': dict(module='dtls', engine='dtls', category='model_checking', design_ref='4/C19',
   technique='TLA+ spec Gate (credential match; TLC closed model of the delay-queue gate) + TLC judging real DTLS/PSK client-server executions on the simulated network',
   text='Gate.tla states when PSK credentials let a handshake complete (identity known to the server, equal keys, hint accepted); MC_Gate model-checks the send gate (delay until established, '
        'flush in order, NACK on failure) for matching and mismatching credentials. A real libcoap DTLS client and server (GnuTLS) run on the simulator with requests submitted during the '
        'handshake: keys equal / shorter / longer / prefix / one character off, identities known / unknown / near misses, identity check on and off, hint rejected, session released at '
        'various times, cleartext CoAP injected at the DTLS endpoint from a stranger and from the client address, loss of each early datagram. TLC requires: no request at the server handler '
        'and no response at the client handler unless the configuration matches; no CoAP header in clear on the wire; with a mismatch every queued Confirmable request is reported by exactly '
        'one NACK and not only at context teardown; with a match and no disturbance the queued requests are delivered in order exactly once and answered exactly once.'
        ' Queued requests that carry Observe (library-side state per request) and Non-confirmable ones among the queued; known finding KF_C19_APP_TOKEN_EQUALS_STATE_TOKEN is reported, not failed.',
   note='DTLS/PSK over UDP with GnuTLS only; TLS over TCP and PKI are not exercised; per-server-name (SNI) keys are. Under loss only safety is asserted (GnuTLS retransmission runs on the real clock).'),
 'C20': dict(module='wkc', engine='wkc', category='model_checking', design_ref='4/C20',
   technique='TLA+ operators for RFC 6690 listing/filter/window (TLC) + TLC judging every window, listing and block-wise GET of the real server',
   text='Wkc.tla defines Link, Listing(table, filter) with exact / prefix-* / space-separated-token matching on href, rt, if, rel and attribute values, '
        'Window and the truncation rule; MC_Wkc checks the window algebra. For each generated resource table (0-12 resources, quoted / unquoted / empty / '
        'missing values, observable and OSCORE markers, an application-defined .well-known/core) and filter, the real coap_print_wellknown is called for '
        'EVERY (offset, buffer length) pair up to listing length + 2 into exact-size heap buffers, and the real server answers block-wise GETs for several '
        'SZX on the simulator; TLC requires the unfiltered listing to render exactly the registered set, the filtered one to be Listing(), every window, '
        'total and truncation flag to be exact, and every reassembled body to equal the listing.',
   note='Attribute order within a link is read from the unfiltered listing (RFC 6690 does not fix it). Filters the statement does not define are executed, not judged.'),
 'C10': dict(module='server', engine='server', category='model_checking', design_ref='4/C10',
   technique='TLA+ decision table Server!Decide evaluated by TLC on the RFC decoding of every request injected into the real server',
   text='Server.tla states the reply rules (type/mid/token shape, 4.02 / RST for unknown critical or illegally repeated options, 4.04 / 2.02 / unknown-resource '
        'handler, 4.05, 4.12, 4.15, 5.05, 5.08 / 4.00, invalid code classes, multicast, No-Response) as a function from the abstract request and the resource '
        'table to the SET of allowed outcomes; MC_Server checks it is total and consistent over a feature product. Request datagrams from the feature product '
        '(method x type x path x 6 tables, every option feature singly and in sampled pairs, invalid classes, multicast, random) are injected into a real server '
        'context on the simulator; for each, TLC decodes the raw bytes with CoapWire, evaluates Decide and checks at most one reply, its shape and code, that exactly '
        'the prescribed handler ran once, and that it was given the request\'s options (Hop-Limit decremented), query, payload and token.'
        ' Table 6: handlers that defer their answer (Trace_Server keeps the pending set): repeats of CON / NON requests while pending are acknowledged or ignored but never answered twice, the deferred answer comes once, after release, under the request\'s token, never as an ACK.',
   note='Where two rules apply any applicable outcome passes; library-generated error replies may or may not honour No-Response / multicast suppression. '
        'Proxy forwarding itself, Block/Observe side effects and diagnostic payload text are not constrained.'),
 'C05': dict(module='stream', engine='stream', category='model_checking', design_ref='4/C05',
   technique='TLA+ spec Stream (Messages(stream) vs chunk-fed reader, TLC refinement over all chunkings) + TLC judging the real TCP reader under scripted segmentation',
   text='Stream.tla gives the message sequence as a function of the concatenated bytes (RFC 8323 length forms, RFC 8974 extended token length) and MC_Stream '
        'feeds the three-branch reader with every chunking of a catalogue of streams, checking emitted = Messages(prefix), completeness and bounded buffering. '
        'A real TCP server session (real accept path, wrapped coap_socket_read/write) is then fed streams of 1-6 messages - all four length forms incl. 65805+ bytes, '
        'tokens 0/8/13/20/269/300, ping/pong/empty/CSM/responses/malformed messages, release/abort, declared sizes above the maximum - cut at every 1-cut, sampled '
        '2- and 3-cut placements, one byte per read, empty reads, buffer-size reads and random cuts; TLC requires the delivered requests (token, payload), pongs '
        'and closure to equal Stream!Obs of the stream for every chunking.',
   note='Covers TCP framing (TLS uses the same reader above the TLS layer; arrivals are signalled level- and edge-triggered) and WebSocket, for server sessions (real accept path) and client sessions (real connect): upgrade request / 101 response in several valid spellings with header lines up to and beyond the line buffer, masked resp. unmasked frames of 0..1500 bytes, every cut inside handshake and frames, many small frames in one arrival, frames a CoAP endpoint does not take. Closed models MC_Stream, MC_StreamWS, MC_StreamHttp. Not covered: WSS, fragmented frames; invalid handshakes are judged for robustness only; '
        'declared sizes within 100 bytes of the configured maximum and TKL 15 inside a stream are not generated.'),
 'C14': dict(module='oscore', engine='oscore', category='model_checking', design_ref='4/C14',
   technique='TLA+ spec Oscore (RFC 8613 transcribed: option classes, plaintext, CBOR AAD, nonce, compressed COSE object) + TLC checking every field of real protections recorded at the AEAD seam; systematic tampering',
   text='Oscore.tla transcribes RFC 8613 sections 4.1, 4.2, 5.2-5.4 and 6.1 from the RFC. A real libcoap OSCORE client and server exchange generated messages; coap_crypto_aead_encrypt is '
        'tapped at link time, so for every protection the key, nonce, AAD, plaintext and ciphertext are recorded next to the application\'s original message, the protected datagram and '
        'what the peer\'s handler obtains. Expected sender keys and common IV come from an independent HKDF-SHA-256 (Python). TLC requires: key = derived sender key; plaintext = code || '
        'class E options || payload; AAD = Enc_structure over [1,[10],kid,piv,h\'\']; nonce = (len(id) || id || piv) xor common IV; OSCORE option value = flag byte, partial IV (= sender '
        'sequence number, minimal length), kid context, kid; outer code POST/FETCH resp. 2.04/2.05; only class U options, Observe and the OSCORE option outside; payload on the wire = '
        'ciphertext; the handler obtains exactly the original code, options and payload; responses use the request nonce and name the request kid/piv in the AAD. Every single-bit flip in '
        'the OSCORE option or ciphertext, every truncation and a request protected under another master secret must not reach the handler, and a genuine request must be served afterwards.',
   note='The AES-CCM primitive (GnuTLS) is trusted and compared at the seam. Header / token / class U bytes are outside OSCORE\'s integrity protection. Observe notifications and '
        'Appendix B.1.2 / B.2 exchanges are not covered.'),
 'C15': dict(module='replay', engine='replay', category='model_checking', design_ref='4/C15',
   technique='TLA+ spec Replay (sliding window + sender sequence persistence, TLC invariants) + TLC judging histories run against the real OSCORE recipient/sender',
   text='Replay.tla model-checks accepted-at-most-once, forgeries-change-nothing, genuine-higher-numbers-accepted and no-partial-IV-reuse across crash/restart for all '
        'bounded histories. The real libcoap OSCORE server and client run on the simulator; every protected request is captured so that byte-identical replays and '
        'forgeries (claimed partial IV rewritten, ciphertext bit flipped) can be injected. Histories with gaps {1,2,31,32,33,63,64,65,1000}, replays at every distance '
        'around the window edges, older in-window messages, forged numbers below/at/above/far above the window, client restarts from the saved sequence number at every '
        'point (ssn_freq 1/2/3/10), Appendix B.1.2 on and off, and random histories are executed; TLC judges each step (handler ran or not) and every partial IV on the wire.'
        ' The AEAD seam (ld --wrap coap_crypto_aead_encrypt) logs every protection of either endpoint: a (key, nonce) pair protects one message (requests, responses, Echo challenges).',
   note='Acceptance is observed at the application handler of a full server context. An older, never accepted in-window request may get either verdict. '
        'UBSan reports inside the replay window code (shift >= 64) count as violations of this property.'),
 'C09': dict(module='block', engine='block', category='model_checking', design_ref='4/C09',
   technique='TLA+ spec Block (TLC closed model of Block1/Block2 exchanges over a lossy duplicating channel) + TLC judging every handler call, release and datagram of real client-server transfers',
   text='Block.tla defines block geometry and what an application may obtain (whole body / aligned slice / exact tiling); MC_Block model-checks the exchange as libcoap runs it '
        '(state tokens, Request-Tag, reassembly keyed by Request-Tag, deletion at completion) over all losses, duplications and reorderings within small constants. A real libcoap '
        'client and a real libcoap server then run on the simulator: every body length around the multiples of every block size 16..1024, both directions, single-body and '
        'per-block delivery, CON and NON, block size derived from either side\'s MTU (64..2048), early renegotiation, 64 KiB, two transfers on one session, every single '
        'fault and sampled pairs (drop / duplicate / late) over the first datagrams, full replays and random schedules. TLC judges each server and client handler invocation '
        '(bytes are the sender\'s, whole body once or aligned slices tiling it), the tokens the client handlers see, release callbacks (exactly once per body), the end of each '
        'transfer (success exactly once when undisturbed; error response or NACK when a Confirmable transfer is abandoned) and every datagram (<= session maximum, block carries '
        'exactly the slice its option names, M iff more follows, Size1/Size2 = body length).',
   note='Latitude: in per-block mode an identical block may repeat after loss/duplication (libcoap documents no reassembly and no de-duplication there). Known findings '
        'KF_C09_EVERY_BLOCK_ARRIVED_AGAIN and KF_C09_LEFTOVER_RESPONSE_KEEPS_STATE_TOKEN are reported, not failed. Q-Block (RFC 9177) is not exercised.'),
 'C11': dict(module='observe', engine='observe', category='model_checking', design_ref='4/C11',
   technique='TLA+ spec Observe (TLC closed model of register/change/notify/cancel interleavings) + TLC judging every notification of the real server',
   text='Observe.tla keeps one entry per (client, resource, query) with the last Observe value and the run of NON notifications; MC_Observe explores all '
        'interleavings of register / re-register / cancel / change / notify / reset with the counter starting just below the 24-bit wrap. The real server runs '
        'on the simulator against scripted observers: every cancel cause, re-registration with the same and a new token, 1-4 clients x 1-3 resources with and '
        'without query, bursts of changes between I/O steps, three notification modes, counter wrap, idle periods beyond the session timeout and random '
        'histories. TLC requires every notification to go to a registered observer with its token and a strictly fresher Observe value, at most five NON in a '
        'row, nothing after deregistration, one entry per key, and the last state to reach every observer still registered when the run is quiet.'
        ' Direction A: behaviours generated by TLC from Gen_Observe (the driver\'s commands as actions over Observe) are replayed into the real server; after every command the registered (client, resource) pairs the specification predicts are compared with libcoap\'s subscriber lists. Session loss (TCP) as a cause of deregistration is judged on the session driver.',
   note='Known finding KF_C11_RST_OLD_NOTIFICATION (RST for an older notification) is reported, not failed. Known finding KF_C11_PENDING_CHANGE_REPEATS_REGISTRATION_VALUE likewise. Notifications larger than one block are exercised (32-byte blocks, observer fetching the rest or not); the integrity of the blocks themselves is C09\'s subject.'),
 'C17': dict(module='persist', engine='persist', category='model_checking', design_ref='4/C17',
   technique='TLA+ spec Persist (update protocol with crash points, TLC) + kill at every intercepted stdio/rename call of the real code, restart, TLC judging files and restored state',
   text='MC_Persist model-checks the temp-file + rename update protocol with a crash between any two calls (file is always the complete old or new content; the in-place '
        'variant is rejected). The real server runs histories of dynamic-resource creation/deletion, observe registration/cancellation and notifications with save_freq '
        '1/2/4/10; every stdio and rename call the persistence code makes is intercepted at link time, and for each call index the process is killed once before and once '
        'after that call. The files left behind must equal the content before or after the interrupted operation (taken from an uncrashed reference run), and a process '
        'restarted on them must have exactly the resources and observers of one of those two states and must send Observe values greater than any sent before the kill.',
   note='Kill = process death (kernel buffers survive); power loss / fsync ordering is not modelled. Quick tier samples up to 45 kill indices per history, thorough takes all.'),
 'C12': dict(module='sessions', engine='sessions', category='model_checking', design_ref='4/C12',
   technique='TLA+ spec Sessions (TLC closed model of lookup / holders / reclamation / eviction) + TLC judging session events, allocator events and wire events of a real server with fabricated peers',
   text='Sessions.tla keeps the peer -> session map, the holders of each session (application reference, observer, async entry, queued Confirmable message) and decides for every '
        'deletion whether it had a permitted cause (teardown, idle past the session timeout, oldest idle one at the idle limit); MC_Sessions explores all interleavings of '
        'datagrams from three peers, holders, time and reclamation. The real server runs on the simulator with 1-50 fabricated peers, timeouts 1 s / 5 s / default, idle limits 0-5, '
        'references taken in handlers, observers, async entries, silent peers, RSTs, time jumps just before / at / after each timeout and coap_free_context at every prefix of a '
        'history using every holder. The allocator is interposed at link time: session objects are numbered by it, NEW / DEL events, handler invocations and datagrams must refer to '
        'allocated objects, a peer is always handled by its own session, one NEW and one DEL per session, no deletion while held or before the timeout, nothing idle overdue after an '
        'I/O step, and after teardown the allocator balance is zero with no unknown free.'
        ' Direction A: behaviours generated by TLC from Gen_Sessions (the driver\'s commands as actions over Sessions, clock advancing with every command) are replayed into the real server; after every command the predicted set of peers with a live session is compared with the implementation\'s (Expect).',
   note='Use-after-release inside libcoap itself is observed by ASan (a report fails the check); the spec sees it only when an event names a released object. Client sessions are '
        'covered only through the ledger; stream (TCP) server sessions, their disconnect and the closed-but-held state are covered. The application is assumed to release its own references before freeing the context.'),
 'C13': dict(module='lock', engine='lock', category='model_checking', design_ref='4/C13',
   technique='TLA+ spec Lock (TLC: mutual exclusion, no leak, no deadlock over all interleavings) + trace validation of real multi-threaded runs with link-time mutex taps',
   text='Lock.tla models the global lock protocol (API entry, kept and released callbacks with re-entry, the I/O wait) and TLC checks mutual exclusion, that nothing stays '
        'locked when every thread is outside, count consistency and deadlock freedom for 3 threads at nesting depth 3; the callback macro as it was written in the tree is shown '
        'to violate NoLeak. Real runs: 2-8 worker threads issue send / notify / session create+release / resource add+delete / cache / ping calls on one context while another '
        'thread sits in coap_io_process(), all callback types re-enter the API; pthread_mutex_lock/unlock on the library\'s global mutex are tapped at link time and TLC validates '
        'that every serialised public call held the lock, acquisitions alternate with releases, nothing is held after a top-level call returns and every call returns.',
   note='When coap_threadsafe_is_supported() reports 0 the property is vacuous and the run is counted as such. Only the CMake configuration is built. A rejection or abort '
        'counts only if an immediate re-run repeats it. Known finding KF_C13_ITERATION_ACROSS_RELEASED_CALLBACK is reported, not failed.'),
}
