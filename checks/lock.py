"""C13 -- advertised thread safety: concurrent API use is serialised and never deadlocks.

Model:    spec/Lock.tla (global lock protocol with kept / released callbacks and the I/O wait; TLC: mutual exclusion, no lock
          leak, no deadlock; the as-written callback macro is shown to violate NoLeak)
Binding:  harness/drv_lock.c: 2-8 real threads issue send / notify / session create+release / resource add+delete / cache / ping
          calls on one context while another thread sits in coap_io_process(), every callback type re-enters the API;
          pthread_mutex_lock/unlock are tapped at link time; spec/Trace_Lock.tla validates the recorded event order.
Real threads are not deterministic: a rejection or abort is reported only if an immediate re-run shows it again.
"""
import os, time, json, re
import verif as V

WRAPS = ['pthread_mutex_lock', 'pthread_mutex_unlock', 'pthread_mutex_trylock']
KF_SIG = ('coap_check_notify_lkd', 'coap_delete_resource_lkd')


def one_run(drv, out, name, thr, ms, seed, with_res, keepalive=0, signals=0):
    tr = os.path.join(out, name + '.ndjson')
    if os.path.exists(tr):
        os.unlink(tr)
    rc, o = V.run_driver(drv, [tr, str(thr), str(ms), str(seed), '1' if with_res else '0', str(keepalive), str(signals)], timeout=120)
    res = None
    if os.path.exists(tr) and os.path.getsize(tr) > 0:
        r = V.validate_traces('Trace_Lock', [tr], xmx='6g', timeout=900)[0]
        res = r
    return rc, o, res, tr


def run(pid, tier):
    t0 = time.time()
    out = V.outdir(pid, tier)
    drv = V.link('drv_lock', ['drv_lock.c'], WRAPS)
    mcst = V.mc('Lock', 'MC_Lock.cfg', must_fire=['ApiEnter', 'ApiExit', 'CbEnterKept', 'CbExitKept', 'CbEnterReleased', 'CbExitReleased',
                                                 'IoWaitEnter', 'IoWaitExit'], timeout=1800, xmx='8g')
    if mcst['violated']:
        raise V.Infra('Lock model violated (specification error):\n' + mcst['out'][-2500:])
    neg = V.tlc('Lock', 'MC_Lock_aswritten.cfg', workers=2, deque=False, timeout=600)
    if 'NoLeak is violated' not in neg['out']:
        raise V.Infra('Lock model sanity: the as-written callback macro is NOT rejected by the model')
    # (threads, with resource add/delete, keepalive seconds): the keepalive run lasts long enough for the I/O loop to ping the idle session
    # the 4th element: SIGUSR1 is thrown at the I/O thread every 0.7 ms (its waits return EINTR)
    plan = [(2, 0, 0, 0), (4, 0, 0, 0), (8, 0, 0, 0), (3, 1, 0, 0), (6, 1, 0, 0), (2, 0, 1, 0), (3, 0, 0, 1), (6, 0, 0, 1)] if tier == 'quick' else \
        [(n, w, 0, 0) for n in (2, 3, 4, 5, 6, 7, 8) for w in (0, 0, 1)] + [(n, 0, 1, 0) for n in (2, 5, 8)] + [(n, w, 0, 1) for n in (2, 4, 6, 8) for w in (0, 1)]
    ms = 250 if tier == 'quick' else 1500
    vio_out, known, nval, ncalls, nacq, vac = [], set(), 0, 0, 0, 0
    kf_enabled = any(f['id'] == 'KF_C13_ITERATION_ACROSS_RELEASED_CALLBACK' for f in V.enabled_findings(pid))
    samples = []
    for k, (thr, wres, ka, sg) in enumerate(plan):
        attempts = []
        for att in range(2):
            rc, o, res, tr = one_run(drv, out, 'run-%02d-%d' % (k, att), thr, max(ms, 2400) if ka else ms, V.seed() * 100 + k * 2 + att, wres, ka, sg)
            reps = V.sanitizer_reports(o)
            crash = rc != 0 or any(r[0] == 'asan' for r in reps)
            is_kf = crash and all(s in o for s in KF_SIG) and 'heap-use-after-free' in o
            bad = None
            if res is not None:
                if res['rejected']:
                    bad = res['rejected'][0]['why']
                else:
                    nval += 1
                    ncalls += res.get('calls', 0)
                    nacq += res.get('acquires', 0)
                    vac += res.get('discarded', 0)
                    if len(samples) < 2:
                        samples.append(dict(threads=thr, with_resource_add_delete=bool(wres), calls=res.get('calls'), acquires=res.get('acquires')))
            if crash and is_kf and kf_enabled and wres:
                known.add('KF_C13_ITERATION_ACROSS_RELEASED_CALLBACK')
                if bad is None:
                    break
            elif crash and bad is None:
                bad = 'C13:run-aborted-or-sanitizer-report'
            attempts.append((bad, tr, o[-6000:]))
            if bad is None:
                break
        if len(attempts) == 2 and all(a[0] for a in attempts):
            why = attempts[1][0]
            p = V.save_replay(pid, 'run-%02d.log' % k, 'threads=%d with_resources=%d\n%s\n\n%s' % (thr, wres, why, attempts[1][2]))
            vio_out.append(('%s with %d worker threads (seen in two consecutive runs; trace %s)' % (why, thr, attempts[1][1]), p))
    if nval == 0 and not vio_out:
        raise V.Infra('no multi-threaded run produced a trace')
    kf = [f for f in V.enabled_findings(pid) if f['id'] in known]
    V.write_evidence(pid, tier, 'model_checking', dict(
        states=mcst['distinct'], transitions=mcst['generated'], traces_validated_against_impl=nval,
        samples=samples or [dict(note='no accepted run')], api_calls_validated=ncalls, lock_acquisitions_seen=nacq,
        runs_where_thread_safety_is_not_advertised=vac, model_action_coverage=mcst['action_cov'], known_findings_fired=sorted(known),
        exhaustive=False,
        rule='Lock.tla model-checked for 3 threads, nesting depth 3, every callback style; real runs with 2-8 worker threads plus an I/O thread; '
             'every serialised public call must hold the global lock at some point, lock acquisitions alternate with releases, nothing is held after '
             'a top-level call returns, every call returns (watchdog); a rejection counts only if the immediate re-run rejects too'),
        time.time() - t0, violations=len(vio_out),
        assumptions=['only the CMake configuration of /repo is built (autotools build not exercised in this sandbox)',
                     'data races inside a correctly locked region are not looked for; the lock protocol is what is checked'])
    V.finish(pid, vio_out, ['%s: %s' % (f['id'], f['signature']) for f in kf])
