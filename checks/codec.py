"""C01 / C03 / C04 -- wire codec: builder round trip, decoder exactness, in-place edits.

Model:    spec/CoapWire.tla (RFC 7252/8323/8974 formats), spec/Pdu.tla (builder/editor state machine),
          closed model spec/MC_Pdu.tla (Dec(Enc(m)) = m, order invariants over a small alphabet)
Binding:  harness/drv_codec.c executes generated call sequences / inputs against the real PDU API, logs every
          return value, accessor dump, encoding and parse verdict; spec/Trace_Codec.tla validates each line.
"""
import os, random, itertools, time, json
import concurrent.futures as cfu
import verif as V

# value-length limits per option (min,max); numbers not listed: anything
LIM = {1: (0, 8), 3: (1, 255), 4: (1, 8), 5: (0, 0), 6: (0, 3), 7: (0, 2), 8: (0, 255), 9: (0, 255), 11: (0, 255),
       12: (0, 2), 14: (0, 4), 15: (1, 255), 16: (1, 1), 17: (0, 2), 20: (0, 255), 23: (0, 3), 27: (0, 3), 28: (0, 4),
       35: (1, 1034), 39: (1, 255), 60: (0, 4), 252: (1, 40), 258: (0, 1), 292: (0, 8), 19: (0, 3), 31: (0, 3)}
FREE = [2048, 65000, 65535, 300, 537, 281, 282, 13, 26, 10]   # numbers without a length table entry
LENS = [0, 1, 12, 13, 14, 268, 269, 270, 1034]


def ext(x):
    return 0 if x < 13 else 1 if x < 269 else 2


def legal_len(num, rnd, prefer=None):
    lo, hi = LIM.get(num, (0, 3000))
    c = [x for x in LENS if lo <= x <= hi] or [lo]
    if prefer is not None and lo <= prefer <= hi:
        return prefer
    return rnd.choice(c)


class Gen:
    def __init__(self):
        self.cases, self.n, self.bid = [], 0, 0

    def blob(self):
        self.bid = self.bid % 15000 + 1
        return self.bid

    def case(self, prop, suite, lines, rs=0, lit=None):
        self.n += 1
        self.cases.append((self.n, prop, suite, ['X id=%d prop=%s%s%s' % (self.n, prop, ' rs=1' if rs else '', ' lit=1' if (prop == 'C03' if lit is None else lit) else '')] + lines + ['E']))


def size_of(toklen, opts, plen):
    s = ext(toklen) + toklen
    prev = 0
    for (num, ln) in sorted(opts, key=lambda o: o[0]):
        s += 1 + ext(num - prev) + ext(ln) + ln
        prev = num
    if plen:
        s += 1 + plen
    return s


def suite_c01(g, tier, rnd):
    toks = [0, 1, 8, 12, 13, 14, 268, 269, 270, 4096, 65000, 65804]
    # token x type x code, a fixed small option set, payload boundaries
    for tl in toks:
        for ty in range(4):
            for code in (1, 69, 132, 68):
                if tier == 'quick' and (ty + code + tl) % 3:
                    continue
                for pl in (0, 1, 255, 256, 1024):
                    ls = ['new %d %d %d 0' % (ty, code, rnd.choice((0, 1, 0x1234, 0xffff))), 'tok %d %d' % (tl, g.blob()),
                          'opt 11 3 %d' % g.blob(), 'opt 15 %d %d' % (rnd.choice((1, 13, 255)), g.blob()),
                          'data %d %d' % (pl, g.blob()), 'enc']
                    g.case('C01', 'c01.token-type-code-payload', ls)
    # empty messages
    for ty in range(4):
        g.case('C01', 'c01.empty', ['new %d 0 %d 0' % (ty, 7 + ty), 'enc'])
    # every insertion order of option sets chosen to hit the delta boundaries 12/13, 268/269 and length boundaries
    sets = [[1, 11, 12, 13], [11, 24, 25, 293], [3, 11, 11, 15], [4, 4, 8, 280], [14, 282, 283, 551], [35, 60, 2048, 65535],
            [11, 11, 11, 11], [1, 269, 270, 538], [300, 569, 65000, 65535], [6, 12, 17, 23], [15, 15, 20, 20]]
    for st in sets:
        perms = sorted(set(itertools.permutations(range(4))))
        if tier == 'quick':
            perms = rnd.sample(perms, 8)
        for perm in perms:
            for lensel in (rnd.sample(range(len(LENS)), 3) if tier == 'quick' else range(len(LENS))):
                ls = ['new 0 2 77 0', 'tok %d %d' % (rnd.choice((0, 4, 8)), g.blob())]
                vals = [(st[i], legal_len(st[i], rnd, prefer=LENS[(lensel + i) % len(LENS)]), g.blob()) for i in range(4)]
                for i in perm:
                    ls.append('opt %d %d %d' % vals[i])
                ls += ['data %d %d' % (rnd.choice((0, 5, 300)), g.blob()), 'enc']
                g.case('C01', 'c01.option-order', ls)
    # options added out of order whose own value length sits on an encoding boundary
    for ln in (12, 13, 14, 268, 269, 270):
        for l2 in (0, 13, 269):
            g.case('C01', 'c01.out-of-order-boundary', ['new 0 2 3 0', 'tok 1 %d' % g.blob(), 'opt 2048 %d %d' % (l2, g.blob()),
                                                       'opt 300 %d %d' % (ln, g.blob()), 'opt 11 2 %d' % g.blob(), 'opt 65000 %d %d' % (ln, g.blob()),
                                                       'opt 2048 %d %d' % (ln, g.blob()), 'enc'])
    # big values on both sides of every encoding boundary, incl. the 16-bit length limit region
    for num in (2048, 65535, 300):
        for ln in (12, 13, 14, 268, 269, 270, 1034, 4000, 65000):
            g.case('C01', 'c01.value-length', ['new 1 1 9 0', 'tok 2 %d' % g.blob(), 'opt 11 1 %d' % g.blob(),
                                              'opt %d %d %d' % (num, ln, g.blob()), 'data 3 %d' % g.blob(), 'enc'])
    # all three TCP length forms forced by the total length; max_size exact fit / fit-1 / fit+1
    for total_pl in (0, 5, 6, 7, 260, 261, 262, 263, 65000):
        g.case('C01', 'c01.tcp-length-forms', ['new 0 2 1 0', 'tok 4 %d' % g.blob(), 'opt 11 4 %d' % g.blob(),
                                              'data %d %d' % (total_pl, g.blob()), 'enc'])
    for tl, opts, pl in ((4, [(11, 5), (15, 20)], 30), (0, [(2048, 300)], 0), (13, [(11, 13), (11, 0)], 1), (8, [(35, 40), (12, 1)], 100)):
        # note: Proxy-Uri (35) on a request also inserts Hop-Limit (16, 1 byte) -> account for it
        eff = list(opts) + ([(16, 1)] if any(n in (35, 39) for n, _ in opts) else [])
        fit = size_of(tl, eff, pl)
        for mx in (fit, fit - 1, fit + 1, fit - 3, fit + 3, 64, 1152):
            if mx <= 0:
                continue
            ls = ['new 0 1 5 %d' % mx, 'tok %d %d' % (tl, g.blob())] + ['opt %d %d %d' % (n, l, g.blob()) for n, l in opts]
            ls += ['data %d %d' % (pl, g.blob()), 'enc']
            g.case('C01', 'c01.max-size', ls)
    # refusals: token after an option, option after data, data twice, illegal repetition in and out of order
    g.case('C01', 'c01.refusal', ['new 0 1 5 0', 'opt 11 2 %d' % g.blob(), 'tok 4 %d' % g.blob(), 'enc'])
    g.case('C01', 'c01.refusal', ['new 0 1 5 0', 'tok 4 %d' % g.blob(), 'data 4 %d' % g.blob(), 'opt 11 2 %d' % g.blob(),
                                  'data 3 %d' % g.blob(), 'enc'])
    for tl in (65805, 70000):   # a refused token leaves the (empty / existing) token alone
        g.case('C01', 'c01.refusal', ['new 0 1 5 0', 'tok %d %d' % (tl, g.blob()), 'enc', 'opt 11 2 %d' % g.blob(), 'enc'])
        g.case('C01', 'c01.refusal', ['new 0 1 5 0', 'tok 3 %d' % g.blob(), 'utok %d %d' % (tl, g.blob()), 'enc'])
    for num in (12, 17, 6, 60, 258, 3):
        l1 = legal_len(num, rnd)
        g.case('C01', 'c01.refusal', ['new 0 1 5 0', 'tok 1 %d' % g.blob(), 'opt %d %d %d' % (num, l1, g.blob()),
                                      'opt %d %d %d' % (num, l1, g.blob()), 'opt 2048 3 %d' % g.blob(),
                                      'opt %d %d %d' % (num, l1, g.blob()), 'enc'])
    # proxy options on requests / responses (implicit Hop-Limit)
    for code in (1, 69):
        for first in (35, 39):
            for pre in ([], ['opt 16 1 %d' % g.blob()], ['opt 11 2 %d' % g.blob(), 'opt 2048 1 %d' % g.blob()]):
                g.case('C01', 'c01.hop-limit', ['new 0 %d 5 0' % code, 'tok 2 %d' % g.blob()] + pre +
                       ['opt %d 9 %d' % (first, g.blob()), 'enc'])
    # random long call sequences over the full ranges
    for _ in range(400 if tier == 'quick' else 20000):
        ls = ['new %d %d %d %d' % (rnd.randrange(4), rnd.choice((1, 2, 3, 4, 5, 69, 65, 132, 160)), rnd.randrange(65536),
                                    rnd.choice((0, 0, 0, 256, 1152, 65804)))]
        if rnd.random() < 0.9:
            ls.append('tok %d %d' % (rnd.choice((0, 1, 2, 4, 8, 8, 12, 13, 40, 268, 269, 300, rnd.randrange(0, 2000))), g.blob()))
        used = set()
        for _k in range(rnd.randint(0, 12)):
            num = rnd.choice(list(LIM.keys()) + FREE + [rnd.randrange(0, 65536)])
            if num in (5, 3, 6, 7, 9, 12, 14, 16, 17, 23, 27, 28, 35, 39, 60, 252, 258) and num in used and rnd.random() < 0.8:
                continue
            used.add(num)
            ls.append('opt %d %d %d' % (num, legal_len(num, rnd), g.blob()))
        if rnd.random() < 0.7:
            ls.append('data %d %d' % (rnd.choice((0, 1, 7, 255, 256, 1024, rnd.randrange(0, 3000))), g.blob()))
        ls.append('enc')
        g.case('C01', 'c01.random', ls)


def suite_c04(g, tier, rnd):
    # ladder of numbers whose removal / insertion makes the FOLLOWING option's delta cross 13 and 269 both ways
    ladder = [1, 7, 12, 20, 33, 34, 47, 303, 316, 572, 585, 841, 1110, 1123, 2048, 65000]
    starts = [
        [(1, 1), (12, 1), (25, 2), (281, 0), (550, 3)],
        [(11, 3), (11, 0), (15, 13), (60, 2)],
        [(20, 12), (33, 13), (302, 268), (571, 269)],
        [(7, 2), (2048, 14), (65000, 1), (65535, 0)],
        [(300, 5)],
        [],
    ]
    edits_num = [1, 6, 11, 12, 13, 24, 25, 33, 34, 280, 281, 282, 302, 549, 550, 551, 571, 840, 2048, 3000, 65000, 65535]
    updlens = [0, 1, 12, 13, 14, 268, 269, 270]
    toklens = [0, 1, 8, 12, 13, 268, 269, 270, 65000]

    def start_lines(st, pl, fromwire, tl):
        ls = ['new 0 2 99 0', 'tok %d %d' % (tl, g.blob())] + ['opt %d %d %d' % (n, l, g.blob()) for n, l in st]
        if pl:
            ls.append('data %d %d' % (pl, g.blob()))
        if fromwire:
            ls.append('fromwire')
        return ls
    # E1: every single edit on every start, all four configurations (payload y/n x forced realloc y/n), built / parsed
    for st in starts:
        present = [n for n, _ in st]
        for num in edits_num:
            for kind in ('ins', 'upd', 'rem'):
                if kind == 'rem' and num not in present and rnd.random() < 0.7:
                    continue
                for ln in ([0] if kind == 'rem' else rnd.sample(updlens, 3 if tier == 'quick' else 8)):
                    lo, hi = LIM.get(num, (0, 99999))
                    if kind != 'rem' and not lo <= ln <= hi:
                        continue
                    for pl, rsz, fw in ((0, 0, 0), (9, 1, 0), (300, 1, 1), (1, 0, 1)):
                        if tier == 'quick' and rnd.random() < 0.5:
                            continue
                        ls = start_lines(st, pl, fw, rnd.choice((0, 4, 8)))
                        ls.append('rem %d' % num if kind == 'rem' else '%s %d %d %d' % (kind, num, ln, g.blob()))
                        ls.append('enc')
                        g.case('C04', 'c04.single-edit', ls, rs=rsz)
    # E1b: proxy options on a request that has no Hop-Limit yet (the library adds one itself first): added in order, inserted, updated, on messages whose
    #      highest option is below / at / above Hop-Limit, with and without payload, built and parsed
    for st in ([], [(3, 4)], [(11, 3)], [(3, 4), (11, 2), (15, 3)], [(16, 1)], [(11, 2), (17, 1)], [(3, 2), (35, 9)], [(39, 4)]):
        for num in (35, 39):
            for kind in ('opt', 'ins', 'upd'):
                for pl, rsz, fw in ((0, 0, 0), (9, 1, 0), (30, 1, 1), (1, 0, 1)):
                    ls = start_lines(st, pl, fw, rnd.choice((0, 4, 8)))
                    ls.append('%s %d %d %d' % (kind, num, rnd.choice((1, 9, 20)), g.blob()))
                    ls += ['enc', 'upd %d 5 %d' % (num, g.blob()), 'enc']
                    g.case('C04', 'c04.proxy-options', ls, rs=rsz)
    # E2: remove every option of a ladder one at a time (all six coap_remove_option delta cases), then re-insert
    for trial in range(6 if tier == 'quick' else 60):
        nums = sorted(rnd.sample(ladder, rnd.randint(3, 8)))
        st = [(n, legal_len(n, rnd)) for n in nums]
        order = nums[:]
        rnd.shuffle(order)
        for pl, rsz, fw in ((0, 0, 0), (17, 1, 0), (40, 1, 1)):
            ls = start_lines(st, pl, fw, rnd.choice((0, 2, 8, 13)))
            for n in order:
                ls += ['rem %d' % n, 'enc']
            for n in order:
                ls += ['ins %d %d %d' % (n, legal_len(n, rnd), g.blob()), 'enc']
            g.case('C04', 'c04.ladder', ls, rs=rsz)
    # E3: token replacement among all length classes, with options and payload following
    for a in toklens:
        for b in toklens:
            if tier == 'quick' and (a + b) % 3 == 1:
                continue
            for pl, rsz, fw in ((0, 0, 0), (20, 1, 0), (20, 0, 1)):
                ls = start_lines([(11, 4), (15, 14), (2048, 0)], pl, fw, a) + ['utok %d %d' % (b, g.blob()), 'enc',
                                                                             'upd 11 6 %d' % g.blob(), 'enc']
                g.case('C04', 'c04.token', ls, rs=rsz)
    # E4: random edit sequences up to length 40
    for _ in range(300 if tier == 'quick' else 12000):
        st = [(n, legal_len(n, rnd)) for n in sorted(rnd.sample(ladder + [11, 11, 15, 4, 4], rnd.randint(0, 6)))]
        ls = start_lines(st, rnd.choice((0, 0, 5, 300)), rnd.random() < 0.4, rnd.choice((0, 1, 8, 12, 13, 14, 268, 269, 300)))
        for _k in range(rnd.randint(1, 40)):
            r = rnd.random()
            num = rnd.choice(edits_num + ladder + [n for n, _ in st])
            if r < 0.3:
                ls.append('ins %d %d %d' % (num, legal_len(num, rnd), g.blob()))
            elif r < 0.55:
                ls.append('upd %d %d %d' % (num, legal_len(num, rnd), g.blob()))
            elif r < 0.85:
                ls.append('rem %d' % num)
            else:
                ls.append('utok %d %d' % (rnd.choice(toklens[:-1] + [2, 5, 40, 4000]), g.blob()))
            if rnd.random() < 0.4:
                ls.append('enc')
        ls.append('enc')
        g.case('C04', 'c04.random', ls, rs=rnd.random() < 0.5)


def suite_c03(g, tier, rnd):
    msgs = [
        ['new 0 1 4660 0', 'tok 2 %d', 'opt 11 3 %d', 'opt 11 1 %d', 'opt 15 4 %d', 'data 3 %d'],
        ['new 1 2 1 0', 'tok 0 %d', 'opt 12 1 %d', 'opt 60 2 %d', 'data 1 %d'],
        ['new 2 69 65535 0', 'tok 8 %d', 'opt 4 2 %d', 'opt 14 1 %d', 'opt 2048 13 %d'],
        ['new 0 1 7 0', 'tok 13 %d', 'opt 3 5 %d', 'opt 7 2 %d', 'opt 300 2 %d', 'data 2 %d'],
        ['new 3 0 9 0'],
        ['new 0 4 2 0', 'tok 1 %d', 'opt 1 0 %d', 'opt 5 0 %d', 'opt 6 3 %d', 'opt 16 1 %d', 'opt 258 1 %d'],
        ['new 0 2 3 0', 'tok 4 %d', 'opt 23 1 %d', 'opt 27 3 %d', 'opt 28 4 %d', 'opt 35 9 %d', 'opt 252 8 %d', 'opt 292 8 %d'],
        ['new 0 225 0 0', 'tok 0 %d', 'opt 2 2 %d', 'opt 4 0 %d'],
        ['new 0 1 3 0', 'tok 5 %d', 'opt 65535 1 %d'],
        ['new 0 1 3 0', 'tok 3 %d', 'opt 269 0 %d', 'opt 538 269 %d', 'data 14 %d'],
    ]
    kinds = ['nib', 'trunc', 'app', 'flip', 'ins']
    for mi, m in enumerate(msgs):
        base = [x % g.blob() if '%d' in x else x for x in m]
        for proto in ('udp', 'tcp', 'ws'):
            if m[0].split()[2] == '225' and proto == 'udp':
                continue
            for k in kinds:
                if tier == 'quick' and mi >= 6 and k in ('flip', 'ins'):
                    continue
                g.case('C03', 'c03.mutate-every-field', base + ['sweep %s %s' % (proto, k)])
    # hand-made: option number overflow, reserved nibbles, token length field, per-option limits on both sides
    hexes = ['4001000100e0feff', '4001000100e0feffe0ff00', '40010001d0ffe0fef2', '4001000100f0', '40010001000f',
             '40010001ff', '4001000100ff', '4f010001', '49010001aabbccddeeff001122', '4d01000100' + 'aa' * 13,
             '4e010001000000', '60000001', '6000000100', '61000001aa', '4000', '400100', '', '80010001', 'c0010001',
             '40010001b3616263', '40010001b36162', '40010001bd00' + '61' * 13, '40010001be0000' + '61' * 269,
             '4001000150', '400100015100', '4001000141aa', '40010001490011223344556677', '40010001c0', '40010001c3aabbcc',
             '40010001d20301', '40010001d2030102', '40010001d003', '40010001d103aa', '40010001d203aaaa',
             '40e10001' + '2400', '40010001' + 'd1ef00' + 'd1ef00', '40010001' + 'e1fefe00' + 'e1000100',
             '40010001' + 'e0fefe' + 'e00001', '40010001' + 'e0fefe' + '10' + '10']
    # the running option number reaches the top of the 16-bit range with one long delta, then a SHORT delta (1..12, 13+k) takes it to, or past,
    # 65535: numbers beyond are not CoAP option numbers (they must not wrap into small ones)
    for B in (65523, 65524, 65530, 65534, 65535):
        for d in (1, 2, 5, 11, 12):
            hexes.append('40010001' + 'e0%04x' % (B - 269) + '%x0' % d)
            hexes.append('40010001' + 'b161' + 'e0%04x' % (B - 11 - 269) + '%x1aa' % d)
        hexes.append('40010001' + 'e0%04x' % (B - 269) + 'd000')
        hexes.append('40010001' + 'e0%04x' % (B - 269) + 'd0%02x' % (65535 - B + 1))
    for h in hexes:
        g.case('C03', 'c03.handmade', ['hex udp ' + h])
    for h in ['00', '0001', '1001aa', '01', '1145b1', 'd0', 'd00001', 'd000010000000000000000000000000000', '2001b161',
              '3001b161', '2045ff61', '1045ff', 'e0000001', 'f0000000000001', '0fe1', '0de100' + 'aa' * 13, '00e12400',
              '4001' + 'e0fef2' + '50', '4001' + 'e0fef2' + 'c0', '5001' + 'e0fef2' + 'd000', '4001' + 'e0fef1' + 'c0']:
        g.case('C03', 'c03.handmade', ['hex tcp ' + h])
        g.case('C03', 'c03.handmade', ['hex ws ' + h])
    # per-option length table: every known option at min-1, min, max, max+1
    for num, (lo, hi) in sorted(LIM.items()):
        for ln in sorted(set(x for x in (lo - 1, lo, hi, hi + 1) if x >= 0)):
            g.case('C03', 'c03.option-length-table', ['new 0 1 1 0', 'tok 1 %d' % g.blob(), 'opt %d %d %d' % (num, ln, g.blob()),
                                                    'sweep udp app'])
    # option lengths that need more than 16 bits (65536..65804 can be encoded): a length check done on a truncated value would let
    # an over-long value of a length-limited option through
    for num, (lo, hi) in sorted(LIM.items()):
        if hi >= 3000:
            continue
        for ln in sorted(set((65536 + lo, 65536 + min(hi, 268), 65804))):
            g.case('C03', 'c03.option-length-beyond-16-bits', ['new 0 1 1 70000', 'tok 1 %d' % g.blob(), 'opt %d %d %d' % (num, ln, g.blob()), 'sweep tcp same', 'sweep udp same'], lit=0)
    # blind random strings
    n = 40 if tier == 'quick' else 2000
    for i in range(n):
        g.case('C03', 'c03.blind-random', ['rand %s 200 %d %d' % (rnd.choice(('udp', 'udp', 'tcp', 'ws')), rnd.choice((8, 24, 64)),
                                                              rnd.randrange(1 << 30))])


def run(pid, tier):
    t0 = time.time()
    rnd = random.Random(V.seed() * 104729 + int(pid[1:]))
    out = V.outdir(pid, tier)
    drv = V.link('drv_codec', ['drv_codec.c'])
    mcst = V.mc('MC_Pdu', 'MC_Pdu.cfg' if tier == 'quick' else 'MC_Pdu_thorough.cfg',
                must_fire=['AAddToken', 'AAddOpt', 'AInsOpt', 'AUpdOpt', 'ARemOpt', 'AUpdTok', 'AAddData'], timeout=3000,
                xmx='16g')
    if mcst['violated']:
        raise V.Infra('closed model MC_Pdu violates its invariants (specification error):\n' + mcst['out'][-3000:])
    g = Gen()
    {'C01': suite_c01, 'C03': suite_c03, 'C04': suite_c04}[pid](g, tier, rnd)
    if pid == 'C04':   # edits rely on the builder: a slice of the builder suite runs too (rejections there count for C01 only)
        pass
    nchunk = V.NCPU
    chunks = [[] for _ in range(nchunk)]
    for i, c in enumerate(g.cases):
        chunks[i % nchunk].append(c)
    bycase, jobs = {}, []
    for ci, ch in enumerate(chunks):
        if not ch:
            continue
        cfile = os.path.join(out, 'cases-%02d.txt' % ci)
        with open(cfile, 'w') as f:
            for (cid, prop, suite, ls) in ch:
                bycase[cid] = (suite, ls)
                f.write('\n'.join(ls) + '\n')
        jobs.append((cfile, os.path.join(out, 'trace-%02d.ndjson' % ci), [c[0] for c in ch]))
    crashes = []

    def rundrv(job):
        cfile, tfile, ids = job
        frm, res = 0, []
        for _attempt in range(40):
            rc, o = V.run_driver(drv, [cfile, tfile] + ([str(frm)] if frm else []), timeout=1200)
            reps = V.sanitizer_reports(o)
            if rc == 0 and not reps:
                break
            # attribute to the case being executed: the last Reset line of the trace
            last = None
            try:
                with open(tfile, 'rb') as f:
                    for line in f:
                        if line.startswith(b'{"e":"Reset"'):
                            last = json.loads(line)['id']
                # the driver died in the middle of a line: cut the trace back to its last complete line
                with open(tfile, 'rb') as f:
                    data = f.read()
                keep = data[:data.rfind(b'\n') + 1] if not data.endswith(b'\n') else data
                with open(tfile, 'wb') as f:
                    f.write(keep + b'{"e":"Crash"}\n')
            except Exception:
                pass
            res.append((last, rc, o[-6000:]))
            nxt = [i for i in ids if last is not None and i > last]
            if rc == 0 or not nxt:
                break
            frm = nxt[0]
        return res
    with cfu.ThreadPoolExecutor(max_workers=V.NCPU) as ex:
        for res in ex.map(rundrv, jobs):
            crashes += res
    # vacuity guard: every case must have produced at least one judged event (a command the driver skips silently would make a suite say nothing)
    if not crashes:
        silent = []
        for (_c, tfile, _ids) in jobs:
            cur, n = None, 0
            with open(tfile, 'rb') as f:
                for line in f:
                    if line.startswith(b'{"e":"Reset"'):
                        if cur is not None and n == 0:
                            silent.append(cur)
                        cur, n = json.loads(line)['id'], 0
                    else:
                        n += 1
            if cur is not None and n == 0:
                silent.append(cur)
        if silent:
            raise V.Infra('cases that produced no event at all (driver skipped their commands): %s' % [(c, bycase.get(c, ('?',))[0]) for c in silent[:5]])
    results = V.validate_traces('Trace_Codec', [j[1] for j in jobs], xss='512m', xmx='4g')
    viol, notes, nexec, nops, states, either = [], [], 0, 0, 0, 0
    for r in results:
        nexec += r['executions']
        nops += r.get('ops', 0)
        either += r.get('either', 0)
        states += r['states']
        for rj in r['rejected']:
            tag = rj['why'].split(':')[0]
            suite, ls = bycase.get(rj['id'], ('?', []))
            rec = dict(case=rj['id'], suite=suite, why=rj['why'], line=rj['line'], trace=r['trace'], lines=ls)
            (viol if tag == pid else notes).append(rec)
    vio_out = []
    for rec in viol:
        p = V.save_replay(pid, 'case-%d.txt' % rec['case'], '\n'.join(rec['lines']) + '\n# ' + rec['why'] + '\n')
        vio_out.append(('%s (suite %s, case %d, %s line %d)' % (rec['why'], rec['suite'], rec['case'],
                                                              os.path.basename(rec['trace']), rec['line']), p))
    nws = 0
    if pid == 'C01':
        # the write side of the WebSocket transport: a real server session (drv_stream, wr=1) answers requests whose payload - echoed in the response - makes the
        # responses 100..140, 1000 and 1400 bytes long: every frame the library writes is judged by Stream!WsWritten (minimal length form at the 125/126 switch)
        import stream as S
        wcases, wid = [], 300000
        for lens in ([n for n in range(96, 137)], [0, 1, 121, 122, 123, 996, 1396], [122, 122, 122], [121, 123, 122, 0]):
            for chunks in ([], [1] * 40):
                frames = [S.ws_frame(S.enc_ws(0xe1, b'', [(2, b'\x04\x80')]), rnd)]
                for k, n in enumerate(lens):
                    frames.append(S.ws_frame(S.enc_ws(3, bytes([k & 255]), [(11, b'a')], bytes((i * 7 + n) & 255 for i in range(n))), rnd))
                    if k % 5 == 4:
                        frames.append(S.ws_frame(S.enc_ws(0xe2, bytes([k & 255])), rnd))          # a Ping in between: the Pong is a frame too
                wid += 1
                wcases.append((wid, ['X id=%d max=0 edge=0 ws=1 http=%d role=0 hostile=0 wr=1' % (wid, len(S.HTTP_UPGRADE)),
                                     'S ' + (S.HTTP_UPGRADE + b''.join(frames)).hex(), 'C ' + ' '.join(str(c) for c in chunks), 'E']))
        wout = os.path.join(out, 'wswrite')
        os.makedirs(wout, exist_ok=True)
        sdrv = V.link('drv_stream', ['drv_stream.c', 'simnet.c'], V.SIM_WRAPS + ['coap_socket_read', 'coap_socket_write'])
        wvio, nws, _k, _r = V.drive_and_validate(pid, sdrv, wcases, wout, 'Trace_Stream', xss='512m', xmx='3g', nfiles=4)
        vio_out += [('WebSocket write side: ' + t, p_) for (t, p_) in wvio]
    infra = [n for n in notes if n['why'].startswith('HARNESS')]
    if infra:
        raise V.Infra('harness/model disagreement that is not a verdict: %s' % infra[:3])
    bysuite = {}
    for (_, _p, s, _l) in g.cases:
        bysuite[s] = bysuite.get(s, 0) + 1
    V.write_evidence(pid, tier, 'model_checking', dict(
        states=mcst['distinct'], transitions=mcst['generated'], traces_validated_against_impl=nexec,
        samples=[dict(suite=s, case=ls) for (_, _p, s, ls) in (g.cases[:1] + g.cases[-1:])],
        model_action_coverage=mcst['action_cov'], calls_and_inputs_validated=nops, trace_states=states,
        cases_per_suite=bysuite, websocket_write_side_sessions=nws, inputs_in_latitude_cells=either, crashes=len(crashes),
        rejected_for_this_property=len(viol), rejected_tagged_for_other_properties=[dict(case=n['case'], why=n['why']) for n in notes[:30]],
        exhaustive=False,
        rule='MC_Pdu: all builder/editor call sequences over a boundary alphabet, Dec(Enc(m))=m for all three framings in every '
             'state; code binding: every generated call sequence / input is executed by the real PDU API and each logged call, '
             'encoding (byte exact, atoms) and parse verdict is validated by TLC against Pdu/CoapWire'),
        time.time() - t0, violations=len(vio_out),
        assumptions=['TLC and the driver\'s atom projection are trusted', 'pattern blobs stand for arbitrary opaque values',
                     'memory errors are only observed (ASan/UBSan build), not decided'])
    for (last, rc, o) in crashes:
        path = V.save_replay(pid, 'crash-case-%s.log' % last, o)
        vio_out.append(('driver aborted / sanitizer report while executing case %s (rc=%d)' % (last, rc), path))
    V.finish(pid, vio_out, [])
