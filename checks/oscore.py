"""C14 -- OSCORE protection round-trips, matches RFC 8613, and any tampering is rejected.

Model:    spec/Oscore.tla: RFC 8613 transcribed (class E / class U option split, plaintext, CBOR AAD, nonce, compressed COSE object in
          the OSCORE option, outer code)
Binding:  harness/drv_oscore.c: a real libcoap OSCORE client and server; the AEAD primitive is tapped at link time, so key, nonce,
          AAD, plaintext and ciphertext of every protection are recorded next to the application's message, the datagram and what the
          peer's handler obtains; expected keys / common IV come from an independent HKDF-SHA256 in this file; spec/Trace_Oscore.tla
          checks every field; every bit flip / truncation of a protected request and a foreign context must not reach the handler.
"""
import hmac, hashlib, json, os, random, time
import verif as V


def cbor_bstr(b):
    n = len(b)
    return (bytes([0x40 + n]) if n < 24 else bytes([0x58, n])) + b


def hkdf(salt, ikm, info, L):
    prk = hmac.new(salt if salt else b'\x00' * 32, ikm, hashlib.sha256).digest()
    okm, t, i = b'', b'', 1
    while len(okm) < L:
        t = hmac.new(prk, t + info + bytes([i]), hashlib.sha256).digest()
        okm += t
        i += 1
    return okm[:L]


def derive(secret, salt, ident, idctx, typ, L):
    # RFC 8613 section 3.2.1: info = [id, id_context, alg_aead, type, L]
    info = bytes([0x85]) + cbor_bstr(ident) + (cbor_bstr(idctx) if idctx is not None else b'\xf6') + bytes([0x0a]) + \
        bytes([0x60 + len(typ)]) + typ.encode() + bytes([L])
    return hkdf(salt, secret, info, L)


def add_keys(trace):
    out = []
    for line in open(trace):
        out.append(line)
        if line.startswith('{"e":"Reset"'):
            e = json.loads(line)
            sec, salt = bytes(e['secretb']), (bytes(e['saltb']) if e['hassalt'] else b'')
            idctx = bytes(e['idctxb']) if e['hasidctx'] else None
            ck = derive(sec, salt, bytes(e['sidb']), idctx, 'Key', 16)
            sk = derive(sec, salt, bytes(e['ridb']), idctx, 'Key', 16)
            iv = derive(sec, salt, b'', idctx, 'IV', 13)
            out.append(json.dumps(dict(e='Keys', ckey=list(ck), skey=list(sk), iv=list(iv))) + '\n')
    with open(trace, 'w') as f:
        f.writelines(out)


REQ_OPTS = [(1, b'\x01\x02'), (3, b'host.example'), (4, b'\xaa'), (5, b''), (7, b'\x16\x33'), (11, b'a'), (11, b'longer-path-segment'), (12, b'\x2a'),
            (15, b'x=1'), (15, b'y'), (17, b'\x3c'), (60, b'\x10'), (252, b'\x01\x02\x03\x04'), (292, b'\x07'), (65000, b'zz')]
RESP_OPTS = [(4, b'\x01\x02\x03'), (8, b'loc'), (12, b'\x00'), (14, b'\x3c'), (28, b'\x20'), (65000, b'q')]


def optstr(opts):
    return ','.join('%d:%s' % (n, v.hex()) for n, v in sorted(opts, key=lambda o: o[0])) or '-'


def gen(tier, rnd):
    cases = []
    cid = [0]
    thorough = tier == 'thorough'
    ids = [b'', b'\x01', b'\xab\xcd', b'\x01\x02\x03', b'\x00\x00\x00\x00', b'\x05' * 5, b'\x06' * 6, b'\x07' * 7]
    ctxs = []
    for s in ids:
        for r in ids:
            if s != r:
                ctxs.append((s, r))
    rnd.shuffle(ctxs)
    ctxs = ctxs if thorough else ctxs[:14]
    seqs = [0, 1, 23, 24, 255, 256, 65535, 65536, 16777215, 16777216, 4294967295, 4294967296, 1099511627773, 1099511627774]
    for k, (s, r) in enumerate(ctxs):
        cid[0] += 1
        idctx = rnd.choice(('-', '37cbf3210017a2d3', 'aa'))
        salt = rnd.choice(('-', '9e7ca92223786340', '00'))
        secret = rnd.choice(('0102030405060708090a0b0c0d0e0f10', 'ffeeddccbbaa99887766554433221100aabbccdd'))
        ls = ['X id=%d sid=%s rid=%s idctx=%s salt=%s secret=%s' % (cid[0], s.hex() or '-', r.hex() or '-', idctx, salt, secret)]
        myseqs = sorted(rnd.sample(seqs[:-2], rnd.randint(3, 6))) if k % 2 == 0 else []
        nmsg = 10 if thorough else 6
        if k % 4 == 0:
            myseqs = (myseqs + [-1] * nmsg)[:nmsg - 1] + [seqs[-1] if k % 8 == 0 else seqs[-2]]     # 2^40-3 / 2^40-2 only as the very last message: the context is exhausted after it
        with_t = thorough or k % 3 == 0
        if with_t:
            myseqs = [-1] * (nmsg - 1) + myseqs[-1:] if (k % 4 == 0) else []      # the tamper loop uses up sequence numbers: no explicit small ones afterwards
        for j in range(nmsg):
            method = rnd.choice((1, 2, 3, 4, 5, 6, 7)) if j != 1 else rnd.choice((1, 2, 3, 4))     # the tampered request is one the handler serves
            ro = rnd.sample(REQ_OPTS, rnd.randint(0, 6))
            if not any(n == 11 for n, _ in ro):
                ro.append((11, b'r'))
            if method == 1 and rnd.random() < 0.25:
                ro.append((6, b''))
            if rnd.random() < 0.15:
                ro.append((23, b'\x06'))
            rpl = bytes(rnd.randrange(256) for _ in range(rnd.choice((0, 0, 1, 7, 16, 64, 200, 900)))) if method not in (1, 4) else b''
            code = rnd.choice((65, 66, 67, 68, 69, 128, 132, 133, 160))
            po = rnd.sample(RESP_OPTS, rnd.randint(0, 3))
            ppl = bytes(rnd.randrange(256) for _ in range(rnd.choice((0, 1, 5, 32, 300, 900))))
            seq = myseqs[j] if j < len(myseqs) else -1
            ls.append('M %d %d %s %s %d %s %s' % (method, seq, optstr(ro), rpl.hex() or '-', code, optstr(po), ppl.hex() or '-'))
            if j == 1 and with_t:
                ls.append('T %d' % (1 if thorough or k == 0 else 3))
        if k % 4 != 0:
            ls.append('O %d' % rnd.choice((1, 2, 3)))          # observe: registration, notifications (own partial IV), cancel under the same token
        ls.append('E')
        cases.append((cid[0], ls))
    return cases


def run(pid, tier):
    t0 = time.time()
    rnd = random.Random(V.seed() * 32452843 + 14)
    out = V.outdir(pid, tier)
    drv = V.link('drv_oscore', ['drv_oscore.c', 'simnet.c'], V.SIM_WRAPS + ['coap_crypto_aead_encrypt'])
    cases = gen(tier, rnd)
    import concurrent.futures as cfu
    jobs = []
    for ci in range(V.NCPU):
        ch = cases[ci::V.NCPU]
        if not ch:
            continue
        cf_ = os.path.join(out, 'cases-%02d.txt' % ci)
        with open(cf_, 'w') as f:
            for _, ls in ch:
                f.write('\n'.join(ls) + '\n')
        jobs.append((cf_, os.path.join(out, 'trace-%02d.ndjson' % ci)))
    crashes = []

    def rundrv(j):
        rc, o = V.run_driver(drv, [j[0], j[1]], timeout=400 if tier == 'quick' else 3000)
        return j, rc, o
    with cfu.ThreadPoolExecutor(max_workers=V.NCPU) as ex:
        for j, rc, o in ex.map(rundrv, jobs):
            if rc != 0 or V.sanitizer_reports(o):
                crashes.append((j, rc, o[-8000:]))
                data = open(j[1], 'rb').read() if os.path.exists(j[1]) else b''
                if not data.endswith(b'\n'):
                    data = data[:data.rfind(b'\n') + 1]
                with open(j[1], 'wb') as f:
                    f.write(data + b'{"e":"Crash"}\n')
            add_keys(j[1])                      # expected keys from the independent HKDF
    results = V.validate_traces('Trace_Oscore', [j[1] for j in jobs], xmx='6g', xss='512m')
    bycase = dict(cases)
    vio_out, nexec, nx, nt = [], 0, 0, 0
    for r in results:
        nexec += r['executions']
        nx += r.get('exchanges', 0)
        nt += r.get('tampered', 0)
        for rj in r['rejected']:
            p = V.save_replay(pid, 'case-%d.txt' % rj['id'], '\n'.join(bycase.get(rj['id'], [])) + '\n# ' + rj['why'] + '\n')
            vio_out.append(('%s (case %d, %s line %d)' % (rj['why'], rj['id'], os.path.basename(r['trace']), rj['line']), p))
    for (j, rc, o) in crashes:
        p = V.save_replay(pid, 'crash-%s.log' % os.path.basename(j[0]), o)
        vio_out.append(('driver aborted / sanitizer report (rc=%d) on %s' % (rc, j[0]), p))
    if (nx == 0 or nt == 0) and not vio_out:
        raise V.Infra('vacuous: %d exchanges verified, %d tampered datagrams' % (nx, nt))
    V.write_evidence(pid, tier, 'model_checking', dict(
        states=sum(r.get('states', 0) for r in results), transitions=sum(r.get('generated', 0) for r in results),
        traces_validated_against_impl=nexec, exchanges_verified_field_by_field=nx, tampered_datagrams=nt, samples=[cases[0][1][:3]], exhaustive=False,
        rule='(states / transitions: TLC states of the trace validation runs; Oscore.tla consists of pure operators, there is no closed model) '
             'sender / recipient ids of 0..7 bytes, id context and master salt present and absent, two master secrets; all seven request methods, nine response codes, '
             '0-7 options out of 15 request-side and 6 response-side ones (class E, class U, Observe, Block2, Size1, No-Response, Echo, Request-Tag, unknown), payload 0..900 bytes; '
             'partial IVs 0 .. 2^40-2 at every encoded length; observe registration, notifications with their own partial IV, cancellation under the same token; every (quick: every third) single-bit flip and every truncation of a protected request, a request under another '
             'master secret, then a genuine request'),
        time.time() - t0, violations=len(vio_out),
        assumptions=['the AEAD primitive (GnuTLS AES-CCM) is trusted: its inputs and output are compared at the seam, not recomputed',
                     'AES-CCM-16-64-128 / HKDF-SHA-256 only; no Appendix B.1.2 / B.2 exchanges',
                     'header and token bytes and class U options are not integrity protected by OSCORE: modifications there may be accepted'])
    V.finish(pid, vio_out, [])
