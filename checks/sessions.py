"""C12 -- sessions map 1:1 to peers, live while referenced; everything is released.

Model:    spec/Sessions.tla (peer -> session map, holders, permitted causes of deletion, the reclamation obligation) +
          spec/MC_Sessions.tla (closed model: all interleavings of datagrams from 3 peers, holders coming and going, time, the
          I/O step's reclamation, eviction at the idle limit)
Binding:  harness/drv_sess.c: a real server on the simulator, fabricated peers (any source port), application references,
          observers, async entries, queued Confirmable messages, RSTs, time jumps across every timeout, coap_free_context at
          every prefix; coap_malloc_type / coap_realloc_type / coap_free_type are interposed at link time (session objects are
          numbered by the allocator, the balance is reported after teardown); spec/Trace_Sessions.tla judges every event.
"""
import random, time, os
import verif as V

WRAPS = V.SIM_WRAPS + ['coap_malloc_type', 'coap_realloc_type', 'coap_free_type', 'coap_socket_read', 'coap_socket_write']


def obs_loss(case, to):
    """session loss as the end of observations (a clause of C11, judged on the session driver): one, two, three observations of the same
    resource on a connection that then goes away; further changes of the resource afterwards"""
    T = to * 1000
    case(['T 0', 't 0 o', 't 0 q', 'N', 'I 50', 'D 0', 'I 100', 'N', 'I %d' % (2 * T)], to, tcp=1)
    case(['T 0', 't 0 q', 't 0 o', 'D 0', 'I 10', 'N', 'N', 'I %d' % (2 * T), 'F'], to, tcp=1)
    case(['T 0', 'T 1', 't 0 o', 't 1 o', 't 1 q', 't 0 q', 'N', 'D 1', 'I 10', 'N', 'I 50', 'D 0', 'I 10', 'N', 'I %d' % (2 * T)], to, tcp=1)
    case(['T 0', 't 0 o', 't 0 q', 't 0 o', 'N', 'O 1', 'D 0', 'I 10', 'N', 'o 1', 'I %d' % (2 * T)], to, tcp=1)
    case(['T 0', 't 0 o hold', 't 0 q', 'D 0', 'I 10', 'N', 'I %d' % T, 'U 56', 'I 10', 'I %d' % T], to, tcp=1)


def gen(tier, rnd):
    cases = []
    cid = [0]

    def case(ops, timeout=0, maxidle=0, tcp=0):
        cid[0] += 1
        cases.append((cid[0], ['X id=%d timeout=%d maxidle=%d tcp=%d' % (cid[0], timeout, maxidle, tcp)] + list(ops) + ['E']))
    thorough = tier == 'thorough'
    # 1. n distinct peers, then silence beyond the timeout; then the same peers again (new sessions)
    for n in (1, 2, 3, 7, 20, 50):
        for to in (1, 5, 0):
            T = (to or 300) * 1000
            ops = ['%s %d' % (rnd.choice('RC'), p) for p in range(1, n + 1)]
            case(ops + ['I %d' % (T - 500), 'I 400', 'I 200', 'I %d' % T] + ops + ['I %d' % (2 * T)], to)
            case(ops + ops + ['I 10'] + ops + ['I %d' % (T + 1)], to)
    # 2. holders across the timeout
    base = ['R 1', 'R 2 hold', 'C 3', 'O 4', 'A 5', 'R 6 hold', 'Q 6', 'S 6', 'I 12000', 'N', 'I 100', 'a 5', 'U 2', 'I 11000', 'K 4', 'I 11000',
            'U 6', 'I 100000', 'R 1', 'O 1', 'N', 'Q 1', 'N', 'N', 'N', 'N', 'N', 'N', 'I 200000']
    case(base, 10)
    # re-registration of the same observation under a new token, then cancel: the session must go idle and be reclaimed
    for to in (1, 10):
        case(['O 1', 'P 1', 'I 100', 'p 1', 'I %d' % (to * 1000 + 500), 'I 1000', 'R 1', 'I %d' % (to * 2000)], to)
        case(['O 1', 'N', 'P 1', 'N', 'P 1', 'O 1', 'N', 'K 1', 'I %d' % (to * 1000 + 500), 'I 1000'], to)
        case(['O 1', 'O 2', 'P 1', 'P 2', 'p 2', 'o 1', 'p 1', 'I %d' % (to * 3000), 'N', 'F'], to)
    case(base, 1)
    case(base, 0)
    case(base, 10, 2)
    # ... and teardown at every prefix of that history
    for k in range(1, len(base) + 1):
        case(base[:k] + ['F'], 10)
        if thorough or k % 3 == 0:
            case(base[:k] + ['F'], 1, 2)
    # 3. the idle limit: who is evicted
    for mi in (1, 2, 3, 5):
        ops = []
        for p in range(1, 9):
            ops += ['R %d' % p, 'I %d' % rnd.choice((1, 50, 700))]
        case(ops, 300, mi)
        case(['R 1 hold', 'I 10', 'R 2', 'I 10', 'R 3 hold', 'I 10', 'R 4', 'I 10', 'R 5', 'I 10', 'R 6', 'U 1', 'I 10', 'R 7', 'I 10', 'R 2', 'I 10', 'R 8',
              'I 10', 'U 3', 'R 9', 'R 10', 'R 11'], 300, mi)
        case(['O 1', 'I 10', 'R 2', 'I 10', 'A 3', 'I 10', 'R 4', 'I 10', 'R 5', 'I 10', 'a 3', 'I 10', 'R 6', 'R 7', 'K 1', 'R 8', 'R 9', 'o 1', 'R 10'], 300, mi)
    # 3a. a block-wise transfer hanging off a session: served to the end, abandoned, asked for with an ETag that is not the body's; reclamation and teardown
    for to in (1, 10):
        T = to * 1000
        case(['B 1'] + ['b 1 %d' % k for k in range(1, 13)] + ['I %d' % (2 * T)], to)
        case(['B 1', 'b 1 1', 'b 1 2', 'I %d' % (2 * T), 'B 1', 'F'], to)
        case(['B 1', 'e 1 1', 'e 1 2', 'e 1 1', 'b 1 1', 'I 100', 'e 1 3', 'I %d' % (2 * T)], to)
        case(['B 1', 'B 2', 'e 1 1', 'b 2 1', 'e 2 2', 'R 3', 'F'], to)
        case(['B 1 ', 'b 1 5', 'b 1 3', 'b 1 99', 'e 1 99', 'I %d' % (400000)], to)
    # 2b. the peer rejects a (Non-confirmable) notification with a Reset while the session has OTHER holders as well: only the observation goes
    for to in (1, 10):
        T = to * 1000
        case(['R 1 hold', 'O 1', 'N', 'I 10', 'K 1', 'I %d' % (2 * T), 'S 1', 'I 100', 'U 1', 'I 100', 'I %d' % (2 * T)], to)
        case(['A 1', 'O 1', 'N', 'I 10', 'K 1', 'I %d' % (2 * T), 'a 1', 'I 100', 'I %d' % (2 * T)], to)
        case(['O 1', 'R 1 hold', 'N', 'N', 'K 1', 'N', 'I %d' % (3 * T), 'R 1', 'U 1', 'I %d' % (2 * T)], to)
        case(['O 1', 'O 2', 'R 2 hold', 'A 1', 'N', 'K 2', 'K 1', 'I %d' % (2 * T), 'a 1', 'U 2', 'I %d' % (2 * T)], to, 1)
    # 3b. stream sessions (TCP): connect, requests, holders, the peer disconnects (state NONE), reclamation once nothing refers to the session
    for to in (1, 10):
        T = to * 1000
        case(['T 0', 't 0 r', 'I 100', 'D 0', 'I 100', 'I %d' % (2 * T)], to, tcp=1)                       # closed and unreferenced: goes at once
        case(['T 0', 't 0 r', 'I %d' % (T + 500), 'I 100', 'T 1', 't 1 r', 'I %d' % (3 * T)], to, tcp=1)   # idle beyond the timeout
        case(['T 0', 't 0 a', 'I 50', 'D 0', 'I 100', 'I %d' % (2 * T), 'a 56', 'I 100', 'I %d' % T], to, tcp=1)      # parked request holds the closed session
        case(['T 0', 't 0 r hold', 'D 0', 'I %d' % (2 * T), 'S 56', 'I 100', 'U 56', 'I 100', 'I %d' % T], to, tcp=1)  # application reference holds it
        case(['T 0', 't 0 o', 'N', 'I 50', 'N', 'D 0', 'I 100', 'N', 'I %d' % (2 * T)], to, tcp=1)          # observer entry goes with the connection
        obs_loss(case, to)
        case(['T 0', 'T 1', 'T 2', 't 0 r', 't 1 a', 't 2 o', 'R 1', 'O 2', 'A 3', 'D 1', 'D 2', 'I 100', 'N', 'a 57', 'a 3', 'I %d' % (2 * T), 'D 0', 'I 10'], to, tcp=1)
        case(['T 0', 't 0 b', 'I 50', 'D 0', 'I 100', 'I %d' % (2 * T)], to, tcp=1)                        # a pending block-wise response when the peer goes
        case(['T 0', 't 0 b hold', 'D 0', 'I 100', 'U 56', 'I %d' % T, 'F'], to, tcp=1)
        case(['T 0', 'T 1', 't 0 b', 't 1 b', 't 0 a', 'D 0', 'D 1', 'I 10', 'a 56', 'I %d' % (2 * T)], to, tcp=1)
        tbase = ['T 0', 't 0 a', 'T 1', 't 1 r hold', 'R 1 hold', 'D 0', 'I 200', 'D 1', 'I %d' % (T + 100), 'a 56', 'U 57', 'I 100', 'U 1', 'I %d' % (2 * T)]
        for k in range(1, len(tbase) + 1):
            case(tbase[:k] + ['F'], to, tcp=1)
        case(tbase, to, 1, tcp=1)
    for _ in range(5000 if thorough else 60):
        to = rnd.choice((1, 2, 10))
        T = to * 1000
        ops, conn, heldp = [], set(), set()
        for _k in range(rnd.randint(4, 24)):
            r = rnd.random()
            k = rnd.randrange(3)
            if r < 0.15 and k not in conn:
                ops.append('T %d' % k); conn.add(k)
            elif r < 0.40 and k in conn:
                h = rnd.random() < 0.3 and (56 + k) not in heldp
                ops.append('t %d %s%s' % (k, rnd.choice('rraoqb'), ' hold' if h else ''))
                if h:
                    heldp.add(56 + k)
            elif r < 0.52 and conn:
                q = rnd.choice(sorted(conn)); conn.discard(q)
                ops.append('D %d' % q)
            elif r < 0.60:
                ops.append('a %d' % (56 + k))
            elif r < 0.68 and heldp:
                q = rnd.choice(sorted(heldp)); heldp.discard(q)
                ops.append('U %d' % q)
            elif r < 0.72 and heldp:
                ops.append('S %d' % rnd.choice(sorted(heldp)))
            elif r < 0.78:
                ops.append('N')
            elif r < 0.84:
                ops.append('%s %d' % (rnd.choice('RCOA'), rnd.randint(1, 3)))
            else:
                ops.append('I %d' % rnd.choice((1, 10, 500, T - 1, T + 1, 2 * T)))
        if rnd.random() < 0.4:
            ops.append('F')
        case(ops, to, rnd.choice((0, 0, 2)), tcp=1)
    # 4. random histories
    for _ in range(10000 if thorough else 120):
        to = rnd.choice((1, 2, 10, 0))
        T = (to or 300) * 1000
        mi = rnd.choice((0, 0, 1, 2, 3))
        npeer = rnd.randint(1, 6)
        ops, heldp = [], set()
        for _k in range(rnd.randint(3, 30)):
            p = rnd.randint(1, npeer)
            r = rnd.random()
            if r < 0.22:
                h = rnd.random() < 0.3 and p not in heldp
                ops.append('%s %d%s' % (rnd.choice('RC'), p, ' hold' if h else ''))
                if h:
                    heldp.add(p)
            elif r < 0.27:
                ops.append('O %d' % p)
            elif r < 0.30:
                ops.append('P %d' % p)
            elif r < 0.34:
                ops.append('%s %d' % (rnd.choice('op'), p))
            elif r < 0.37:
                ops.append(rnd.choice(('B %d' % p, 'b %d %d' % (p, rnd.randint(1, 13)), 'e %d %d' % (p, rnd.randint(0, 13)))))
            elif r < 0.40:
                ops.append('A %d' % p)
            elif r < 0.46:
                ops.append('a %d' % p)
            elif r < 0.54 and heldp:
                q = rnd.choice(sorted(heldp)); heldp.discard(q)
                ops.append('U %d' % q)
            elif r < 0.60 and heldp:
                ops.append('S %d' % rnd.choice(sorted(heldp)))
            elif r < 0.64:
                ops.append('Q %d' % p)
            elif r < 0.72:
                ops.append('N')
            elif r < 0.76:
                ops.append('K %d' % p)
            else:
                ops.append('I %d' % rnd.choice((1, 10, 500, T - 1, T, T + 1, 2 * T, 100000, 300000)))
        if rnd.random() < 0.4:
            ops.append('F')
        case(ops, to, mi)
    return cases


def tlc_behaviours(tier, out):
    """Direction A: behaviours generated by TLC from spec/Gen_Sessions.tla (simulation mode), turned into cases of the driver.  Every command is
    followed by `Z <peers>`: the peers that have a live session then, according to the specification."""
    import json, re
    cases, nbeh, seen = [], 0, set()
    for cfg, maxidle in (('Gen_Sessions.cfg', 2), ('Gen_Sessions_noidle.cfg', 0)):
        num = 150 if tier == 'quick' else 6000
        st = V.tlc('Gen_Sessions', cfg, workers=4, extra=['-simulate', 'num=%d' % num, '-depth', '16', '-seed', str(V.seed() * 31 + maxidle)],
                   timeout=900, xmx='4g', deque=False)
        if 'is violated' in st['out'] or 'Error:' in st['out']:
            raise V.Infra('Gen_Sessions: the behaviour generator violates what Sessions promises (specification error):\n' + st['out'][-2500:])
        for m in re.finditer(r'^<<"BEH", "(.*)">>$', st['out'], re.M):
            beh = json.loads(m.group(1).replace('\\"', '"'))
            key = (maxidle, json.dumps(beh))
            if key in seen:
                continue
            seen.add(key)
            nbeh += 1
            ops = []
            for a in beh:
                c, p = a['c'], a['p']
                ops.append({'R': 'R %d' % p, 'Rh': 'R %d hold' % p, 'U': 'U %d' % p, 'O': 'O %d' % p, 'o': 'o %d' % p, 'T': 'T 0', 't': 't 0 r',
                            'th': 't 0 r hold', 'D': 'D 0', 'I': 'I 1000'}[c])
                ops.append('Z ' + ' '.join(str(x) for x in sorted(a['live'])))
            cases.append((100000 + nbeh, ['X id=%d timeout=2 maxidle=%d tcp=1' % (100000 + nbeh, maxidle)] + ops + ['E']))
    if nbeh < 50:
        raise V.Infra('Gen_Sessions produced %d behaviours only' % nbeh)
    return cases


def run(pid, tier):
    t0 = time.time()
    rnd = random.Random(V.seed() * 7919 + 12)
    out = V.outdir(pid, tier)
    drv = V.link('drv_sess', ['drv_sess.c', 'simnet.c'], WRAPS)
    mcst = V.mc('MC_Sessions', 'MC_Sessions.cfg', must_fire=['ARx', 'AHold', 'AUnhold', 'ATick', 'AReclaim', 'ADisconnect'], workers=V.NCPU, timeout=1200, xmx='12g')
    if mcst['violated']:
        raise V.Infra('MC_Sessions violated (specification error):\n' + mcst['out'][-2500:])
    lv = V.mc('MC_Sessions', 'MC_Sessions_live.cfg', must_fire=['AReclaim'], workers=4, timeout=600)
    if lv['violated']:
        raise V.Infra('MC_Sessions liveness violated (specification error):\n' + lv['out'][-2500:])
    cases = gen(tier, rnd)
    gcases = tlc_behaviours(tier, out)
    cases += gcases
    vio_out, nexec, known, results = V.drive_and_validate(pid, drv, cases, out, 'Trace_Sessions', xmx='4g')
    V.write_evidence(pid, tier, 'model_checking', dict(
        states=mcst['distinct'], transitions=mcst['generated'], model_action_coverage=mcst['action_cov'], traces_validated_against_impl=nexec,
        session_deletions_judged=sum(r.get('deletions', 0) for r in results), behaviours_generated_by_tlc_and_replayed=len(gcases), samples=[cases[0][1], cases[-1][1]], exhaustive=False,
        rule='1-50 fabricated peers, session timeouts 1 s / 5 s / default, idle limits 0-5, application references, observers, async entries, '
             'Confirmable messages to silent peers, RSTs, time jumps just before / at / after every timeout, coap_free_context at every prefix of a '
             'history that uses every kind of holder, random histories; allocator balance after every teardown; behaviours generated by TLC from Gen_Sessions '
             '(the driver\'s commands as actions over Sessions) replayed into the real server, the predicted set of live sessions compared after every command'),
        time.time() - t0, violations=len(vio_out),
        assumptions=['the application releases the references it took before it frees the context (the driver does)',
                     'only the dedicated driver is validated; the traces of C06-C11 are not re-validated against Sessions'])
    V.finish(pid, vio_out, [])
