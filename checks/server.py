"""C10 -- server answers each request datagram once, with the protocol-prescribed code.

Model:    spec/Server.tla (Decide: decision table as a set of allowed outcomes), on top of CoapWire (reference decoding)
Binding:  harness/drv_srv.c injects generated request datagrams into a real server context on the simulator, logs handler
          invocations (with everything the handler was given) and every datagram emitted in reaction; spec/Trace_Server.tla
          decodes the raw request with the RFC decoder, evaluates Decide and judges shape, code, handler and arguments.
"""
import random, itertools, time, os
import verif as V


def enc(ty, code, mid, tok=b'', opts=(), pl=b''):
    def ext(x):
        return (x, b'') if x < 13 else (13, bytes([x - 13])) if x < 269 else (14, bytes([(x - 269) >> 8, (x - 269) & 255]))
    out = bytes([0x40 | (ty << 4) | len(tok), code, mid >> 8, mid & 255]) + tok
    prev = 0
    for num, val in sorted(opts, key=lambda o: o[0]):
        dn, de = ext(num - prev)
        ln, le = ext(len(val))
        out += bytes([(dn << 4) | ln]) + de + le + val
        prev = num
    if pl:
        out += b'\xff' + pl
    return out


PATHS = [[], [b'a'], [b'a', b'b'], [b'q'], [b'e'], [b'x y'], [b'd'], [b'a', b'', b'c'], [b'nope'], [b'a', b'nope'], [b''], [b'.well-known', b'core'],
         [b'.well-known', b'other'], [b'A'], [b'a', b'b', b'c'], [b'x%20y']]


def gen(tier, rnd):
    """yield (table, hexdatagram, mcast)"""
    R = []
    mid = [0]

    def add(tb, ty, code, path, extra=(), pl=b'', tok=None, mc=False):
        mid[0] = (mid[0] + 1) & 0xffff
        opts = [(11, s) for s in path] + list(extra)
        t = tok if tok is not None else bytes([rnd.randrange(256) for _ in range(rnd.choice((0, 1, 4, 8)))])
        R.append((tb, enc(ty, code, mid[0], t, opts, pl).hex(), mc))
    tables = [0, 1, 2, 3, 4, 5]
    # 1. method x type x path x table: the resource-lookup / handler core
    for tb in tables:
        for ty in range(4):
            for code in (1, 2, 3, 4, 5, 6, 7, 8, 9, 31):
                for path in PATHS:
                    if tier == 'quick' and rnd.random() > (0.5 if ty < 2 else 0.08):
                        continue
                    extra = [(12, b'\x00')] if code == 5 and rnd.random() < 0.7 else []
                    add(tb, ty, code, path, extra, pl=b'p' if code in (2, 3, 5, 6, 7) else b'')
    # 2. invalid code classes, responses and empty messages sent to a server
    for tb in (0, 1):
        for ty in range(4):
            for code in (0x20, 0x3f, 0xc0, 0xc1, 0xdf, 0xe1, 0xe2, 0xff, 0x45, 0x84, 0xa0, 0x60, 0x7f):
                add(tb, ty, code, [b'a'])
    # 3. option features, singly and in pairs, on existing / missing resources
    feats = {
        'inm': [(5, b'')], 'cf': [(12, b'\x00')], 'acc': [(17, b'\x00')], 'obs': [(6, b'')], 'q1': [(15, b'k=v')], 'q2': [(15, b'a'), (15, b'b&c')],
        'ukc': [(65003, b'z')], 'ukc2': [(2049, b'')], 'uke': [(65002, b'z')], 'ukunsafe': [(65006, b'z')], 'reg': [(65001, b'r')],
        'rep_acc': [(17, b'\x00'), (17, b'\x01')], 'rep_cf': [(12, b''), (12, b'\x00')], 'rep_inm': [(5, b''), (5, b'')], 'rep_host': [(3, b'h'), (3, b'g')],
        'rep_etag': [(4, b'e1'), (4, b'e2')], 'rep_ifm': [(1, b'x'), (1, b'y')],
        'purl': [(35, b'coap://other.example/a')], 'psch': [(39, b'coap'), (3, b'other.example')], 'psch_nohost': [(39, b'coap')],
        'hop0': [(16, b'\x00')], 'hop1': [(16, b'\x01')], 'hop2': [(16, b'\x02')], 'hop255': [(16, b'\xff')],
        'nr0': [(258, b'')], 'nr2': [(258, b'\x02')], 'nr8': [(258, b'\x08')], 'nr16': [(258, b'\x10')], 'nr26': [(258, b'\x1a')],
        'host': [(3, b'example.com')], 'port': [(7, b'\x16\x33')], 'maxage': [(14, b'\x3c')], 'size1': [(60, b'\x05')],
    }
    names = sorted(feats)
    for tb in (1, 2, 4, 0):
        for path in ([b'a'], [b'nope'], [b'q'], [b'e'], [b'd'], [b'.well-known', b'core']):
            for code in (1, 3, 4, 5):
                for ty in (0, 1):
                    for f in names:
                        if tb == 5 and f in ('purl', 'psch', 'psch_nohost'):
                            continue
                        if tier == 'quick' and rnd.random() > 0.35:
                            continue
                        add(tb, ty, code, path, feats[f], pl=b'p' if code in (3, 5) else b'')
    pairs = list(itertools.combinations(names, 2))
    for (f1, f2) in (pairs if tier == 'thorough' else rnd.sample(pairs, 160)):
        ex = feats[f1] + feats[f2]
        for path in ([b'a'], [b'nope'], [b'e']):
            add(rnd.choice((1, 2)), rnd.choice((0, 1)), rnd.choice((1, 3, 4, 5)), path, ex)
    # 4. multicast: NON served, CON ignored, errors suppressed, No-Response interest
    for tb in (1, 2):
        for ty in (0, 1):
            for code in (1, 3, 4):
                for path in ([b'a'], [b'nope'], [b'e'], [b'q'], [b'.well-known', b'core']):
                    for f in ('', 'nr0', 'nr2', 'nr26', 'ukc', 'inm', 'hop1'):
                        add(tb, ty, code, path, feats.get(f, []), mc=True)
    # 5. random well-formed requests
    for _ in range(1500 if tier == 'quick' else 60000):
        ex = []
        for f in rnd.sample(names, rnd.randint(0, 3)):
            ex += feats[f]
        add(rnd.choice(tables[:5]), rnd.choice((0, 0, 1, 1, 2, 3)), rnd.choice((1, 1, 2, 3, 4, 5, 6, 7, 9)), rnd.choice(PATHS), ex,
            pl=rnd.choice((b'', b'x', b'payload')), mc=rnd.random() < 0.1)
    return R


def gen_defer(tier, rnd):
    """table 6: handlers that defer their answer (coap_register_async), repeats of the request while the answer is pending"""
    C = []
    mid = [0x100]

    def rq(ty, tok, path, newmid=True):
        if newmid:
            mid[0] = (mid[0] + 1) & 0xffff
        return enc(ty, 1, mid[0], tok, [(11, path)]).hex()
    for res in (b'w', b'v'):
        rel = ['T'] if res == b'w' else ['W 4000']
        for ty in (0, 1):
            t1, t2 = b'\x11\x01', b'\x22'
            a = rq(ty, t1, res)
            a2 = rq(ty, t1, res)          # same token, new message id (the client asks again)
            b = rq(ty, t2, res)
            pa = rq(ty, b'\x33', b'a')
            C.append(['J %s 1' % a] + rel)
            C.append(['J %s 1' % a, 'J %s 1' % a] + rel)                                  # network duplicate while pending
            C.append(['J %s 1' % a, 'J %s 1' % a, 'J %s 1' % a] + rel + ['J %s 1' % pa])
            C.append(['J %s 1' % a, 'J %s 1' % a2] + rel)
            C.append(['J %s 1' % a, 'J %s 2' % a] + rel)                                  # another peer, same token: its own answer
            C.append(['J %s 1' % a] + rel + ['J %s 1' % a2] + rel)                         # asked again after the answer: a new request
            C.append(['J %s 1' % a, 'J %s 1' % b, 'J %s 1' % a, 'J %s 1' % pa, 'J %s 1' % b] + rel)
            C.append(['J %s 1' % a, 'I %s' % pa, 'J %s 1' % a] + rel + ['I %s' % pa])
            # a request without a token (zero-length token) is deferred and found again like any other
            e = rq(ty, b'', res)
            C.append(['J %s 3' % e] + rel)
            C.append(['J %s 3' % e, 'J %s 3' % e, 'J %s 2' % e] + rel + ['J %s 3' % pa])
            if res == b'v':
                C.append(['J %s 1' % a, 'W 1000', 'J %s 1' % a, 'W 4000'])
                C.append(['J %s 1' % a, 'J %s 2' % b, 'W 500', 'J %s 2' % b, 'J %s 1' % a, 'W 4000', 'J %s 1' % a2, 'W 4000'])
            else:
                C.append(['J %s 1' % a, 'W 4000', 'J %s 1' % a, 'T', 'W 4000'])
                C.append(['J %s 1' % a, 'T', 'J %s 2' % b, 'J %s 2' % b, 'T', 'T'])
    # both kinds mixed, CON and NON, several peers, random order of repeats and releases
    for _ in range(60 if tier == 'quick' else 3000):
        ls, out = [], []
        for k in range(rnd.randint(1, 4)):
            ty = rnd.choice((0, 1))
            res = rnd.choice((b'w', b'v'))
            out.append((rq(ty, bytes([0x40 + k, rnd.randrange(256)]), res), rnd.randint(1, 3)))
        for _k in range(rnd.randint(2, 9)):
            r = rnd.random()
            if r < 0.6:
                h, p = rnd.choice(out)
                ls.append('J %s %d' % (h, p))
            elif r < 0.8:
                ls.append('T')
            else:
                ls.append('W %d' % rnd.choice((300, 4000)))
        C.append(ls + ['T', 'W 4000'])
    return C


def run(pid, tier):
    t0 = time.time()
    rnd = random.Random(V.seed() * 31337 + 10)
    out = V.outdir(pid, tier)
    drv = V.link('drv_srv', ['drv_srv.c', 'simnet.c'], V.SIM_WRAPS)
    mcst = V.mc('MC_Server', 'MC_Server.cfg', timeout=1800, xmx='8g')
    if mcst['violated']:
        raise V.Infra('MC_Server violated (specification error):\n' + mcst['out'][-2500:])
    # deferred answers: the closed model, and the two defective variants it has to tell from it (seeded changes C07-g, C10-h)
    df = V.mc('MC_Defer', 'MC_Defer.cfg', must_fire=['Arrive', 'Release', 'Answer'], workers=4, timeout=600)
    if df['violated']:
        raise V.Infra('MC_Defer violated (specification error):\n' + df['out'][-2500:])
    for cfgn, inv in (('MC_Defer_repeat.cfg', 'AnswerAfterReleaseI'), ('MC_Defer_acknon.cfg', 'NonNeverAckedI')):
        ng = V.tlc('MC_Defer', cfgn, workers=1, deque=False, timeout=300)
        if 'Invariant %s is violated' % inv not in ng['out']:
            raise V.Infra('MC_Defer sanity: %s does not violate %s' % (cfgn, inv))
    reqs = gen(tier, rnd)
    # group by table, split into cases of 150 requests, round-robin over chunks
    cases, cid = [], 0
    for tb in sorted(set(r[0] for r in reqs)):
        rs = [r for r in reqs if r[0] == tb]
        for i in range(0, len(rs), 150):
            cid += 1
            cases.append((cid, ['X id=%d table=%d' % (cid, tb)] + ['I %s%s' % (h, ' m' if mc else '') for (_t, h, mc) in rs[i:i + 150]] + ['E']))
    for ls in gen_defer(tier, rnd):
        cid += 1
        cases.append((cid, ['X id=%d table=6' % cid] + ls + ['E']))
    jobs = []
    for ci in range(V.NCPU):
        ch = cases[ci::V.NCPU]
        if not ch:
            continue
        cf = os.path.join(out, 'cases-%02d.txt' % ci)
        with open(cf, 'w') as f:
            for _, ls in ch:
                f.write('\n'.join(ls) + '\n')
        jobs.append((cf, os.path.join(out, 'trace-%02d.ndjson' % ci)))
    import concurrent.futures as cfu
    crashes = []

    def rundrv(j):
        rc, o = V.run_driver(drv, [j[0], j[1]], timeout=400 if tier == 'quick' else 3000)
        return j, rc, o
    with cfu.ThreadPoolExecutor(max_workers=V.NCPU) as ex:
        for j, rc, o in ex.map(rundrv, jobs):
            if rc != 0 or V.sanitizer_reports(o):
                crashes.append((j, rc, o[-8000:]))
                with open(j[1], 'rb') as f:
                    data = f.read()
                if not data.endswith(b'\n'):
                    data = data[:data.rfind(b'\n') + 1]
                with open(j[1], 'wb') as f:
                    f.write(data + b'{"e":"Crash"}\n')
    results = V.validate_traces('Trace_Server', [j[1] for j in jobs], xss='256m', xmx='4g')
    bycase = dict(cases)
    vio_out, nreq, nmulti, ndef = [], 0, 0, 0
    for r in results:
        nreq += r['executions']
        nmulti += r.get('requests_with_several_allowed_outcomes', 0)
        ndef += r.get('deferred_answers', 0)
        for rj in r['rejected']:
            ls = bycase.get(rj['id'], [])
            one = [ls[0], ls[1 + rj['n']], 'E'] if rj.get('n', -1) >= 0 and len(ls) > 1 + rj['n'] else ls
            p = V.save_replay(pid, 'case-%d-%d.txt' % (rj['id'], rj.get('n', 0)), '\n'.join(one) + '\n# ' + rj['why'] + '\n')
            vio_out.append(('%s (case %d request %s, %s line %d)' % (rj['why'], rj['id'], rj.get('n'), os.path.basename(r['trace']), rj['line']), p))
    for (j, rc, o) in crashes:
        p = V.save_replay(pid, 'crash-%s.log' % os.path.basename(j[0]), o)
        vio_out.append(('driver aborted / sanitizer report (rc=%d) on %s' % (rc, j[0]), p))
    # invalid code classes on a DTLS session (the DTLS driver of C19, judged by Trace_Gate's rule for it): class-7 codes are Reset or ignored there, too
    import dtls as D
    dcases = []
    for i, code in enumerate((0xe1, 0xe2, 0xe3, 0xe4, 0xe5, 0xff)):
        dcases.append((400000 + i, ['X id=%d cid=alice ckey=secretkey0123456 sk=alice:secretkey0123456 hint=srv acc=1 nq=1 inj=0 rel=0 idcb=1 drop= sni= warm= snik= dup= mute=0 sclose=0 obs=0 tk2=0 nonq=0 shold=0 bad7=%d'
                                      % (400000 + i, code), 'E']))
    dout = os.path.join(out, 'dtls7')
    os.makedirs(dout, exist_ok=True)
    ddrv = V.link('drv_dtls', ['drv_dtls.c', 'simnet.c'], V.SIM_WRAPS)
    asan0 = os.environ.get('ASAN_OPTIONS')
    os.environ['ASAN_OPTIONS'] = 'detect_leaks=0:abort_on_error=0:exitcode=99:allocator_may_return_null=1'     # GnuTLS global state
    dvio, ndt, _k, _r = V.drive_and_validate(pid, ddrv, dcases, dout, 'Trace_Gate', xmx='2g', nfiles=3)
    if asan0 is None:
        os.environ.pop('ASAN_OPTIONS', None)
    else:
        os.environ['ASAN_OPTIONS'] = asan0
    vio_out += [('DTLS session: ' + t, p_) for (t, p_) in dvio]
    V.write_evidence(pid, tier, 'model_checking', dict(
        class7_codes_on_a_dtls_session=ndt,
        states=mcst['distinct'], transitions=mcst['generated'], traces_validated_against_impl=nreq,
        samples=[cases[0][1][:4], cases[-1][1][:4]], requests_judged=nreq, requests_with_several_allowed_outcomes=nmulti,
        tables=7, deferred_answers_judged=ndef, exhaustive=False,
        rule='feature product (method x type x path x table; every option feature singly and sampled pairs on existing/missing resources; '
             'invalid code classes; multicast; random; handlers that defer their answer with repeats of the request while it is pending) concretised into datagrams, injected into the real server; for each datagram TLC decodes the '
             'raw bytes, evaluates Server!Decide and compares handler invocation (+ arguments), reply count, reply shape and code'),
        time.time() - t0, violations=len(vio_out),
        assumptions=['diagnostic payloads, message ids of NON replies and echoed options of 4.02 are not constrained',
                     'where two rules of the statement apply to one request any applicable outcome is accepted',
                     'for library-generated error replies both the suppressed and unsuppressed form under No-Response/multicast are accepted'])
    V.finish(pid, vio_out, [])
