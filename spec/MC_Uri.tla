------------------------------- MODULE MC_Uri -------------------------------
(***************************************************************************)
(* Design-level check for C16: with the RFC 7252 §6.5 escaping rule, the   *)
(* text -> options operators of module Uri are a left inverse of the       *)
(* options -> text direction on ALL segment lists over a hostile alphabet  *)
(* (hence options -> text is injective), for paths and for queries.        *)
(***************************************************************************)
EXTENDS Uri
CONSTANTS Alpha, MaxSegs, MaxSegLen
VARIABLES segs, kind
vars == <<segs, kind>>

Hex(n) == IF n < 10 THEN 48 + n ELSE 55 + n
Unreserved(b) == (b >= 65 /\ b <= 90) \/ (b >= 97 /\ b <= 122) \/ (b >= 48 /\ b <= 57) \/ b \in {45, 46, 95, 126}
SubDelim(b) == b \in {33, 36, 38, 39, 40, 41, 42, 43, 44, 59, 61}
\* RFC 7252 6.5: path segments keep unreserved / sub-delims / ":" / "@"; query arguments additionally "/" "?" but NOT "&"
PathLit(b)  == Unreserved(b) \/ SubDelim(b) \/ b \in {58, 64}
QueryLit(b) == (PathLit(b) /\ b # 38) \/ b \in {47, 63}
Esc(b, lit) == IF lit THEN <<b>> ELSE <<37, Hex(b \div 16), Hex(b % 16)>>
RECURSIVE EscSeg(_, _, _)
EscSeg(s, i, q) == IF i > Len(s) THEN << >> ELSE Esc(s[i], IF q THEN QueryLit(s[i]) ELSE PathLit(s[i])) \o EscSeg(s, i + 1, q)
RECURSIVE Join(_, _, _, _)
Join(ss, i, sep, q) == IF i > Len(ss) THEN << >>
                       ELSE (IF i > 1 THEN <<sep>> ELSE << >>) \o EscSeg(ss[i], 1, q) \o Join(ss, i + 1, sep, q)
SegsToPath(ss)  == Join(ss, 1, 47, FALSE)
SegsToQuery(ss) == Join(ss, 1, 38, TRUE)

SegSet == UNION {[1..n -> Alpha] : n \in 0..MaxSegLen}
Lists  == UNION {[1..n -> SegSet] : n \in 1..MaxSegs}

Init == segs \in Lists /\ kind \in {"path", "query"}
Next == UNCHANGED vars
Spec == Init /\ [][Next]_vars

LeftInverse ==
  IF kind = "path"
  THEN /\ RawPathSplit(SegsToPath(segs)) = segs
       /\ (NoDotValue(segs) => PathToSegs(SegsToPath(segs)) = segs)
  ELSE QueryToSegs(SegsToQuery(segs)) = segs
=============================================================================
