---------------------------- MODULE Trace_Oscore ----------------------------
(* Trace specification for C14 (harness/drv_oscore.c).  Per exchange: Msg(c) the application's request, Aead the primitive's
   inputs and output while libcoap protects it, Wire(c) the protected datagram, Got(s) what the server handler obtains,
   Msg(s) its response, Aead, Wire(s), Got(c).  Keys (inserted by the check from an independent HKDF) gives the expected
   sender keys and common IV.  Tamper lines summarise modified datagrams. *)
EXTENDS Oscore, TLC, Json, IOUtils
TraceLog == ndJsonDeserialize(IOEnv.TRACE)
OutFile  == IOEnv.OUT
VARIABLES l, rej, cur, skip, c, nexec, nx, ntamper
vars == <<l, rej, cur, skip, c, nexec, nx, ntamper>>
\* c: [keys, sid, idctx, hasIdctx, phase, req, resp, aead, piv, nonce]
Opts(js) == [i \in 1..Len(js) |-> [num |-> js[i][1], val |-> js[i][2]]]
Same(a, b) == a.code = b.code /\ Opts(a.opts) = Opts(b.opts) /\ a.pl = b.pl
NoRec == [code |-> 0, opts |-> << >>, pl |-> << >>]
LastPiv == <<255, 255, 255, 255, 254>>      \* 2^40 - 2

\* returns [why, c]
OnAead(e) ==
  IF c.phase = "req"
  THEN IF e.ok # 1 THEN [why |-> "C14:request-could-not-be-protected", c |-> c]
       ELSE IF e.alg # 10 \/ e.taglen # 8 THEN [why |-> "C14:wrong-aead-algorithm-or-tag-length", c |-> c]
       ELSE IF e.key # c.keys.ckey THEN [why |-> "C14:request-protected-with-a-key-other-than-the-derived-sender-key", c |-> c]
       ELSE IF e.pt # Plaintext(c.req.code, Opts(c.req.opts), c.req.pl) THEN [why |-> "C14:plaintext-is-not-code-class-e-options-payload", c |-> c]
       ELSE [why |-> "", c |-> [c EXCEPT !.aead = e, !.phase = "reqwire"]]
  ELSE IF c.phase = "srvgot"                     \* libcoap answers by itself (4.04, 4.15 ...): no handler, no original to compare the plaintext with
  THEN IF e.key # c.keys.skey THEN [why |-> "C14:response-protected-with-a-key-other-than-the-derived-sender-key", c |-> c]
       ELSE IF e.nonce # c.nonce THEN [why |-> "C14:response-nonce-is-not-the-request-nonce", c |-> c]
       ELSE IF e.aad # Aad(c.sid, c.piv) THEN [why |-> "C14:response-aad-does-not-name-the-request-kid-and-partial-iv", c |-> c]
       ELSE [why |-> "", c |-> [c EXCEPT !.aead = e, !.phase = "librespwire"]]
  ELSE IF c.phase = "resp"
  THEN IF e.ok # 1 THEN [why |-> "C14:response-could-not-be-protected", c |-> c]
       ELSE IF e.key # c.keys.skey THEN [why |-> "C14:response-protected-with-a-key-other-than-the-derived-sender-key", c |-> c]
       ELSE IF e.pt # (IF c.obs \in {"reg", "notify"} THEN PlaintextResponse(c.resp.code, WithObserve(Opts(c.resp.opts)), c.resp.pl)
                       ELSE Plaintext(c.resp.code, Opts(c.resp.opts), c.resp.pl))
            THEN [why |-> "C14:plaintext-is-not-code-class-e-options-payload", c |-> c]
       ELSE IF e.aad # Aad(c.sid, c.piv) THEN [why |-> "C14:response-aad-does-not-name-the-request-kid-and-partial-iv", c |-> c]
       ELSE [why |-> "", c |-> [c EXCEPT !.aead = e, !.phase = "respwire"]]          \* the nonce is judged when the option value on the wire is known
  ELSE [why |-> "", c |-> c]

OnWire(e) ==
  LET d == DecUDP(e.w) IN
  IF c.phase = "reqwire" /\ e.from = "c"
  THEN IF d.ok # "ok" THEN [why |-> "C14:protected-request-is-not-a-well-formed-message", c |-> c]
       ELSE IF ~OuterOk(d.m.opts, Opts(c.req.opts)) THEN [why |-> "C14:outer-options-are-not-the-class-u-options-plus-the-oscore-option", c |-> c]
       ELSE LET v == OscoreValue(d.m.opts)
                piv == PivOf(v)
            IN IF d.m.code # OuterCodeRequest(Opts(c.req.opts)) THEN [why |-> "C14:wrong-outer-code", c |-> c]
               ELSE IF v # OptionValueRequest(piv, c.sid, c.idctx, c.hasIdctx) THEN [why |-> "C14:oscore-option-value-is-not-the-compressed-cose-object", c |-> c]
               ELSE IF c.pivb # <<-1>> /\ piv # c.pivb THEN [why |-> "C14:partial-iv-is-not-the-sender-sequence-number", c |-> c]
               ELSE IF c.aead.nonce # Nonce(c.sid, piv, c.keys.iv) THEN [why |-> "C14:nonce-not-built-from-sender-id-partial-iv-common-iv", c |-> c]
               ELSE IF c.aead.aad # Aad(c.sid, piv) THEN [why |-> "C14:aad-is-not-the-rfc-8613-enc-structure", c |-> c]
               ELSE IF d.m.pl # c.aead.ct THEN [why |-> "C14:payload-on-the-wire-is-not-the-ciphertext", c |-> c]
               ELSE [why |-> "", c |-> [c EXCEPT !.piv = piv, !.nonce = c.aead.nonce, !.phase = "srvgot"]]
  ELSE IF c.phase = "librespwire" /\ e.from = "s"
  THEN IF d.ok # "ok" THEN [why |-> "C14:protected-response-is-not-a-well-formed-message", c |-> c]
       ELSE IF d.m.pl # c.aead.ct THEN [why |-> "C14:payload-on-the-wire-is-not-the-ciphertext", c |-> c]
       ELSE [why |-> "", c |-> [c EXCEPT !.phase = "libresp"]]
  ELSE IF c.phase = "respwire" /\ e.from = "s"
  THEN IF d.ok # "ok" THEN [why |-> "C14:protected-response-is-not-a-well-formed-message", c |-> c]
       ELSE LET ro == IF c.obs \in {"reg", "notify"} THEN WithObserve(Opts(c.resp.opts)) ELSE Opts(c.resp.opts)
                v == OscoreValue(d.m.opts)
                piv == PivOf(v)
            IN IF ~OuterOk(d.m.opts, ro) THEN [why |-> "C14:outer-options-are-not-the-class-u-options-plus-the-oscore-option", c |-> c]
               ELSE IF d.m.code # OuterCodeResponse(ro) THEN [why |-> "C14:wrong-outer-code", c |-> c]
               ELSE IF v = OptionValueResponse
               THEN IF c.aead.nonce # c.nonce THEN [why |-> "C14:response-nonce-is-not-the-request-nonce", c |-> c]
                    ELSE IF d.m.pl # c.aead.ct THEN [why |-> "C14:payload-on-the-wire-is-not-the-ciphertext", c |-> c]
                    ELSE [why |-> "", c |-> [c EXCEPT !.phase = "cligot"]]
               ELSE IF v \notin {OptionValueResponsePiv(piv, c.rid, FALSE), OptionValueResponsePiv(piv, c.rid, TRUE)}
                    THEN [why |-> "C14:oscore-option-value-is-not-the-compressed-cose-object", c |-> c]
               ELSE IF c.aead.nonce # Nonce(c.rid, piv, c.keys.iv) THEN [why |-> "C14:response-nonce-not-built-from-the-responders-id-and-partial-iv", c |-> c]
               ELSE IF d.m.pl # c.aead.ct THEN [why |-> "C14:payload-on-the-wire-is-not-the-ciphertext", c |-> c]
               ELSE [why |-> "", c |-> [c EXCEPT !.phase = "cligot"]]
  ELSE [why |-> "", c |-> c]

Step(e) ==
  CASE e.e = "Keys" -> [why |-> "", c |-> [c EXCEPT !.keys = e]]
    [] e.e = "Exchange" -> [why |-> "", c |-> [c EXCEPT !.phase = "idle", !.pivb = e.pivb,
                                                      !.obs = IF "observe" \in DOMAIN e THEN (IF e.observe = 0 THEN "reg" ELSE "cancel") ELSE "none"]]
    [] e.e = "Notify" -> [why |-> "", c |-> [c EXCEPT !.phase = "srvdone", !.obs = "notify"]]       \* the library runs the handler itself
    [] e.e = "NotifyDone" -> [why |-> IF c.phase = "done" THEN "" ELSE "C14:notification-did-not-round-trip", c |-> [c EXCEPT !.phase = "idle"]]
    [] e.e = "Msg" /\ e.side = "c" -> [why |-> "", c |-> [c EXCEPT !.req = e, !.phase = "req"]]
    [] e.e = "Msg" /\ e.side = "s" -> [why |-> IF c.phase = "srvdone" THEN "" ELSE "C14:server-handler-ran-without-a-verified-request", c |-> [c EXCEPT !.resp = e, !.phase = "resp"]]
    [] e.e = "Aead" -> OnAead(e)
    [] e.e = "Wire" -> OnWire(e)
    [] e.e = "Got" /\ e.side = "s" ->
         IF c.phase # "srvgot" THEN [why |-> "C14:server-handler-obtained-a-request-that-was-not-the-protected-one", c |-> c]
         ELSE IF ~Same(e, c.req) THEN [why |-> "C14:unprotected-request-differs-from-the-original", c |-> c]
         ELSE [why |-> "", c |-> [c EXCEPT !.phase = "srvdone"]]
    [] e.e = "Got" /\ e.side = "c" ->
         IF c.phase = "libresp" THEN [why |-> "", c |-> [c EXCEPT !.phase = "libdone"]]
         ELSE IF c.phase # "cligot" THEN [why |-> "C14:client-handler-obtained-a-response-that-was-not-the-protected-one", c |-> c]
         ELSE IF c.obs \in {"reg", "notify"}
              THEN IF e.code = c.resp.code /\ e.pl = c.resp.pl /\ WithoutObserve(Opts(e.opts)) = WithoutObserve(Opts(c.resp.opts)) /\ HasObserve(Opts(e.opts))
                   THEN [why |-> "", c |-> [c EXCEPT !.phase = "done"]]
                   ELSE [why |-> "C14:unprotected-notification-differs-from-the-original", c |-> c]
         ELSE IF ~Same(e, c.resp) THEN [why |-> "C14:unprotected-response-differs-from-the-original", c |-> c]
         ELSE [why |-> "", c |-> [c EXCEPT !.phase = "done"]]
    [] e.e = "Done" -> [why |-> IF c.phase = "done" /\ e.handled = 1 THEN ""
                                ELSE IF c.phase = "libdone" /\ e.handled = 0 THEN ""          \* answered by the library itself
                                ELSE IF c.phase = "req" /\ c.pivb = LastPiv THEN ""           \* libcoap does not use the last sequence number but one
                                ELSE "C14:exchange-did-not-round-trip", c |-> [c EXCEPT !.phase = "idle"]]
    [] e.e = "Tamper" -> [why |-> IF e.region \in {"o", "c", "m", "t", "k"} /\ e.handled # 0 THEN "C14:modified-message-or-foreign-context-reached-the-handler" ELSE "", c |-> c]
    [] e.e = "Canary" -> [why |-> IF e.handled = 1 THEN "" ELSE "C14:genuine-request-refused-after-the-tampering-attempts", c |-> c]
    [] e.e = "Skip" -> [why |-> "skip", c |-> c]
    [] e.e = "Crash" -> [why |-> "C14:run-aborted-or-sanitizer-report", c |-> c]
    [] OTHER -> [why |-> "", c |-> c]

InitC == [keys |-> [ckey |-> << >>, skey |-> << >>, iv |-> << >>], sid |-> << >>, idctx |-> << >>, hasIdctx |-> FALSE, phase |-> "idle",
          req |-> NoRec, resp |-> NoRec, aead |-> [nonce |-> << >>, aad |-> << >>, ct |-> << >>], piv |-> << >>, nonce |-> << >>, pivb |-> <<-1>>,
          rid |-> << >>, obs |-> "none"]       \* obs: "reg" (response to an Observe registration), "notify", "cancel", "none"
Init == /\ l = 1 /\ rej = << >> /\ cur = -1 /\ skip = TRUE /\ c = InitC /\ nexec = 0 /\ nx = 0 /\ ntamper = 0
Consume ==
  /\ l <= Len(TraceLog)
  /\ LET e == TraceLog[l] IN
     IF e.e = "Reset"
     THEN /\ cur' = e.id /\ skip' = FALSE /\ c' = [InitC EXCEPT !.sid = e.sidb, !.rid = e.ridb, !.idctx = e.idctxb, !.hasIdctx = e.hasidctx] /\ nexec' = nexec + 1
          /\ UNCHANGED <<rej, nx, ntamper>>
     ELSE IF skip /\ e.e # "Crash" THEN UNCHANGED <<rej, cur, skip, c, nexec, nx, ntamper>>
     ELSE LET r == Step(e) IN
          /\ c' = r.c
          /\ rej' = IF r.why \in {"", "skip"} THEN rej ELSE Append(rej, [id |-> cur, line |-> l, why |-> r.why])
          /\ skip' = (r.why # "")
          /\ nx' = nx + (IF e.e = "Done" /\ c.phase = "done" /\ r.why = "" THEN 1 ELSE 0)
          /\ ntamper' = ntamper + (IF e.e = "Tamper" THEN 1 ELSE 0)
          /\ UNCHANGED <<cur, nexec>>
  /\ l' = l + 1
Finish == /\ l = Len(TraceLog) + 1
          /\ JsonSerialize(OutFile, [rejected |-> rej, executions |-> nexec, discarded |-> 0, known |-> {}, lines |-> Len(TraceLog), exchanges |-> nx, tampered |-> ntamper])
          /\ l' = l + 1 /\ UNCHANGED <<rej, cur, skip, c, nexec, nx, ntamper>>
Next == Consume \/ Finish
Spec == Init /\ [][Next]_vars
=============================================================================
