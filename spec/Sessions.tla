----------------------------- MODULE Sessions -----------------------------
(***************************************************************************)
(* Server sessions of one endpoint: which session handles which peer, who  *)
(* holds a session, when an idle one may -- and must -- go away.           *)
(* Transcribes coap_endpoint_get_session (lookup, eviction of the oldest   *)
(* idle session at the limit, creation), the reference holders, and the    *)
(* idle reclamation of coap_io_prepare_io.  Time is in virtual ms.         *)
(*                                                                         *)
(* st.map     peer -> session        live server sessions                  *)
(* st.peer    session -> peer                                              *)
(* st.last    session -> time of the last datagram received or sent        *)
(* st.hold    session -> set of holders ("app", "obs", "async", "queue")   *)
(* st.born / st.dead   sessions for which the NEW / DEL event has fired    *)
(* st.objs    session objects currently allocated                          *)
(* st.closed  stream sessions (TCP, TLS, WebSocket) whose peer has gone:   *)
(*            the transport is closed, the object lives on while held       *)
(***************************************************************************)
EXTENDS Naturals, Integers, Sequences, FiniteSets

EmptyFn == [x \in {} |-> 0]
Put(f, k, v) == [x \in (DOMAIN f) \cup {k} |-> IF x = k THEN v ELSE f[x]]
Drop(f, k) == [x \in (DOMAIN f) \ {k} |-> f[x]]
Get(f, k, d) == IF k \in DOMAIN f THEN f[k] ELSE d
Ran(f) == {f[x] : x \in DOMAIN f}

InitSess(timeoutMs, maxIdle) ==
  [timeout |-> timeoutMs, maxidle |-> maxIdle, map |-> EmptyFn, peer |-> EmptyFn, last |-> EmptyFn, hold |-> EmptyFn,
   born |-> {}, dead |-> {}, objs |-> {}, closed |-> {}, teardown |-> FALSE,
   streamPeers |-> {}]      \* the peers that talk to the stream endpoint (set by the user of this module)

Live(st) == Ran(st.map)
Holders(st, s) == Get(st.hold, s, {})
Idle(st, s) == s \in Live(st) /\ Holders(st, s) = {}
IdleSet(st) == {s \in Live(st) : Idle(st, s)}
Overdue(st, s, now) == st.last[s] + st.timeout <= now
\* The idle limit and the eviction of the oldest idle session are per ENDPOINT (coap_endpoint_get_session walks the sessions of the endpoint
\* the datagram arrived on): datagram peers share one endpoint, stream peers another
SameEndpoint(st, a, b) == (st.peer[a] \in st.streamPeers) = (st.peer[b] \in st.streamPeers)
IdleWith(st, s) == {o \in IdleSet(st) : SameEndpoint(st, o, s)}
\* s is an idle session none of the idle ones of its endpoint is older than
OldestIdle(st, s) == Idle(st, s) /\ \A o \in IdleWith(st, s) : st.last[s] <= st.last[o]

\* ---- creation: a datagram from a peer that has no live session ----
New_ok(st, s, p) == s \in st.objs /\ s \notin st.born /\ p \notin DOMAIN st.map
New_do(st, s, p, now) == [st EXCEPT !.map = Put(@, p, s), !.peer = Put(@, s, p), !.last = Put(@, s, now), !.born = @ \cup {s}]

\* ---- a datagram received from / sent to the peer of s ----
Touch_do(st, s, now) == IF s \in Live(st) THEN [st EXCEPT !.last = Put(@, s, now)] ELSE st

\* ---- holders ----
Hold_do(st, s, h)    == [st EXCEPT !.hold = Put(@, s, Holders(st, s) \cup {h})]
Unhold_do(st, s, h)  == [st EXCEPT !.hold = Put(@, s, Holders(st, s) \ {h})]
\* the set of sessions held for reason h is replaced by what the implementation reports (observer list projection)
SetHolders_do(st, h, ss) == [st EXCEPT !.hold = [s \in (DOMAIN st.hold) \cup ss |->
                                                   IF s \in ss THEN Holders(st, s) \cup {h} ELSE Holders(st, s) \ {h}]]

\* ---- a stream session's peer disconnects: nothing more will arrive on it; whoever holds it keeps a valid object ----
Disc_do(st, s) == IF s \in Live(st) THEN [st EXCEPT !.closed = @ \cup {s}] ELSE st

\* ---- deletion (the DEL event): why it is allowed ----
DelCause(st, s, now) ==
  IF st.teardown THEN "teardown"
  ELSE IF ~Idle(st, s) THEN "none-held"
  ELSE IF s \in st.closed THEN "closed"                          \* no timeout to wait for: the peer is gone
  ELSE IF Overdue(st, s, now) THEN "timeout"
  ELSE IF st.maxidle > 0 /\ Cardinality(IdleWith(st, s)) >= st.maxidle /\ OldestIdle(st, s) THEN "evicted"
  ELSE IF st.maxidle > 0 /\ Cardinality(IdleWith(st, s)) >= st.maxidle THEN "none-not-oldest"
  ELSE "none-early"
Del_ok(st, s, now) == s \in st.born /\ s \notin st.dead /\ DelCause(st, s, now) \in {"teardown", "timeout", "evicted", "closed"}
Del_do(st, s) == [st EXCEPT !.map = Drop(@, st.peer[s]), !.dead = @ \cup {s}, !.hold = Drop(@, s), !.closed = @ \ {s}]

\* ---- the obligation at an I/O step: nothing idle is overdue afterwards ----
NothingOverdue(st, now) == \A s \in IdleSet(st) : ~Overdue(st, s, now) /\ s \notin st.closed

\* ---- state invariants ----
OneToOne(st) == \A p, q \in DOMAIN st.map : st.map[p] = st.map[q] => p = q
LiveAreObjects(st) == Live(st) \subseteq st.objs
HeldAreLive(st) == \A s \in DOMAIN st.hold : st.hold[s] # {} => s \in Live(st)
DeadOnce(st) == st.dead \subseteq st.born
=============================================================================
