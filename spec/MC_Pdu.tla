------------------------------- MODULE MC_Pdu -------------------------------
(***************************************************************************)
(* Closed model of the PDU builder/editor: every sequence of API calls of  *)
(* bounded length over a boundary alphabet.  Invariants: options stay in   *)
(* ascending order, and for each of the three framings the RFC decoder     *)
(* applied to the RFC encoder gives the message back (C01, C03, C04 at     *)
(* design level: the formats are mutually inverse on everything the API    *)
(* can build or edit).                                                     *)
(***************************************************************************)
EXTENDS Pdu

CONSTANTS Nums, Lens, TokLens, PlLens, MaxOps, MaxSizes

VARIABLES p, n, hist
vars == <<p, n, hist>>

Val(len, seed) == Blob(seed, len)

Init == \E ty \in {0, 1}, code \in {1, 69}, mx \in MaxSizes :
          /\ p = New(ty, code, 4660, mx) /\ n = 0 /\ hist = << >>

Step(q, what) == /\ n < MaxOps /\ p' = q /\ n' = n + 1 /\ hist' = Append(hist, what)

\* the model's own choice between accepting and refusing follows may / must / mustnot
AAddToken == \E tl \in TokLens : LET v == Val(tl, 3) IN
               IF AddToken_must(p, v) THEN Step(AddToken_do(p, v), <<"tok", tl>>) ELSE Step(p, <<"tok-refused", tl>>)
AAddOpt == \E num \in Nums, len \in Lens : LET v == Val(len, num) IN
               IF AddOpt_may(p, num, v, FALSE) /\ ~AddOpt_mustnot(p, num, v, FALSE)
               THEN Step(AddOpt_do(p, num, v), <<"opt", num, len>>) ELSE Step(p, <<"opt-refused", num, len>>)
AInsOpt == \E num \in Nums, len \in Lens : LET v == Val(len, num + 1) IN
               IF ~AddOpt_mustnot(p, num, v, TRUE)
               THEN Step(AddOpt_do(p, num, v), <<"ins", num, len>>) ELSE Step(p, <<"ins-refused", num, len>>)
AUpdOpt == \E num \in Nums, len \in Lens : LET v == Val(len, num + 2) IN
               IF ~UpdOpt_mustnot(p, num, v) /\ (p.max = 0 \/ Size(UpdOpt_do(p, num, v).m) <= p.max)
               THEN Step(UpdOpt_do(p, num, v), <<"upd", num, len>>) ELSE Step(p, <<"upd-refused", num, len>>)
ARemOpt == \E num \in Nums : IF RemOpt_must(p, num) THEN Step(RemOpt_do(p, num), <<"rem", num>>) ELSE Step(p, <<"rem-absent", num>>)
AUpdTok == \E tl \in TokLens : LET v == Val(tl, 5) IN
               IF UpdTok_must(p, v) THEN Step(UpdTok_do(p, v), <<"utok", tl>>) ELSE Step(p, <<"utok-refused", tl>>)
AAddData == \E pl \in PlLens : LET v == Val(pl, 9) IN
               IF AddData_must(p, v) THEN Step(AddData_do(p, v), <<"data", pl>>) ELSE Step(p, <<"data-refused", pl>>)

Next == AAddToken \/ AAddOpt \/ AInsOpt \/ AUpdOpt \/ ARemOpt \/ AUpdTok \/ AAddData
Spec == Init /\ [][Next]_vars

OrderedI    == WellFormed(p)
RoundTripI  == RoundTrips(p)
FitsI       == Fits(p, p.m)
\* insertion order among equal numbers: values carry the seed of the call that made them; nothing to state beyond Sorted
\* here, the per-step effect is checked against the code by Trace_Codec.
View == <<p, n>>
=============================================================================
