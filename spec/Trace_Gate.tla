----------------------------- MODULE Trace_Gate -----------------------------
(* Trace specification for C19: executions of a real DTLS/PSK client and server (harness/drv_dtls.c). *)
EXTENDS Gate, TLC, Json, IOUtils
TraceLog == ndJsonDeserialize(IOEnv.TRACE)
OutFile  == IOEnv.OUT
KF(id)   == id \in DOMAIN IOEnv     \* a known finding is enabled by an environment variable
VARIABLES l, rej, cur, skip, cfg, sub, srv, resp, nack, nexec, nmatch, nmis, known
vars == <<l, rej, cur, skip, cfg, sub, srv, resp, nack, nexec, nmatch, nmis, known>>
\* KF_C19_APP_TOKEN_EQUALS_STATE_TOKEN: the library numbers the per-request state it keeps (Observe, block-wise) 1, 2, ... per session and
\* recognises "its own" tokens by that number alone; an application token that, read as an integer, equals the number of ANOTHER request's
\* state is taken for it.  Here: one-byte application tokens 1..nq, the obs-th request (obs > 1) is the first with state (number 1): the
\* request with token 1 is reported under, and answered to, the token of request obs.
Collides == cfg.obs \notin {0, 1, 9} /\ cfg.tk2 = 0 /\ cfg.nq >= cfg.obs
CollisionWhys == {"C19:request-reported-by-more-than-one-nack", "C19:response-delivered-twice",
                  "C19:queued-request-not-reported-by-exactly-one-nack", "C19:queued-request-not-delivered-exactly-once-after-the-handshake"}
\* sub: tokens submitted; srv / resp / nack: sequences of tokens seen by the server handler / response handler / NACK handler
Count(q, x) == Cardinality({i \in 1..Len(q) : q[i] = x})
Undisturbed == cfg.ndrops = 0 /\ cfg.rel = 0
IsCon(m) == cfg.nonq # 9 /\ cfg.nonq # m          \* the statement promises a NACK per queued CONFIRMABLE request
Why(e) ==
  CASE e.e = "SrvReq" ->
         IF e.tok = <<153>> THEN "C19:cleartext-request-reached-the-server-handler-of-a-dtls-endpoint"
         ELSE IF ~Match(cfg) THEN "C19:request-delivered-to-the-server-handler-without-an-authenticated-handshake"
         ELSE IF e.proto # 2 THEN "C19:request-delivered-outside-the-dtls-session"
         ELSE IF Undisturbed /\ Count(srv, e.tok[1]) >= 1 THEN "C19:queued-request-delivered-twice"
         ELSE IF Undisturbed /\ e.tok[1] # Len(srv) + 1 THEN "C19:queued-requests-delivered-out-of-order"
         ELSE ""
    [] e.e = "Warm" ->           \* an earlier session that named a server the table has, with that entry's key (not traced in detail)
         IF e.answered THEN "" ELSE "C19:session-with-the-named-servers-key-did-not-complete"
    [] e.e = "Resp" ->
         IF ~Match(cfg) THEN "C19:response-delivered-to-the-client-handler-without-an-authenticated-handshake"
         ELSE IF Count(resp, e.tok[1]) >= 1 THEN "C19:response-delivered-twice"
         ELSE ""
    [] e.e = "Nack" ->
         IF e.tok = <<-1>> THEN ""
         ELSE IF Count(nack, e.tok[1]) >= 1 THEN "C19:request-reported-by-more-than-one-nack"
         ELSE IF e.teardown /\ cfg.ndrops = 0 THEN "C19:request-only-reported-when-the-context-was-freed"    \* under loss GnuTLS waits on the real clock
         ELSE ""
    [] e.e = "Wire" ->
         IF e.from = "c" /\ IsCleartextCoap(e.b0) THEN "C19:client-sent-a-coap-message-in-clear-on-a-dtls-session"
         ELSE IF e.from = "s" /\ IsCleartextCoap(e.b0) /\ e.b1 # 0 THEN "C19:server-sent-a-coap-message-in-clear-on-a-dtls-endpoint"
         ELSE ""
    [] e.e = "End" ->
         IF cfg.nq = 0 THEN ""
         ELSE IF ~Match(cfg) /\ \E m \in sub : IsCon(m) /\ Count(nack, m) # 1 THEN "C19:queued-request-not-reported-by-exactly-one-nack"
         ELSE IF Match(cfg) /\ Undisturbed /\ \E m \in sub : Count(srv, m) # 1 \/ Count(resp, m) # 1
              THEN "C19:queued-request-not-delivered-exactly-once-after-the-handshake"
         ELSE IF Match(cfg) /\ \E m \in sub : Count(resp, m) + Count(nack, m) = 0 THEN "C19:queued-request-neither-answered-nor-reported"
         ELSE ""
    \* (run by C10's check only: bad7 cases) a class-7 code is no CoAP-over-datagram code, DTLS included: Reset or ignored, never handled as signalling
    [] e.e \in {"SrvSignal", "CliSignal"} -> "C10:class-7-code-on-a-dtls-session-handled-as-signalling-instead-of-reset-or-ignored"
    [] e.e = "Hang" -> "C19:endpoints-never-became-quiet"
    [] e.e = "Crash" -> "C19:run-aborted-or-sanitizer-report"
    [] OTHER -> ""
Init == /\ l = 1 /\ rej = << >> /\ cur = -1 /\ skip = TRUE /\ cfg = [nq |-> 0, obs |-> 0, tk2 |-> 0, nonq |-> 0] /\ sub = {} /\ srv = << >> /\ resp = << >> /\ nack = << >>
        /\ nexec = 0 /\ nmatch = 0 /\ nmis = 0 /\ known = {}
Consume ==
  /\ l <= Len(TraceLog)
  /\ LET e == TraceLog[l] IN
     IF e.e = "Reset"
     THEN /\ cur' = e.id /\ skip' = FALSE /\ cfg' = e /\ sub' = {} /\ srv' = << >> /\ resp' = << >> /\ nack' = << >> /\ nexec' = nexec + 1
          /\ nmatch' = nmatch + (IF Match(e) THEN 1 ELSE 0) /\ nmis' = nmis + (IF Match(e) THEN 0 ELSE 1) /\ UNCHANGED <<rej, known>>
     ELSE IF skip /\ e.e # "Crash" THEN UNCHANGED <<rej, cur, skip, cfg, sub, srv, resp, nack, nexec, nmatch, nmis, known>>
     ELSE LET why0 == Why(e)
              kf == why0 \in CollisionWhys /\ Collides /\ KF("KF_C19_APP_TOKEN_EQUALS_STATE_TOKEN")
              why == IF kf THEN "" ELSE why0 IN
          /\ rej' = IF why = "" THEN rej ELSE Append(rej, [id |-> cur, line |-> l, why |-> why])
          /\ skip' = (why0 # "")
          /\ known' = IF kf THEN known \cup {"KF_C19_APP_TOKEN_EQUALS_STATE_TOKEN"} ELSE known
          /\ sub' = IF e.e = "Submit" /\ e.ok = 1 THEN sub \cup {e.tok[1]} ELSE sub
          /\ srv' = IF e.e = "SrvReq" THEN Append(srv, e.tok[1]) ELSE srv
          /\ resp' = IF e.e = "Resp" THEN Append(resp, e.tok[1]) ELSE resp
          /\ nack' = IF e.e = "Nack" /\ e.tok # <<-1>> THEN Append(nack, e.tok[1]) ELSE nack
          /\ UNCHANGED <<cur, cfg, nexec, nmatch, nmis>>
  /\ l' = l + 1
Finish == /\ l = Len(TraceLog) + 1
          /\ JsonSerialize(OutFile, [rejected |-> rej, executions |-> nexec, discarded |-> 0, known |-> known, lines |-> Len(TraceLog), matching |-> nmatch, mismatching |-> nmis])
          /\ l' = l + 1 /\ UNCHANGED <<rej, cur, skip, cfg, sub, srv, resp, nack, nexec, nmatch, nmis, known>>
Next == Consume \/ Finish
Spec == Init /\ [][Next]_vars
=============================================================================
