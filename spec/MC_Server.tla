------------------------------ MODULE MC_Server ------------------------------
(***************************************************************************)
(* Design-level check of the decision table: for every abstract request of *)
(* a small feature product, Decide is non-empty, never mixes a handler     *)
(* outcome with an error outcome, never answers a NON with an ACK-only     *)
(* outcome, and never prescribes a reply for multicast CON.                *)
(***************************************************************************)
EXTENDS Server
VARIABLES m, mc, tb
vars == <<m, mc, tb>>
A == <<97>>
Res == << [segs |-> <<A>>, methods |-> << <<1, 69>>, <<3, 68>> >>], [segs |-> <<A, A>>, methods |-> << <<1, 0>> >>] >>
Tables == { [res |-> << >>, unknown |-> [present |-> FALSE, wk |-> FALSE, methods |-> << >>], proxy |-> FALSE, known |-> {}],
            [res |-> Res,   unknown |-> [present |-> FALSE, wk |-> FALSE, methods |-> << >>], proxy |-> FALSE, known |-> {}],
            [res |-> Res,   unknown |-> [present |-> TRUE, wk |-> FALSE, methods |-> << <<3, 65>> >>], proxy |-> FALSE, known |-> {65001}],
            [res |-> Res,   unknown |-> [present |-> TRUE, wk |-> TRUE, methods |-> << <<1, 69>>, <<3, 65>> >>], proxy |-> FALSE, known |-> {}] }
OptSets == { << >>, << [num |-> 5, val |-> << >>] >>, << [num |-> 12, val |-> <<0>>] >>, << [num |-> 16, val |-> <<1>>] >>, << [num |-> 16, val |-> <<0>>] >>,
             << [num |-> 17, val |-> <<0>>], [num |-> 17, val |-> <<1>>] >>, << [num |-> 35, val |-> A] >>, << [num |-> 39, val |-> A] >>,
             << [num |-> 258, val |-> <<2>>] >>, << [num |-> 258, val |-> <<26>>] >>, << [num |-> 65003, val |-> A] >>, << [num |-> 65001, val |-> A] >>,
             << [num |-> 5, val |-> << >>], [num |-> 65003, val |-> A] >> }
Paths == { << >>, <<A>>, <<A, A>>, <<A, A, A>>, WKSegs }
RECURSIVE Merge(_, _)
Merge(p, o) == IF o = << >> THEN p ELSE IF p = << >> THEN o
               ELSE IF p[1].num <= o[1].num THEN <<p[1]>> \o Merge(Tail(p), o) ELSE <<o[1]>> \o Merge(p, Tail(o))
Init == /\ tb \in Tables /\ mc \in BOOLEAN
        /\ \E ty \in 0..3, code \in {1, 3, 4, 5, 9, 32, 225}, p \in Paths, o \in OptSets :
             m = [ty |-> ty, code |-> code, mid |-> 7, tok |-> <<1>>, pl |-> << >>,
                  opts |-> Merge([i \in 1..Len(p) |-> [num |-> 11, val |-> p[i]]], o)]
Next == UNCHANGED vars
Spec == Init /\ [][Next]_vars
D == Decide(m, tb, mc)
NonEmpty == D # {}
NoMix == ~(\E x, y \in D : x.h # << >> /\ y.h = << >> /\ x.h # <<0>> /\ Class(IF y.r[1] = "msg" THEN y.r[2] ELSE 0) >= 4 /\ PathSegs(m) # WKSegs)
NoAckForNon == m.ty = NON => \A x \in D : x.r # <<"emptyack">>
McastCon == (mc /\ m.ty # NON) => D = {[h |-> << >>, r |-> <<"none">>]}
Sane == (HasOpt(m, 35) \/ HasOpt(m, 39)) \/ NonEmpty
=============================================================================
