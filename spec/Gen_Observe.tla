----------------------------- MODULE Gen_Observe -----------------------------
(***************************************************************************)
(* Direction A for C11: TLC generates behaviours of the observe layer, the *)
(* real libcoap server is stepped through them (harness/drv_obs.c).        *)
(* The actions are the driver's commands, built from module Observe:       *)
(*   G(c,r)  client c registers for resource r        Register_do          *)
(*   U(c,r)  ... cancels with Observe=1               Deregister_do        *)
(*   Prst(c) / Pack(c)  from now on c answers every notification with a    *)
(*           Reset / acknowledges Confirmable ones                         *)
(*   H(r)    the resource changes and the I/O loop runs: every registered  *)
(*           observer is notified; those that reset it are gone            *)
(*   D(r)    the resource is deleted: its observers are gone               *)
(* After every command the behaviour records the set of registered         *)
(* (client, resource) pairs; the driver logs the prediction next to the    *)
(* subscriber lists libcoap really holds (Expect), Trace_Observe compares  *)
(* the two and its own account of the observations.                        *)
(***************************************************************************)
EXTENDS Observe, Json
CONSTANTS Clients, Resources, Depth
VARIABLES s, rst, alive, state, cmds
vars == <<s, rst, alive, state, cmds>>
Key(c, r) == <<c, r, "">>
Init == s = InitObs(0) /\ rst = {} /\ alive = Resources /\ state = [r \in Resources |-> 0] /\ cmds = << >>
Reg(st) == {<<k[1], k[2]>> : k \in DOMAIN st.obs}
Emitted(c, a, b, st) == cmds' = Append(cmds, [c |-> c, a |-> a, b |-> b, reg |-> Reg(st)])
RECURSIVE DropAll(_, _)
DropAll(st, K) == IF K = {} THEN st ELSE LET k == CHOOSE x \in K : TRUE IN DropAll(Deregister_do(st, k), K \ {k})

G(c, r) == /\ r \in alive /\ Len(cmds) < Depth
           /\ LET s1 == Register_do(s, Key(c, r), c, 0, state[r]) IN s' = s1 /\ Emitted("G", c, r, s1)
           /\ UNCHANGED <<rst, alive, state>>
U(c, r) == /\ r \in alive /\ Len(cmds) < Depth
           /\ LET s1 == IF Registered(s, Key(c, r)) THEN Deregister_do(s, Key(c, r)) ELSE s IN s' = s1 /\ Emitted("U", c, r, s1)
           /\ UNCHANGED <<rst, alive, state>>
Prst(c) == c \notin rst /\ Len(cmds) < Depth /\ rst' = rst \cup {c} /\ Emitted("Prst", c, 0, s) /\ UNCHANGED <<s, alive, state>>
Pack(c) == c \in rst /\ Len(cmds) < Depth /\ rst' = rst \ {c} /\ Emitted("Pack", c, 0, s) /\ UNCHANGED <<s, alive, state>>
H(r) == /\ r \in alive /\ Len(cmds) < Depth
        /\ LET s1 == DropAll(s, {k \in KeysOfRes(s, r) : k[1] \in rst}) IN s' = s1 /\ Emitted("H", r, 0, s1)
        /\ state' = [state EXCEPT ![r] = @ + 1] /\ UNCHANGED <<rst, alive>>
D(r) == /\ r \in alive /\ Cardinality(alive) > 1 /\ Len(cmds) < Depth
        /\ LET s1 == DropAll(s, KeysOfRes(s, r)) IN s' = s1 /\ Emitted("D", r, 0, s1)
        /\ alive' = alive \ {r} /\ UNCHANGED <<rst, state>>
Next == \/ \E c \in Clients, r \in Resources : G(c, r) \/ U(c, r)
        \/ \E c \in Clients : Prst(c) \/ Pack(c)
        \/ \E r \in Resources : H(r) \/ D(r)
Spec == Init /\ [][Next]_vars
OneEntry == \A k1, k2 \in DOMAIN s.obs : (k1[1] = k2[1] /\ k1[2] = k2[2]) => k1 = k2
OnlyAlive == \A k \in DOMAIN s.obs : k[2] \in alive
Emit == Len(cmds) < Depth \/ PrintT(<<"BEH", ToJson(cmds)>>)
=============================================================================
