------------------------------ MODULE MC_Block2 ------------------------------
(***************************************************************************)
(* Closed model of a Block2 transfer (large response body) the way libcoap  *)
(* runs it, over a channel that duplicates and reorders (a retransmitted    *)
(* request is a duplicate as far as the server can tell).                   *)
(*                                                                          *)
(* Server (coap_add_data_large_response / coap_handle_request_send_block):  *)
(*   a request for block 0 - and any request when nothing is cached - runs  *)
(*   the application handler, which produces the body anew: a new version,  *)
(*   which gets a new ETag when FreshEtag (the library's default when the   *)
(*   application passes etag 0) and replaces the cached lg_xmit.  A request *)
(*   for block n > 0 is served from the cache, with the cached ETag.  When  *)
(*   nothing is cached (CacheMayExpire) a request for block n > 0 is        *)
(*   answered by that single block WITHOUT ETag.                            *)
(* Client (coap_handle_response_get_block): one lg_crcv per request; first  *)
(*   block seen fixes the ETag; a different ETag means the body changed:    *)
(*   restart with a request for block 0 - under the transfer's next state   *)
(*   token (RestartKeepsLineage, as fixed by 6b9b608) or under a token that  *)
(*   has nothing to do with the transfer (as it was), in which case the      *)
(*   answer is not recognised and sets up a second lg_crcv.  A block without *)
(*   ETag after blocks with ETag fails the transfer explicitly               *)
(*   (NoEtagFails, as fixed by e50e4b4) or is handed to the application as   *)
(*   the response (as it was).                                               *)
(* Block n of version v is the pair <<v, n>>.                                *)
(***************************************************************************)
EXTENDS Naturals, Integers, Sequences, FiniteSets, Bags, TLC
CONSTANTS NB, MaxVersion, MaxDup, FreshEtag, CacheMayExpire, RestartKeepsLineage, NoEtagFails, MaxChains, MaxSent
VARIABLES srv, chains, chan, app, dups, sent, outst
vars == <<srv, chains, chan, app, dups, sent, outst>>
\* srv:    [version, cached (0 = nothing cached)]
\* chains: sequence of lg_crcv records [lin (token lineage), initial, etag (0 = none), have (set of block numbers), ver (function num -> version), done]
\* app:    sequence of what the application's response handler obtained: [kind |-> "body"|"raw"|"error", data]
\* sent:   number of requests the client has emitted (liveness budget)
\* outst:  requests still waiting for their answer (a response that finds none is unsolicited: a duplicate)

Blocks == 0..(NB - 1)
EtagOf(v) == IF FreshEtag THEN v ELSE 1
NewChain(lin) == [lin |-> lin, initial |-> TRUE, etag |-> 0, have |-> {}, ver |-> [n \in {} |-> 0], done |-> FALSE]
Init == /\ srv = [version |-> 0, cached |-> 0]
        /\ chains = <<NewChain(1)>>
        /\ chan = SetToBag({[k |-> "req", lin |-> 1, num |-> 0]})
        /\ app = << >> /\ dups = 0 /\ sent = 1 /\ outst = {<<1, 0>>}

Resp(lin, num, v, etag) == [k |-> "resp", lin |-> lin, num |-> num, m |-> num < NB - 1, v |-> v, etag |-> etag]

\* ---- server ----
ServerRecv(d) ==
  /\ d.k = "req" /\ BagIn(d, chan)
  /\ IF d.num = 0 \/ srv.cached = 0
     THEN /\ srv.version < MaxVersion
          /\ LET v == srv.version + 1 IN
             IF d.num = 0
             THEN /\ srv' = [version |-> v, cached |-> v]
                  /\ chan' = (chan (-) SetToBag({d})) (+) SetToBag({Resp(d.lin, 0, v, EtagOf(v))})
             ELSE /\ srv' = [version |-> v, cached |-> 0]                            \* a single block, nothing cached, no ETag
                  /\ chan' = (chan (-) SetToBag({d})) (+) SetToBag({Resp(d.lin, d.num, v, 0)})
     ELSE /\ srv' = srv
          /\ chan' = (chan (-) SetToBag({d})) (+) SetToBag({Resp(d.lin, d.num, srv.cached, EtagOf(srv.cached))})
  /\ UNCHANGED <<chains, app, dups, sent, outst>>
CacheExpires == CacheMayExpire /\ srv.cached # 0 /\ srv' = [srv EXCEPT !.cached = 0] /\ UNCHANGED <<chains, chan, app, dups, sent, outst>>

\* ---- client ----
ChainOf(lin) == {i \in 1..Len(chains) : chains[i].lin = lin /\ ~chains[i].done}
Request(lin, num) == [k |-> "req", lin |-> lin, num |-> num]
ClientRecv(d) ==
  /\ d.k = "resp" /\ BagIn(d, chan)
  /\ LET rest == chan (-) SetToBag({d})
         solicited == <<d.lin, d.num>> \in outst
         out1 == outst \ {<<d.lin, d.num>>}
     IN
     IF ChainOf(d.lin) = {}
     THEN \* no lg_crcv for this token: the answer to a request the client did send sets one up; an unsolicited one (a duplicate) does not
          IF solicited /\ Len(chains) < MaxChains /\ d.m
          THEN /\ chains' = Append(chains, [NewChain(d.lin) EXCEPT !.initial = FALSE, !.etag = d.etag, !.have = {d.num}, !.ver = (d.num :> d.v)])
               /\ chan' = rest (+) SetToBag({Request(d.lin, d.num + 1)}) /\ sent' = sent + 1 /\ UNCHANGED app
               /\ outst' = out1 \cup {<<d.lin, d.num + 1>>}
          ELSE /\ chan' = rest /\ outst' = out1 /\ UNCHANGED <<chains, app, sent>>     \* leftover: handed over as received (KF_C09_LEFTOVER...), not modelled further
     ELSE LET i == CHOOSE i \in ChainOf(d.lin) : TRUE
              c0 == chains[i]
              \* the first response after (re)initialisation fixes the ETag - or the absence of one
              c == IF c0.initial THEN [c0 EXCEPT !.initial = FALSE, !.etag = d.etag, !.have = {}, !.ver = [n \in {} |-> 0]] ELSE c0
          IN IF d.etag = 0 /\ c.etag # 0
             THEN \* a block without ETag after blocks with ETag
                  /\ chains' = [chains EXCEPT ![i] = [c EXCEPT !.done = TRUE]]
                  /\ app' = Append(app, IF NoEtagFails THEN [kind |-> "error", data |-> << >>] ELSE [kind |-> "raw", data |-> <<d.v, d.num>>])
                  /\ chan' = rest /\ outst' = out1 /\ UNCHANGED sent
             ELSE IF d.etag # 0 /\ d.etag # c.etag
             THEN \* body changed (an ETag where none was expected compares against a stale one: changed as well): restart
                  LET lin2 == IF RestartKeepsLineage THEN c.lin ELSE c.lin + 10 * (Len(chains) + sent) IN
                  /\ chains' = [chains EXCEPT ![i] = [c EXCEPT !.initial = TRUE, !.have = {}, !.ver = [n \in {} |-> 0]]]
                  /\ chan' = rest (+) SetToBag({Request(lin2, 0)}) /\ sent' = sent + 1 /\ UNCHANGED app
                  /\ outst' = out1 \cup {<<lin2, 0>>}
             ELSE LET c2 == [c EXCEPT !.have = @ \cup {d.num}, !.ver = (d.num :> d.v) @@ @] IN
                  IF c2.have = Blocks
                  THEN /\ chains' = [chains EXCEPT ![i] = [c2 EXCEPT !.done = TRUE]]
                       /\ app' = Append(app, [kind |-> "body", data |-> [n \in Blocks |-> c2.ver[n]]])
                       /\ chan' = rest /\ outst' = out1 /\ UNCHANGED sent
                  ELSE IF d.num \in c.have
                  THEN chains' = [chains EXCEPT ![i] = c] /\ chan' = rest /\ outst' = out1 /\ UNCHANGED <<app, sent>>      \* a block already there: nothing to ask for
                  ELSE /\ chains' = [chains EXCEPT ![i] = c2]
                       /\ chan' = rest (+) SetToBag({Request(c.lin, d.num + 1)}) /\ sent' = sent + 1 /\ UNCHANGED app
                       /\ outst' = out1 \cup {<<c.lin, d.num + 1>>}
  /\ UNCHANGED <<srv, dups>>

Dup(d) == BagIn(d, chan) /\ dups < MaxDup /\ chan' = chan (+) SetToBag({d}) /\ dups' = dups + 1 /\ UNCHANGED <<srv, chains, app, sent, outst>>

AServerRecv == \E d \in BagToSet(chan) : ServerRecv(d)
AClientRecv == \E d \in BagToSet(chan) : ClientRecv(d)
ADup == \E d \in BagToSet(chan) : Dup(d)
ACacheExpires == CacheExpires
Next == AServerRecv \/ AClientRecv \/ ADup \/ ACacheExpires
Spec == Init /\ [][Next]_vars

\* ---- properties ----
\* C09: a body handed to the application is one version of the body, block for block (also when the server's cached body expires in
\* the middle of the transfer and later blocks are served statelessly: MC_Block2_expiry_mix.cfg)
ExactBodyI == \A i \in 1..Len(app) : app[i].kind = "body" => \E v \in 1..MaxVersion : app[i].data = [n \in Blocks |-> v]
\* ... and never a single block passed off as the response
NoRawBlockI == \A i \in 1..Len(app) : app[i].kind # "raw"
\* one transfer, one live reassembly state: a restart must not breed a second chain next to the first
OneLiveChainI == Cardinality({i \in 1..Len(chains) : ~chains[i].done}) <= 1
\* at most one conclusion for the application's request.  NOT an invariant of the design as built: the answer to a follow-up request that is
\* still outstanding when the transfer is failed sets up a reassembly nobody waits for (the shape of KF_C09_LEFTOVER_RESPONSE_KEEPS_STATE_TOKEN);
\* MC_Block2_leftover.cfg shows TLC finding exactly that history
AtMostOnceI == Len(app) <= 1
\* exploration bound (a state constraint, not part of the design)
Bound == sent <= MaxSent
Concluded == Len(app) >= 1
NotConcluded == ~Concluded
=============================================================================
