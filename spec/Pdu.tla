--------------------------------- MODULE Pdu ---------------------------------
(***************************************************************************)
(* The PDU building / editing API as a state machine over the abstract     *)
(* message (token, ordered option list, payload).  One action per public   *)
(* call; each action is a guard `X_may` (the call MAY succeed), `X_must`   *)
(* (it MUST succeed) and a pure effect.  A call that reports refusal must  *)
(* leave the message unchanged.  (Properties C01 and C04.)                 *)
(***************************************************************************)
EXTENDS CoapWire

NonRepeatable == {3, 5, 6, 7, 9, 12, 14, 16, 17, 23, 27, 28, 35, 39, 60, 252, 258}

Size(m)  == VLen(TokBytes(m)) + VLen(Body(m))
Fits(p, m) == p.max = 0 \/ Size(m) <= p.max
IsRequest(m) == m.code >= 1 /\ m.code <= 31
Has(m, num) == \E i \in 1..Len(m.opts) : m.opts[i].num = num
FirstIdx(m, num) == CHOOSE i \in 1..Len(m.opts) : m.opts[i].num = num /\ \A j \in 1..(i - 1) : m.opts[j].num # num

New(ty, code, mid, max) == [m |-> [ty |-> ty, code |-> code, mid |-> mid, tok |-> << >>, opts |-> << >>, pl |-> << >>],
                            max |-> max]

\* insert after every option whose number is <= num: ascending order, insertion order kept among equals
InsertAt(opts, o) ==
  LET k == Cardinality({i \in 1..Len(opts) : opts[i].num <= o.num})
  IN SubSeq(opts, 1, k) \o <<o>> \o SubSeq(opts, k + 1, Len(opts))

WithOpt(m, num, val) == [m EXCEPT !.opts = InsertAt(@, [num |-> num, val |-> val])]
\* RFC 8768: a request that gets a Proxy-Uri / Proxy-Scheme also gets Hop-Limit (16) if it has none
NeedsHop(m, num) == IsRequest(m) /\ num \in {35, 39} /\ ~Has(m, 16)
WithHop(m) == WithOpt(m, 16, <<16>>)

(* coap_add_token: only on a message that has nothing yet *)
AddToken_may(p, val)  == Size(p.m) = 0 /\ VLen(val) <= 65804
AddToken_must(p, val) == AddToken_may(p, val) /\ Fits(p, [p.m EXCEPT !.tok = val])
AddToken_do(p, val)   == [p EXCEPT !.m.tok = val]

(* coap_add_option / coap_insert_option.  `data` = the call may be made with payload present *)
AddOpt_result(p, num, val) == LET m1 == IF NeedsHop(p.m, num) THEN WithHop(p.m) ELSE p.m IN WithOpt(m1, num, val)
AddOpt_may(p, num, val, insert) == insert \/ p.m.pl = << >>
\* must succeed: legal (no illegal repetition), fits with the 2-byte slack band of DESIGN.md 7.1
AddOpt_must(p, num, val, insert) ==
  /\ AddOpt_may(p, num, val, insert)
  /\ ~(num \in NonRepeatable /\ Has(p.m, num))
  /\ (p.max = 0 \/ Size(AddOpt_result(p, num, val)) + 2 <= p.max)
AddOpt_mustnot(p, num, val, insert) ==
  \/ ~AddOpt_may(p, num, val, insert)
  \/ (p.max # 0 /\ Size(WithOpt(p.m, num, val)) > p.max)
AddOpt_do(p, num, val) == [p EXCEPT !.m = AddOpt_result(p, num, val)]
\* on refusal the only change that may remain is the implicit Hop-Limit
AddOpt_refused(p, num) == {p} \cup (IF NeedsHop(p.m, num) THEN {[p EXCEPT !.m = WithHop(p.m)]} ELSE {})

(* coap_update_option: replace the value of the first option with that number, else insert *)
UpdOpt_do(p, num, val) ==
  IF Has(p.m, num) THEN [p EXCEPT !.m.opts[FirstIdx(p.m, num)].val = val] ELSE AddOpt_do(p, num, val)
UpdOpt_must(p, num, val) ==
  IF Has(p.m, num) THEN (p.max = 0 \/ Size(UpdOpt_do(p, num, val).m) <= p.max)
  ELSE AddOpt_must(p, num, val, TRUE)
UpdOpt_mustnot(p, num, val) == p.max # 0 /\ Size(UpdOpt_do(p, num, val).m) > p.max + 2

(* coap_remove_option: remove the first option with that number *)
RemOpt_must(p, num) == Has(p.m, num)
RemOpt_do(p, num) == LET i == FirstIdx(p.m, num) IN
                     [p EXCEPT !.m.opts = SubSeq(@, 1, i - 1) \o SubSeq(@, i + 1, Len(@))]

(* coap_update_token *)
UpdTok_must(p, val) == VLen(val) <= 65804 /\ Fits(p, [p.m EXCEPT !.tok = val])
UpdTok_mustnot(p, val) == VLen(val) > 65804 \/ ~Fits(p, [p.m EXCEPT !.tok = val])
UpdTok_do(p, val) == [p EXCEPT !.m.tok = val]

(* coap_add_data: once; an empty payload is no payload *)
AddData_must(p, val) == val = << >> \/ (p.m.pl = << >> /\ Fits(p, [p.m EXCEPT !.pl = val]))
AddData_mustnot(p, val) == val # << >> /\ (p.m.pl # << >> \/ ~Fits(p, [p.m EXCEPT !.pl = val]))
AddData_do(p, val) == IF val = << >> THEN p ELSE [p EXCEPT !.m.pl = val]

(* Invariants of every reachable builder state *)
WellFormed(p) == Sorted(p.m.opts)
RoundTrips(p) == \A proto \in {"udp", "tcp", "ws"} :
                   LET d == Dec(proto, Enc(proto, p.m)) IN d.ok \in {"ok", "either"} /\ d.m = Norm(proto, p.m)
=============================================================================
