----------------------------- MODULE Gen_Sessions -----------------------------
(***************************************************************************)
(* Direction A for C12: TLC GENERATES behaviours of the session layer and  *)
(* the real libcoap server is stepped through them.                        *)
(*                                                                         *)
(* The actions here are the commands of harness/drv_sess.c (one command =  *)
(* one action), each built from the guards and effects of module Sessions: *)
(*   R(p)    datagram peer p sends a request          Rx                    *)
(*   Rh(p)   ... and the handler keeps a reference    Rx ; Hold "app"       *)
(*   U(p)    the application drops that reference     Unhold "app"          *)
(*   O(p)    p registers an observation               Rx ; Hold "obs"       *)
(*   o(p)    p cancels it (Observe=1)                 Rx ; Unhold "obs"     *)
(*   T / t / th / D   the stream peer connects, sends a request (handler    *)
(*           keeps a reference), goes away            New ; Rx ; Disc       *)
(*   I       one second passes in the I/O loop        Tick                  *)
(* and after every command the I/O loop has done its duty: every idle       *)
(* session that is overdue or closed is gone (Sweep).  Every command takes  *)
(* a little time (clock `clk` = 100 per second + 1 per command), so that    *)
(* "oldest idle session" is decided as the implementation decides it.       *)
(*                                                                         *)
(* Each step appends the command and the set of peers that have a live      *)
(* session AFTER it to `cmds`; a behaviour of Depth commands is printed as  *)
(* JSON (invariant Emit).  checks/sessions.py turns every behaviour into a  *)
(* case of the driver: the command, then `Z <peers>` - the driver logs the  *)
(* prediction as an Expect event and Trace_Sessions compares it with the    *)
(* sessions the implementation really has at that point.                    *)
(***************************************************************************)
EXTENDS Sessions, TLC, Json
CONSTANTS Peers,        \* datagram peers
          Stream,       \* the stream peer (a number not in Peers)
          Timeout,      \* session timeout in seconds
          MaxIdle, MaxSess, MaxSecs, Depth
VARIABLES st, secs, clk, nextId, conn, cmds
vars == <<st, secs, clk, nextId, conn, cmds>>

TO == Timeout * 100
Init == /\ st = [InitSess(TO, MaxIdle) EXCEPT !.streamPeers = {Stream}] /\ secs = 0 /\ clk = 0 /\ nextId = 1 /\ conn = "never" /\ cmds = << >>

Free(s0, x) == [Del_do(s0, x) EXCEPT !.objs = @ \ {x}]
Due(s0, t) == {x \in IdleSet(s0) : Overdue(s0, x, t) \/ x \in s0.closed}
RECURSIVE Sweep(_, _)
Sweep(s0, t) == IF Due(s0, t) = {} THEN s0 ELSE Sweep(Free(s0, CHOOSE x \in Due(s0, t) : TRUE), t)

\* a datagram (or the connection) of peer p at time t: lookup, else evict the oldest idle session at the limit, then create
RxAt(s0, p, t, id) ==
  IF p \in DOMAIN s0.map THEN Touch_do(s0, s0.map[p], t)
  ELSE LET \* the idle limit is kept per endpoint: the stream session belongs to another endpoint than the datagram peers' sessions
           idle == {x \in IdleSet(s0) : s0.peer[x] # Stream}
           evict == p # Stream /\ s0.maxidle > 0 /\ Cardinality(idle) >= s0.maxidle
           s1 == IF evict THEN Free(s0, CHOOSE v \in idle : \A o \in idle : s0.last[v] <= s0.last[o]) ELSE s0
           s2 == [s1 EXCEPT !.objs = @ \cup {id}]
       IN New_do(s2, id, p, t)
NeedsNew(p) == p \notin DOMAIN st.map

Step(c, p, s1) ==
  LET t == clk + 1
      s2 == Sweep(s1, t) IN
  /\ Len(cmds) < Depth
  /\ st' = s2 /\ clk' = t
  /\ cmds' = Append(cmds, [c |-> c, p |-> p, live |-> DOMAIN s2.map])
  /\ UNCHANGED secs

R(p)  == /\ (NeedsNew(p) => nextId <= MaxSess)
         /\ Step("R", p, RxAt(st, p, clk + 1, nextId)) /\ nextId' = (IF NeedsNew(p) THEN nextId + 1 ELSE nextId) /\ UNCHANGED conn
Rh(p) == /\ (NeedsNew(p) => nextId <= MaxSess)
         /\ LET s1 == RxAt(st, p, clk + 1, nextId) IN
            /\ "app" \notin Holders(s1, s1.map[p])
            /\ Step("Rh", p, Hold_do(s1, s1.map[p], "app"))
         /\ nextId' = (IF NeedsNew(p) THEN nextId + 1 ELSE nextId) /\ UNCHANGED conn
U(p)  == /\ p \in DOMAIN st.map /\ "app" \in Holders(st, st.map[p])
         /\ Step("U", p, Unhold_do(st, st.map[p], "app")) /\ UNCHANGED <<nextId, conn>>
O(p)  == /\ (NeedsNew(p) => nextId <= MaxSess)
         /\ LET s1 == RxAt(st, p, clk + 1, nextId) IN Step("O", p, Hold_do(s1, s1.map[p], "obs"))
         /\ nextId' = (IF NeedsNew(p) THEN nextId + 1 ELSE nextId) /\ UNCHANGED conn
Oc(p) == /\ p \in DOMAIN st.map /\ "obs" \in Holders(st, st.map[p])
         /\ LET s1 == RxAt(st, p, clk + 1, nextId) IN Step("o", p, Unhold_do(s1, s1.map[p], "obs"))
         /\ UNCHANGED <<nextId, conn>>
\* the stream peer: connects once
T  == /\ conn = "never" /\ nextId <= MaxSess
      /\ Step("T", Stream, RxAt(st, Stream, clk + 1, nextId)) /\ nextId' = nextId + 1 /\ conn' = "up"
Ts == /\ conn = "up" /\ Stream \in DOMAIN st.map
      /\ Step("t", Stream, RxAt(st, Stream, clk + 1, nextId)) /\ UNCHANGED <<nextId, conn>>
Th == /\ conn = "up" /\ Stream \in DOMAIN st.map /\ "app" \notin Holders(st, st.map[Stream])
      /\ LET s1 == RxAt(st, Stream, clk + 1, nextId) IN Step("th", Stream, Hold_do(s1, s1.map[Stream], "app"))
      /\ UNCHANGED <<nextId, conn>>
Us == /\ Stream \in DOMAIN st.map /\ "app" \in Holders(st, st.map[Stream])
      /\ Step("U", Stream, Unhold_do(st, st.map[Stream], "app")) /\ UNCHANGED <<nextId, conn>>
D  == /\ conn = "up" /\ Stream \in DOMAIN st.map
      /\ Step("D", Stream, Disc_do(st, st.map[Stream])) /\ conn' = "gone" /\ UNCHANGED nextId
\* one second in the I/O loop
I  == /\ secs < MaxSecs /\ Len(cmds) < Depth
      /\ LET t == clk + 100
             s2 == Sweep(st, t) IN
         /\ st' = s2 /\ clk' = t /\ secs' = secs + 1
         /\ cmds' = Append(cmds, [c |-> "I", p |-> 0, live |-> DOMAIN s2.map])
      /\ UNCHANGED <<nextId, conn>>

Next == \/ \E p \in Peers : R(p) \/ Rh(p) \/ U(p) \/ O(p) \/ Oc(p)
        \/ T \/ Ts \/ Th \/ Us \/ D \/ I
Spec == Init /\ [][Next]_vars

\* what Sessions promises, on the generator itself
OneToOneI == OneToOne(st)
HeldAreLiveI == HeldAreLive(st)
NothingOverdueI == NothingOverdue(st, clk)
\* a complete behaviour is printed (simulation mode: once per behaviour)
Emit == Len(cmds) < Depth \/ PrintT(<<"BEH", ToJson(cmds)>>)
=============================================================================
