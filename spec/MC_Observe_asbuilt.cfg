SPECIFICATION Spec
CONSTANTS
  Clients = {1, 2}
  Start = 16777214
  MaxChanges = 4
  ResourceWideDirty = TRUE
INVARIANTS MonotoneStrict
CONSTRAINT Bound
CHECK_DEADLOCK FALSE
