------------------------------- MODULE Block -------------------------------
(***************************************************************************)
(* Block-wise transfer (RFC 7959) as libcoap performs it on behalf of the  *)
(* application: geometry of blocks, and what the two applications may see. *)
(* Shared by the closed model (MC_Block) and the trace spec (Trace_Block).  *)
(***************************************************************************)
EXTENDS Naturals, Integers, Sequences, FiniteSets

Min2(a, b) == IF a < b THEN a ELSE b
Pow2(n) == IF n = 0 THEN 1 ELSE IF n = 1 THEN 2 ELSE IF n = 2 THEN 4 ELSE IF n = 3 THEN 8 ELSE IF n = 4 THEN 16
           ELSE IF n = 5 THEN 32 ELSE IF n = 6 THEN 64 ELSE IF n = 7 THEN 128 ELSE IF n = 8 THEN 256 ELSE IF n = 9 THEN 512 ELSE 1024
BlockSize(szx) == Pow2(szx + 4)                          \* SZX 0..6 -> 16..1024
\* bytes of body (length L) carried by block num at block size B, and whether more follows
SliceLen(L, B, num) == IF num * B >= L THEN 0 ELSE Min2(B, L - num * B)
More(L, B, num)     == (num + 1) * B < L
NBlocks(L, B)       == IF L = 0 THEN 1 ELSE (L + B - 1) \div B
\* the test pattern bodies are made of (harness/drv_block.c pat())
Pat(id, i) == (131 * id + 7 * i + (i \div 256)) % 256

(* A delivery to an application is [off, n, total, bid]: n bytes that equal bytes off..off+n-1 of pattern bid
   (bid = -2: no bytes, -1: bytes that are no slice of any submitted body).                                    *)
\* single-body mode: the only thing the receiving application may obtain for a body (bid, L)
IsWholeBody(d, bid, L) == d.off = 0 /\ d.n = L /\ d.total = L /\ (L = 0 \/ d.bid = bid)
\* per-block mode: a block-aligned slice of it, with the right total
IsBlockOf(d, bid, L, B) ==
  /\ ((d.off % B = 0 /\ d.off < L) \/ (L = 0 /\ d.off = 0))
  /\ d.n = SliceLen(L, B, d.off \div B)
  /\ d.total = L
  /\ (d.n = 0 \/ d.bid = bid)
\* a sequence of [off, n] deliveries tiles [0, L) exactly, in order, without repeats
RECURSIVE TilesFrom(_, _, _)
TilesFrom(ds, at, L) == IF ds = << >> THEN at = L
                        ELSE ds[1].off = at /\ TilesFrom(Tail(ds), at + ds[1].n, L)
Tiles(ds, L) == IF L = 0 THEN Len(ds) <= 1 ELSE TilesFrom(ds, 0, L)
\* ... or covers it when identical repeats are allowed (latitude: per-block mode does no request de-duplication)
RECURSIVE CoversFrom(_, _, _)
CoversFrom(S, at, L) == IF at >= L THEN at = L ELSE \E d \in S : d.off = at /\ d.n > 0 /\ CoversFrom(S, at + d.n, L)
Covers(ds, L) == L = 0 \/ CoversFrom({ds[k] : k \in 1..Len(ds)}, 0, L)
=============================================================================
