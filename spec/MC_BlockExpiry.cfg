SPECIFICATION Spec
CONSTANTS
  NB = 12
  Timeout = 5
  Delay = 2
  MaxLoss = 1
  ByProgress = TRUE
  MaxTime = 40
INVARIANTS ProgressNeverExpiresI AbandonedGoesI CompletesI
CHECK_DEADLOCK FALSE
