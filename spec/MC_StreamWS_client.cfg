SPECIFICATION Spec
CONSTANTS
  Streams <- ClientStreams
  Srv = FALSE
  MaxChunk = 17
  Drain = TRUE
  KeepPartial = TRUE
INVARIANTS PrefixI AtRestI BoundedI
CHECK_DEADLOCK FALSE
