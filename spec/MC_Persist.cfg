SPECIFICATION Spec
CONSTANTS
  NewRec = 2
  InPlace = FALSE
INVARIANTS OldOrNew DoneIsNew
CHECK_DEADLOCK FALSE
