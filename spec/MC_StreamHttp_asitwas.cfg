SPECIFICATION Spec
CONSTANTS
  Streams <- HsSet
  MaxChunk = 16
  Variant = "asitwas"
INVARIANTS BoundedI
CHECK_DEADLOCK FALSE
