SPECIFICATION Spec
CONSTANTS
  Streams <- HsSet
  MaxChunk = 16
  Variant = "asitwas"
INVARIANTS AtRestI LeftoverI BoundedI
CHECK_DEADLOCK FALSE
