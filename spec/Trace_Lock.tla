------------------------------ MODULE Trace_Lock ------------------------------
(***************************************************************************)
(* Trace specification for C13: events recorded from real threads          *)
(* (harness/drv_lock.c).  Acquire / Release come from taps on libcoap's    *)
(* global mutex (written while the mutex is held), ApiEnter / ApiExit and  *)
(* CbEnter / CbExit from the application.  The lock is modelled as in      *)
(* module Lock: one holder at a time; a public call that is documented as  *)
(* serialised must hold the lock at some point between its entry and exit  *)
(* (it may already hold it when called from a kept callback); nothing may  *)
(* stay locked when a top-level call has returned; every call returns.     *)
(***************************************************************************)
EXTENDS Naturals, Integers, Sequences, FiniteSets, TLC, Json, IOUtils
TraceLog == ndJsonDeserialize(IOEnv.TRACE)
OutFile  == IOEnv.OUT
None == -1
MustLock == {"io_process", "new_pdu", "send", "notify", "new_session", "session_release", "resource_add", "resource_delete",
             "max_pdu_size", "io_pending", "session_ping", "session_reference"}
VARIABLES l, rej, holder, frames, supported, nacq, ncalls, done
vars == <<l, rej, holder, frames, supported, nacq, ncalls, done>>
\* frames[t]: stack of [api, locked] for the calls thread t is inside (callbacks are transparent)
Thr == 0..15
Init == /\ l = 1 /\ rej = << >> /\ holder = None /\ frames = [t \in Thr |-> << >>] /\ supported = TRUE /\ nacq = 0 /\ ncalls = 0 /\ done = FALSE
Reject(why) == rej' = IF why = "" \/ Len(rej) >= 20 THEN rej ELSE Append(rej, [id |-> 0, line |-> l, why |-> why])
MarkLocked(st) == [i \in 1..Len(st) |-> [st[i] EXCEPT !.locked = TRUE]]

Consume ==
  /\ l <= Len(TraceLog)
  /\ LET e == TraceLog[l] IN
     CASE e.e = "Reset" -> supported' = (e.supported = 1) /\ UNCHANGED <<rej, holder, frames, nacq, ncalls, done>>
       [] e.e = "Acquire" ->
            /\ Reject(IF holder # None THEN "C13:lock-acquired-while-another-thread-holds-it" ELSE "")
            /\ holder' = e.thr /\ frames' = [frames EXCEPT ![e.thr] = MarkLocked(@)] /\ nacq' = nacq + 1
            /\ UNCHANGED <<supported, ncalls, done>>
       [] e.e = "Release" ->
            /\ Reject(IF holder # e.thr THEN "C13:lock-released-by-a-thread-that-does-not-hold-it" ELSE "")
            /\ holder' = None /\ UNCHANGED <<frames, supported, nacq, ncalls, done>>
       [] e.e = "ApiEnter" ->
            /\ frames' = [frames EXCEPT ![e.thr] = Append(@, [api |-> e.api, locked |-> (holder = e.thr)])]
            /\ ncalls' = ncalls + 1 /\ UNCHANGED <<rej, holder, supported, nacq, done>>
       [] e.e = "ApiExit" ->
            LET st == frames[e.thr]
                f == st[Len(st)]
                outer == Len(st) = 1
            IN /\ Reject(IF ~supported THEN ""
                         ELSE IF f.api \in MustLock /\ ~f.locked THEN "C13:public-call-ran-without-holding-the-global-lock"
                         ELSE IF outer /\ holder = e.thr THEN "C13:global-lock-still-held-after-the-call-returned"
                         ELSE "")
               /\ frames' = [frames EXCEPT ![e.thr] = SubSeq(st, 1, Len(st) - 1)]
               /\ UNCHANGED <<holder, supported, nacq, ncalls, done>>
       [] e.e = "Stall" -> Reject(IF supported THEN "C13:call-never-completed-threads-blocked-forever" ELSE "") /\ UNCHANGED <<holder, frames, supported, nacq, ncalls, done>>
       [] e.e = "End" ->
            /\ Reject(IF supported /\ ~e.stalled /\ ~("died" \in DOMAIN e /\ e.died) /\ (holder # None \/ \E t \in Thr : frames[t] # << >>) THEN "C13:lock-or-call-outstanding-at-the-end" ELSE "")
            /\ done' = TRUE /\ UNCHANGED <<holder, frames, supported, nacq, ncalls>>
       [] OTHER -> UNCHANGED <<rej, holder, frames, supported, nacq, ncalls, done>>
  /\ l' = l + 1
Finish == /\ l = Len(TraceLog) + 1
          /\ JsonSerialize(OutFile, [rejected |-> rej, executions |-> 1, discarded |-> IF supported THEN 0 ELSE 1, known |-> {}, lines |-> Len(TraceLog),
                                     acquires |-> nacq, calls |-> ncalls, ended |-> done])
          /\ l' = l + 1 /\ UNCHANGED <<rej, holder, frames, supported, nacq, ncalls, done>>
Next == Consume \/ Finish
Spec == Init /\ [][Next]_vars
=============================================================================
