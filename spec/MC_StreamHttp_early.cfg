SPECIFICATION Spec
CONSTANTS
  Streams <- HsSet
  MaxChunk = 16
  Variant = "early"
INVARIANTS AtRestI LeftoverI BoundedI
CHECK_DEADLOCK FALSE
