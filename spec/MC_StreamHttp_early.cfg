SPECIFICATION Spec
CONSTANTS
  Streams <- HsSet
  MaxChunk = 16
  Variant = "early"
INVARIANTS AtRestI
CHECK_DEADLOCK FALSE
