------------------------------ MODULE MC_Gate ------------------------------
(***************************************************************************)
(* Closed model of the send gate of a (D)TLS client session as libcoap      *)
(* builds it: coap_send_pdu() delays everything until the session is        *)
(* ESTABLISHED, coap_session_connected() flushes the delay queue in order,  *)
(* coap_session_disconnected() NACKs what is queued.  The handshake's       *)
(* outcome is the environment's choice, constrained by whether the          *)
(* credentials match.                                                       *)
(***************************************************************************)
EXTENDS Naturals, Sequences, FiniteSets, TLC
CONSTANTS NReq, Matching
VARIABLES state, submitted, delayq, wire, delivered, nacked
vars == <<state, submitted, delayq, wire, delivered, nacked>>
Init == state = "handshake" /\ submitted = 0 /\ delayq = << >> /\ wire = << >> /\ delivered = << >> /\ nacked = << >>
Submit == /\ submitted < NReq /\ state # "closed"
          /\ submitted' = submitted + 1
          /\ IF state = "established"
             THEN wire' = Append(wire, [m |-> submitted + 1, protected |-> TRUE]) /\ UNCHANGED delayq
             ELSE delayq' = Append(delayq, submitted + 1) /\ UNCHANGED wire
          /\ UNCHANGED <<state, delivered, nacked>>
Connected == /\ state = "handshake" /\ Matching
             /\ state' = "established"
             /\ wire' = wire \o [i \in 1..Len(delayq) |-> [m |-> delayq[i], protected |-> TRUE]]       \* flushed in order
             /\ delayq' = << >> /\ UNCHANGED <<submitted, delivered, nacked>>
Failed == /\ state = "handshake"                      \* abandoned, or the application releases the session
          /\ state' = "closed" /\ nacked' = nacked \o delayq /\ delayq' = << >>
          /\ UNCHANGED <<submitted, wire, delivered>>
Deliver == /\ Len(delivered) < Len(wire)
           /\ delivered' = Append(delivered, wire[Len(delivered) + 1].m)
           /\ UNCHANGED <<state, submitted, delayq, wire, nacked>>
Next == Submit \/ Connected \/ Failed \/ Deliver
Spec == Init /\ [][Next]_vars
\* nothing reaches the peer's handler unless the handshake completed with matching credentials
GateI == delivered # << >> => Matching /\ state = "established"
\* nothing the application queued goes out unprotected
NoCleartextI == \A i \in 1..Len(wire) : wire[i].protected
\* queued messages are delivered in order, each at most once, or reported by exactly one NACK
OrderI == \A i \in 1..Len(delivered) : delivered[i] = i
OneOutcomeI == \A m \in 1..submitted :
                 Cardinality({i \in 1..Len(nacked) : nacked[i] = m}) + Cardinality({i \in 1..Len(wire) : wire[i].m = m})
                   + Cardinality({i \in 1..Len(delayq) : delayq[i] = m}) = 1
MismatchNeverEstablishedI == ~Matching => state # "established"
=============================================================================
