SPECIFICATION Spec
CONSTANTS
  Peers = {1, 2, 3}
  Stream = 56
  Timeout = 2
  MaxIdle = 2
  MaxSess = 6
  MaxSecs = 6
  Depth = 14
INVARIANTS OneToOneI HeldAreLiveI NothingOverdueI Emit
CHECK_DEADLOCK FALSE
