-------------------------------- MODULE Gate --------------------------------
(***************************************************************************)
(* C19: a (D)TLS session carries application data only after a handshake   *)
(* that both sides' credentials let complete.                               *)
(*   cfg.cid / cfg.ckey   identity and key the client presents              *)
(*   cfg.table            the server's identity -> key table (sequence of   *)
(*                        <<identity, key>>), cfg.idcb: the server looks    *)
(*                        the identity up (else one key serves everybody)   *)
(*   cfg.acc              the client accepts the server's identity hint     *)
(*   cfg.snicb            the server keeps per-server-name credentials      *)
(*                        (validate_sni_call_back): cfg.snitable is its     *)
(*                        <<name, key>> table, cfg.sni the name the client   *)
(*                        asks for ("" = none).  A name the table does not   *)
(*                        have ends the handshake; a name it has selects     *)
(*                        that entry's key for the session - on the first    *)
(*                        session that names it and on every later one.      *)
(***************************************************************************)
EXTENDS Naturals, Integers, Sequences, FiniteSets
SniKeys(cfg) == {cfg.snitable[i][2] : i \in {j \in 1..Len(cfg.snitable) : cfg.snitable[j][1] = cfg.sni}}
KeyFor(cfg) == IF cfg.snicb THEN SniKeys(cfg)
               ELSE IF cfg.idcb
               THEN {cfg.table[i][2] : i \in {j \in 1..Len(cfg.table) : cfg.table[j][1] = cfg.cid}}
               ELSE IF Len(cfg.table) >= 1 THEN {cfg.table[1][2]} ELSE {}
\* the handshake can complete: identity known to the server, same key on both sides, hint accepted by the client
Match(cfg) == cfg.acc /\ cfg.ckey \in KeyFor(cfg) /\ cfg.ckey # ""
\* first byte of a DTLS record is a content type (20..25); a CoAP header starts with version 1: 0x40..0x7f
IsCleartextCoap(b0) == b0 >= 64 /\ b0 <= 127
=============================================================================
