------------------------------ MODULE MC_Observe ------------------------------
(* Closed model for C11: clients register / re-register / cancel, the application signals changes, the library notifies
   (coalescing allowed), notifications can be reset or fail; invariants: notifications only to registered observers,
   strictly fresher Observe values (24-bit wrap), at most five NON in a row, one entry per (client, resource, query). *)
EXTENDS Observe
CONSTANTS Clients, Start, MaxChanges, ResourceWideDirty
VARIABLES s, counter, dirty, changes, sentTo
vars == <<s, counter, dirty, changes, sentTo>>
Keys == {<<c, 0, "">> : c \in Clients}
Init == s = InitObs(0) /\ counter = Start /\ dirty = {} /\ changes = 0 /\ sentTo = << >>
\* The registration response carries the current value and state: for that observer nothing is pending any more.  That is the design
\* (dirty is kept per observer).  libcoap keeps ONE dirty flag per resource (plus per-observer flags for deferred sends): a pass that is
\* still pending when a registration arrives notifies the new observer too - with the value its registration response already carried
\* (ResourceWideDirty = TRUE, KF_C11_PENDING_CHANGE_REPEATS_REGISTRATION_VALUE; MC_Observe_asbuilt.cfg lets TLC find it).
ARegister == \E k \in Keys : /\ s' = Register_do(s, k, k[1], counter, changes)
                             /\ dirty' = IF ResourceWideDirty THEN (IF dirty # {} THEN dirty \cup {k} ELSE dirty) ELSE dirty \ {k}
                             /\ UNCHANGED <<counter, changes, sentTo>>
ACancel   == \E k \in DOMAIN s.obs : /\ s' = Deregister_do(s, k) /\ dirty' = dirty \ {k} /\ UNCHANGED <<counter, changes, sentTo>>
AChange   == /\ changes < MaxChanges /\ DOMAIN s.obs # {} /\ counter' = (counter + 1) % Mod /\ dirty' = DOMAIN s.obs /\ changes' = changes + 1
             /\ UNCHANGED <<s, sentTo>>
ANotify   == \E k \in dirty, con \in BOOLEAN :
               /\ Notify_registered(s, k) /\ Notify_type(s, k, con)
               /\ s' = Notify_do(s, k, counter, con, changes) /\ dirty' = dirty \ {k}
               /\ sentTo' = Append(sentTo, [k |-> k, val |-> counter, prev |-> s.obs[k].last]) /\ UNCHANGED <<counter, changes>>
AReset    == \E k \in DOMAIN s.obs : s' = Deregister_do(s, k) /\ dirty' = dirty \ {k} /\ UNCHANGED <<counter, changes, sentTo>>
Next == ARegister \/ ACancel \/ AChange \/ ANotify \/ AReset
Spec == Init /\ [][Next]_vars
FairSpec == Spec /\ WF_vars(ANotify)
Monotone == \A i \in 1..Len(sentTo) : sentTo[i].prev < 0 \/ sentTo[i].prev = sentTo[i].val \/ Fresher(sentTo[i].prev, sentTo[i].val)
\* ... strictly: never the value the observer already has
MonotoneStrict == \A i \in 1..Len(sentTo) : sentTo[i].prev < 0 \/ Fresher(sentTo[i].prev, sentTo[i].val)
StrictAfterChange == \A k \in DOMAIN s.obs : s.obs[k].non <= MaxNon
OneEntry == \A k1, k2 \in DOMAIN s.obs : (k1[1] = k2[1] /\ k1[2] = k2[2] /\ k1[3] = k2[3]) => k1 = k2
DirtyRegistered == dirty \subseteq DOMAIN s.obs
EventuallyClean == <>[](dirty = {})
Bound == Len(sentTo) <= 2 * MaxChanges + 2
=============================================================================
