SPECIFICATION Spec
CONSTANTS
  Streams <- ClientStreams
  Srv = FALSE
  MaxChunk = 17
  Drain = FALSE
  KeepPartial = TRUE
INVARIANTS AtRestI
CHECK_DEADLOCK FALSE
