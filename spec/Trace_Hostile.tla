---------------------------- MODULE Trace_Hostile ----------------------------
(* Trace specification for C02 (harness/drv_hostile.c): every scripted datagram is delivered alone and followed by a
   quiet period; handler invocations (H) and emitted datagrams (Out) inside that window belong to it.  Valid marks
   well-formed traffic of the driver itself (state set-up, canary), which is not judged here. *)
EXTENDS Hostile, TLC, Json, IOUtils
TraceLog == ndJsonDeserialize(IOEnv.TRACE)
OutFile  == IOEnv.OUT
VARIABLES l, rej, cur, skip, verdict, silent, nexec, nin, nbad, nhandled
vars == <<l, rej, cur, skip, verdict, silent, nexec, nin, nbad, nhandled>>
\* verdict: "none" outside a hostile window, else Verdict of the datagram being processed

Why(e) ==
  CASE e.e = "H" -> IF verdict = "bad" THEN "C02:malformed-input-handed-to-an-application-handler" ELSE ""
    [] e.e = "Out" -> IF silent /\ ~IsOwnRequest(e.code) THEN "C02:datagram-that-must-be-silently-ignored-was-answered"
                      ELSE IF verdict = "bad" /\ ~ReplyAllowedForMalformed(e.ty, e.code) THEN "C02:malformed-input-answered-with-something-other-than-reset-or-error" ELSE ""
    [] e.e = "Canary" -> IF e.ok = 1 THEN "" ELSE "C02:endpoint-no-longer-answers-a-well-formed-request-correctly"
    [] e.e = "Hang" -> "C02:endpoint-never-became-quiet"
    [] e.e = "Crash" -> "C02:crash-abort-or-sanitizer-report"
    [] OTHER -> ""
Init == /\ l = 1 /\ rej = << >> /\ cur = -1 /\ skip = TRUE /\ verdict = "none" /\ silent = FALSE /\ nexec = 0 /\ nin = 0 /\ nbad = 0 /\ nhandled = 0
Consume ==
  /\ l <= Len(TraceLog)
  /\ LET e == TraceLog[l] IN
     IF e.e = "Reset"
     THEN /\ cur' = e.id /\ skip' = FALSE /\ verdict' = "none" /\ silent' = FALSE /\ nexec' = nexec + 1 /\ UNCHANGED <<rej, nin, nbad, nhandled>>
     ELSE IF skip /\ e.e # "Crash" THEN UNCHANGED <<rej, cur, skip, verdict, silent, nexec, nin, nbad, nhandled>>
     ELSE LET why == Why(e) IN
          /\ verdict' = IF e.e = "In" THEN Verdict(e.w) ELSE IF e.e \in {"Quiet", "Valid"} THEN "none" ELSE verdict
          /\ silent' = IF e.e = "In" THEN SilentlyIgnored(e.w) ELSE IF e.e \in {"Quiet", "Valid"} THEN FALSE ELSE silent
          /\ rej' = IF why = "" THEN rej ELSE Append(rej, [id |-> cur, line |-> l, why |-> why])
          /\ skip' = (why # "")
          /\ nin' = nin + (IF e.e = "In" THEN 1 ELSE 0)
          /\ nbad' = nbad + (IF e.e = "In" /\ Verdict(e.w) = "bad" THEN 1 ELSE 0)
          /\ nhandled' = nhandled + (IF e.e = "H" /\ verdict # "none" THEN 1 ELSE 0)
          /\ UNCHANGED <<cur, nexec>>
  /\ l' = l + 1
Finish == /\ l = Len(TraceLog) + 1
          /\ JsonSerialize(OutFile, [rejected |-> rej, executions |-> nexec, discarded |-> 0, known |-> {}, lines |-> Len(TraceLog),
                                     inputs |-> nin, malformed |-> nbad, handled |-> nhandled])
          /\ l' = l + 1 /\ UNCHANGED <<rej, cur, skip, verdict, silent, nexec, nin, nbad, nhandled>>
Next == Consume \/ Finish
Spec == Init /\ [][Next]_vars
=============================================================================
