SPECIFICATION Spec
CONSTANTS
  NB = 3
  MaxVersion = 3
  MaxDup = 1
  FreshEtag = TRUE
  CacheMayExpire = FALSE
  RestartKeepsLineage = FALSE
  NoEtagFails = TRUE
  MaxChains = 3
  MaxSent = 7
INVARIANTS OneLiveChainI
CONSTRAINT Bound
CHECK_DEADLOCK FALSE
