------------------------------- MODULE CoapWire -------------------------------
(***************************************************************************)
(* The CoAP message formats as pure operators, written from the RFCs:      *)
(*   RFC 7252 §3, §3.1 (datagram format, option delta/length encoding)     *)
(*   RFC 8323 §3.2, §3.3 (TCP/TLS Len|TKL header forms, WebSocket Len = 0) *)
(*   RFC 8974 §2.1 (extended token length, TKL 13 / 14, 15 reserved)       *)
(* plus the per-option length limits of RFC 7252 §5.10 and its extensions. *)
(*                                                                         *)
(* A byte string is a sequence of ATOMS.  An atom < 256 is a literal byte. *)
(* An atom >= 256 is a RUN: Run(id, n) stands for the n bytes              *)
(* Pat(id,0..n-1); it abbreviates long opaque values (tokens, option       *)
(* values, payloads, n >= 16) so that 64 KiB messages stay small.  Framing *)
(* bytes are never abbreviated.  (DESIGN.md §2.4.)                         *)
(***************************************************************************)
EXTENDS Naturals, Integers, Sequences, FiniteSets, TLC

RunBase == 256
RunMul  == 131072
Pat(id, i) == (131 * id + 7 * i + (i \div 256)) % 256
Run(id, n) == RunBase + id * RunMul + n
IsRun(a)   == a >= RunBase
ALen(a)    == IF a < RunBase THEN 1 ELSE (a - RunBase) % RunMul
Blob(id, n) == IF n < 16 THEN [i \in 1..n |-> Pat(id, i - 1)] ELSE <<Run(id, n)>>

RECURSIVE VLenFrom(_, _)
VLenFrom(v, i) == IF i > Len(v) THEN 0 ELSE ALen(v[i]) + VLenFrom(v, i + 1)
\* length in bytes of an atom sequence
VLen(v) == IF \A i \in 1..Len(v) : v[i] < RunBase THEN Len(v) ELSE VLenFrom(v, 1)

(* ------------------------------------------------------------------------ *)
(* Encoding                                                                 *)
(* ------------------------------------------------------------------------ *)
Nib(x) == IF x < 13 THEN x ELSE IF x < 269 THEN 13 ELSE 14
Ext(x) == IF x < 13 THEN << >>
          ELSE IF x < 269 THEN <<x - 13>>
          ELSE <<(x - 269) \div 256, (x - 269) % 256>>

\* one option with number delta d and value v (RFC 7252 §3.1)
EncOpt(d, v) == <<Nib(d) * 16 + Nib(VLen(v))>> \o Ext(d) \o Ext(VLen(v)) \o v

RECURSIVE EncOptsFrom(_, _, _)
EncOptsFrom(opts, i, prev) ==
  IF i > Len(opts) THEN << >>
  ELSE EncOpt(opts[i].num - prev, opts[i].val) \o EncOptsFrom(opts, i + 1, opts[i].num)
EncOpts(opts) == EncOptsFrom(opts, 1, 0)

\* options, then payload marker and payload if there is a payload
Body(m) == EncOpts(m.opts) \o (IF m.pl = << >> THEN << >> ELSE <<255>> \o m.pl)

\* token length field and extension (RFC 8974 §2.1)
TokField(m) == Nib(VLen(m.tok))
TokBytes(m) == Ext(VLen(m.tok)) \o m.tok

EncUDP(m) == <<64 + m.ty * 16 + TokField(m), m.code, m.mid \div 256, m.mid % 256>> \o TokBytes(m) \o Body(m)

\* RFC 8323 §3.2: Len counts options + marker + payload
LenNib(L) == IF L < 13 THEN L ELSE IF L < 269 THEN 13 ELSE IF L < 65805 THEN 14 ELSE 15
LenExt(L) == IF L < 13 THEN << >>
             ELSE IF L < 269 THEN <<L - 13>>
             ELSE IF L < 65805 THEN <<(L - 269) \div 256, (L - 269) % 256>>
             ELSE LET x == L - 65805 IN <<x \div 16777216, (x \div 65536) % 256, (x \div 256) % 256, x % 256>>
EncTCP(m) == LET L == VLen(Body(m)) IN
             <<LenNib(L) * 16 + TokField(m)>> \o LenExt(L) \o <<m.code>> \o TokBytes(m) \o Body(m)
\* RFC 8323 §4.2... WebSocket: Len nibble is 0, the frame delimits the message
EncWS(m)  == <<TokField(m), m.code>> \o TokBytes(m) \o Body(m)

Enc(proto, m) == CASE proto = "udp" -> EncUDP(m) [] proto = "tcp" -> EncTCP(m) [] proto = "ws" -> EncWS(m)

\* what survives a given framing: reliable transports carry neither type nor message id
Norm(proto, m) == IF proto = "udp" THEN m ELSE [m EXCEPT !.ty = 0, !.mid = 0]

(* ------------------------------------------------------------------------ *)
(* Per-option length limits                                                 *)
(* RFC 7252 Table 4, RFC 7641, RFC 7959, RFC 7967, RFC 8613, RFC 8768,      *)
(* RFC 9175.  Result: "ok", "bad", or "either" on the three cells where the *)
(* RFC and libcoap's table differ (DESIGN.md §4/C03 Latitude).              *)
(* ------------------------------------------------------------------------ *)
In(len, lo, hi) == IF lo <= len /\ len <= hi THEN "ok" ELSE "bad"
OptLen(num, len) ==
  CASE num = 1  -> In(len, 0, 8)        \* If-Match
    [] num = 3  -> In(len, 1, 255)      \* Uri-Host
    [] num = 4  -> In(len, 1, 8)        \* ETag
    [] num = 5  -> In(len, 0, 0)        \* If-None-Match
    [] num = 6  -> In(len, 0, 3)        \* Observe
    [] num = 7  -> In(len, 0, 2)        \* Uri-Port
    [] num = 8  -> In(len, 0, 255)      \* Location-Path
    [] num = 9  -> In(len, 0, 255)      \* OSCORE
    [] num = 11 -> In(len, 0, 255)      \* Uri-Path
    [] num = 12 -> In(len, 0, 2)        \* Content-Format
    [] num = 14 -> In(len, 0, 4)        \* Max-Age
    [] num = 15 -> IF len = 0 THEN "either" ELSE In(len, 1, 255)   \* Uri-Query (RFC: 0-255; libcoap: 1-255)
    [] num = 16 -> In(len, 1, 1)        \* Hop-Limit
    [] num = 17 -> In(len, 0, 2)        \* Accept
    [] num = 20 -> In(len, 0, 255)      \* Location-Query
    [] num = 23 -> In(len, 0, 3)        \* Block2
    [] num = 27 -> In(len, 0, 3)        \* Block1
    [] num = 28 -> In(len, 0, 4)        \* Size2
    [] num = 35 -> In(len, 1, 1034)     \* Proxy-Uri
    [] num = 39 -> In(len, 1, 255)      \* Proxy-Scheme
    [] num = 60 -> In(len, 0, 4)        \* Size1
    [] num = 252 -> IF len = 0 THEN "either" ELSE In(len, 1, 40)   \* Echo (RFC 9175: 1-40; libcoap: 0-40)
    [] num = 258 -> In(len, 0, 1)       \* No-Response
    [] num = 292 -> In(len, 0, 8)       \* Request-Tag
    [] num \in {19, 31} -> IF len > 3 THEN "either" ELSE "ok"      \* Q-Block1/2 (RFC 9177: 0-3; libcoap: unchecked)
    [] OTHER -> "ok"

\* Signalling messages (RFC 8323 §5, RFC 8974 §2.2.1); only the options of the code's own table are judged
SigLen(code, num, len) ==
  CASE code = 225 /\ num = 2 -> In(len, 0, 4)
    [] code = 225 /\ num = 4 -> In(len, 0, 0)
    [] code = 225 /\ num = 6 -> In(len, 0, 3)
    [] code \in {226, 227} /\ num = 2 -> In(len, 0, 0)
    [] code = 228 /\ num = 2 -> In(len, 1, 255)
    [] code = 228 /\ num = 4 -> In(len, 0, 3)
    [] code = 229 /\ num = 2 -> In(len, 0, 2)
    [] OTHER -> IF num % 2 = 1 /\ code \in 225..229 THEN "either" ELSE "ok"   \* unknown critical signalling option

LenVerdict(code, num, len) == IF code \div 32 = 7 THEN SigLen(code, num, len) ELSE OptLen(num, len)

(* ------------------------------------------------------------------------ *)
(* Decoding.  Result [ok |-> "ok" | "bad" | "either" | "undecidable", m].   *)
(* "undecidable": a run atom where literal bytes are needed (never for the  *)
(* inputs the drivers produce; reported as a harness error, not a verdict). *)
(* ------------------------------------------------------------------------ *)
NoMsg == [ty |-> 0, code |-> 0, mid |-> 0, tok |-> << >>, opts |-> << >>, pl |-> << >>]
R(v, m) == [ok |-> v, m |-> m]
Worse(a, b) == IF a = "bad" \/ b = "bad" THEN "bad" ELSE IF a = "undecidable" \/ b = "undecidable" THEN "undecidable"
               ELSE IF a = "either" \/ b = "either" THEN "either" ELSE "ok"

Lits(w, i, n) == i + n - 1 <= Len(w) /\ \A j \in i..(i + n - 1) : w[j] < RunBase

\* take a value of n bytes starting at atom index i: [st, val, next]
Take(w, i, n) ==
  IF n = 0 THEN [st |-> "ok", val |-> << >>, next |-> i]
  ELSE IF i > Len(w) THEN [st |-> "bad", val |-> << >>, next |-> i]
  ELSE IF IsRun(w[i])
       THEN IF ALen(w[i]) = n THEN [st |-> "ok", val |-> <<w[i]>>, next |-> i + 1]
            ELSE [st |-> "undecidable", val |-> << >>, next |-> i]
  ELSE IF i + n - 1 > Len(w)
       THEN (IF \E j \in i..Len(w) : IsRun(w[j]) THEN [st |-> "undecidable", val |-> << >>, next |-> i]
             ELSE [st |-> "bad", val |-> << >>, next |-> i])
  ELSE IF Lits(w, i, n) THEN [st |-> "ok", val |-> SubSeq(w, i, i + n - 1), next |-> i + n]
  ELSE [st |-> "undecidable", val |-> << >>, next |-> i]

\* extended delta / length: [st, v, next]
ExtVal(w, i, nib) ==
  IF nib < 13 THEN [st |-> "ok", v |-> nib, next |-> i]
  ELSE IF nib = 13 THEN (IF i > Len(w) THEN [st |-> "bad", v |-> 0, next |-> i]
                         ELSE IF IsRun(w[i]) THEN [st |-> "undecidable", v |-> 0, next |-> i]
                         ELSE [st |-> "ok", v |-> w[i] + 13, next |-> i + 1])
  ELSE IF nib = 14 THEN (IF i + 1 > Len(w) THEN [st |-> "bad", v |-> 0, next |-> i]
                         ELSE IF IsRun(w[i]) \/ IsRun(w[i + 1]) THEN [st |-> "undecidable", v |-> 0, next |-> i]
                         ELSE [st |-> "ok", v |-> w[i] * 256 + w[i + 1] + 269, next |-> i + 2])
  ELSE [st |-> "bad", v |-> 0, next |-> i]       \* 15 is reserved

RECURSIVE DecOpts(_, _, _, _, _, _)
\* w: atoms, i: index, prev: last option number, acc: options so far, code, v: verdict so far
DecOpts(w, i, prev, acc, code, v) ==
  IF i > Len(w) THEN [ok |-> v, opts |-> acc, pl |-> << >>]
  ELSE IF w[i] = 255
       THEN IF i = Len(w) THEN [ok |-> "bad", opts |-> acc, pl |-> << >>]      \* marker without payload
            ELSE [ok |-> v, opts |-> acc, pl |-> SubSeq(w, i + 1, Len(w))]
  ELSE IF IsRun(w[i]) THEN [ok |-> "undecidable", opts |-> acc, pl |-> << >>]
  ELSE LET dn == w[i] \div 16
           ln == w[i] % 16
           d  == ExtVal(w, i + 1, dn)
           l  == ExtVal(w, d.next, ln)
       IN IF dn = 15 \/ ln = 15 THEN [ok |-> "bad", opts |-> acc, pl |-> << >>]
          ELSE IF d.st # "ok" THEN [ok |-> d.st, opts |-> acc, pl |-> << >>]
          ELSE IF l.st # "ok" THEN [ok |-> l.st, opts |-> acc, pl |-> << >>]
          ELSE LET num == prev + d.v
                   t == Take(w, l.next, l.v)
               IN IF num > 65535 THEN [ok |-> "bad", opts |-> acc, pl |-> << >>]
                  ELSE IF t.st # "ok" THEN [ok |-> t.st, opts |-> acc, pl |-> << >>]
                  ELSE DecOpts(w, t.next, num, Append(acc, [num |-> num, val |-> t.val]), code,
                               Worse(v, LenVerdict(code, num, l.v)))

\* token: [st, tok, next] given TKL nibble and index of the first byte after the fixed header
DecTok(w, i, tkl) ==
  LET e == ExtVal(w, i, tkl) IN
  IF tkl = 15 THEN [st |-> "bad", tok |-> << >>, next |-> i]
  ELSE IF e.st # "ok" THEN [st |-> e.st, tok |-> << >>, next |-> i]
  ELSE LET t == Take(w, e.next, e.v) IN [st |-> t.st, tok |-> t.val, next |-> t.next]

\* common tail: token, (empty-message rule), options, payload
DecRest(w, i, ty, code, mid, tkl) ==
  IF code = 0
  THEN (IF tkl = 0 /\ i > Len(w) THEN R("ok", [NoMsg EXCEPT !.ty = ty, !.mid = mid])
        ELSE R("bad", NoMsg))                                                  \* non-empty Empty message
  ELSE LET t == DecTok(w, i, tkl) IN
       IF t.st # "ok" THEN R(t.st, NoMsg)
       ELSE LET o == DecOpts(w, t.next, 0, << >>, code, "ok") IN
            R(o.ok, [ty |-> ty, code |-> code, mid |-> mid, tok |-> t.tok, opts |-> o.opts, pl |-> o.pl])

DecUDP(w) ==
  IF Len(w) < 4 \/ ~Lits(w, 1, 4) THEN R(IF Len(w) >= 4 THEN "undecidable" ELSE "bad", NoMsg)
  ELSE IF w[1] \div 64 # 1 THEN R("bad", NoMsg)                                 \* version
  ELSE DecRest(w, 5, (w[1] \div 16) % 4, w[2], w[3] * 256 + w[4], w[1] % 16)

\* A complete TCP message (the stream reader's delimitation is module Stream's business):
\* the Len field must be consistent with the bytes supplied.
DecTCP(w) ==
  IF Len(w) < 2 \/ IsRun(w[1]) THEN R("bad", NoMsg)
  ELSE LET ln == w[1] \div 16
           tkl == w[1] % 16
           h == IF ln < 13 THEN 0 ELSE IF ln = 13 THEN 1 ELSE IF ln = 14 THEN 2 ELSE 4
       IN IF Len(w) < 2 + h \/ ~Lits(w, 1, 2 + h) THEN R("bad", NoMsg)
          ELSE IF ln = 15 /\ w[2] >= 64 THEN R("either", NoMsg)   \* declares >= 2^30 bytes: more than any input here (and than 32-bit TLC integers)
          ELSE LET L == IF ln < 13 THEN ln
                        ELSE IF ln = 13 THEN w[2] + 13
                        ELSE IF ln = 14 THEN w[2] * 256 + w[3] + 269
                        ELSE ((w[2] * 256 + w[3]) * 256 + w[4]) * 256 + w[5] + 65805
                   code == w[2 + h]
                   t == DecTok(w, 3 + h, tkl)
               IN IF code = 0 THEN (IF tkl = 0 /\ Len(w) = 2 + h THEN R(IF L = 0 THEN "ok" ELSE "either", NoMsg) ELSE R("bad", NoMsg))
                  ELSE IF t.st # "ok" THEN R(t.st, NoMsg)
                  ELSE LET o == DecOpts(w, t.next, 0, << >>, code, "ok")
                           \* A Len field that disagrees with the bytes supplied is the stream reader's concern
                           \* (module Stream, C05): the message parser is only ever given what Len delimited.
                           lenOK == VLen(SubSeq(w, t.next, Len(w))) = L
                       IN R(Worse(o.ok, IF lenOK THEN "ok" ELSE "either"),
                            [ty |-> 0, code |-> code, mid |-> 0, tok |-> t.tok, opts |-> o.opts, pl |-> o.pl])

DecWS(w) ==
  IF Len(w) < 2 \/ ~Lits(w, 1, 2) THEN R("bad", NoMsg)
  ELSE IF w[1] \div 16 # 0 THEN R("either", NoMsg)       \* RFC 8323 §4.2: Len MUST be 0 / MUST be ignored by the receiver
  ELSE DecRest(w, 3, 0, w[2], 0, w[1] % 16)

Dec(proto, w) == CASE proto = "udp" -> DecUDP(w) [] proto = "tcp" -> DecTCP(w) [] proto = "ws" -> DecWS(w)

(* ------------------------------------------------------------------------ *)
(* Well-formedness of abstract messages (what the builder can produce)      *)
(* ------------------------------------------------------------------------ *)
Sorted(opts) == \A i \in 1..(Len(opts) - 1) : opts[i].num <= opts[i + 1].num
=============================================================================
