----------------------------- MODULE MC_StreamWS -----------------------------
(***************************************************************************)
(* The WebSocket frame reader as libcoap runs it (coap_ws_read() called    *)
(* from the WebSocket branch of coap_read_session()), fed with EVERY way   *)
(* the bytes of a frame stream can arrive, checked against the functional   *)
(* description Stream!WsMessagesR.                                          *)
(*                                                                          *)
(* What is modelled, because it is where the defects were:                  *)
(*  - the reader first fills a 14-byte frame-header buffer (rd_header) from  *)
(*    the socket: that read takes in whatever follows the header - payload,  *)
(*    and whole further frames when they are small;                          *)
(*  - payload found behind the header is copied out; what is left over       *)
(*    (bytes of the NEXT frame) is moved to the front of rd_header and       *)
(*    waits there - the socket no longer has those bytes, so no read event   *)
(*    will announce them;                                                    *)
(*  - a frame whose payload needs more than one call is kept in `partial`    *)
(*    between calls (fix 7a7487c: it used to live in the caller's dead       *)
(*    stack buffer - KeepPartial = FALSE loses it);                          *)
(*  - one read event makes ONE coap_ws_read() call (as it was) or keeps      *)
(*    calling while messages come out (Drain = TRUE, fix 19398f9).           *)
(* Readiness is level-triggered: an event is possible while the socket has   *)
(* unread bytes.  At rest (socket drained) every complete frame that has     *)
(* arrived must have been handed on: AtRestI.  With Drain = FALSE TLC finds  *)
(* the stall (MC_StreamWS_nodrain.cfg), with KeepPartial = FALSE the         *)
(* corrupted payload (MC_StreamWS_nopartial.cfg).                            *)
(***************************************************************************)
EXTENDS Stream
CONSTANTS Streams, Srv, MaxChunk, Drain, KeepPartial
VARIABLES w, pos, rd
vars == <<w, pos, rd>>
\* pos: bytes that have arrived at the socket;  rd: the reader
\* rd = [kpos (bytes taken from the socket), hdr (rd_header, <= 14 bytes), allIn, dsize, dofs, partial, out, closed]

HdrMax == 14
Min2(a, b) == IF a < b THEN a ELSE b
Item(data) == LET d == DecWS(data) IN IF d.ok = "ok" THEN <<"msg", d.m>> ELSE IF d.ok = "bad" THEN <<"bad">> ELSE <<d.ok>>
Close(r) == [r EXCEPT !.closed = TRUE, !.out = Append(@, <<"close">>), !.ret = 0]
InitRd == [kpos |-> 0, hdr |-> << >>, allIn |-> FALSE, dsize |-> 0, dofs |-> 0, partial |-> << >>, key |-> <<0, 0, 0, 0>>, out |-> << >>, closed |-> FALSE, ret |-> 0]
Plain(r, data) == IF Srv THEN [k \in 1..Len(data) |-> data[k] ^^ r.key[((k - 1) % 4) + 1]] ELSE data

\* the payload phase of one coap_ws_read() call: `have` is what this call already holds of the frame's payload
Payload(r, have) ==
  LET take == Min2(r.dsize - Len(have), pos - r.kpos)
      data == have \o SubSeq(w, r.kpos + 1, r.kpos + take)
      k2 == r.kpos + take
  IN IF Len(data) = r.dsize
     THEN [r EXCEPT !.kpos = k2, !.out = Append(@, Item(Plain(r, data))), !.allIn = FALSE, !.hdr = << >>, !.dofs = 0, !.partial = << >>, !.ret = r.dsize]
     ELSE [r EXCEPT !.kpos = k2, !.dofs = Len(data), !.ret = 0,
                    !.partial = IF KeepPartial THEN data ELSE [k \in 1..Len(data) |-> 0]]      \* as it was: the bytes stayed in a buffer that is gone by the next call

\* one call of coap_ws_read()
WsRead(r) ==
  IF r.closed THEN [r EXCEPT !.ret = 0]
  ELSE IF r.allIn THEN Payload(r, r.partial)
  ELSE
  LET take == Min2(HdrMax - Len(r.hdr), pos - r.kpos)
      h == r.hdr \o SubSeq(w, r.kpos + 1, r.kpos + take)
      r1 == [r EXCEPT !.hdr = h, !.kpos = r.kpos + take, !.ret = 0]
  IN IF Len(h) < 2 THEN r1
     ELSE LET masked == h[2] >= 128
              l7 == h[2] % 128
              ext == IF l7 = 126 THEN 2 ELSE IF l7 = 127 THEN 8 ELSE 0
              hl == 2 + ext + (IF masked THEN 4 ELSE 0)
          IN IF Srv /\ ~masked THEN Close(r1)
             ELSE IF Len(h) < hl THEN r1
             ELSE IF h[1] % 16 # 2 THEN Close(r1)
             ELSE LET big == l7 = 127 /\ \E k \in 3..8 : h[k] # 0
                      n == IF l7 < 126 THEN l7 ELSE IF l7 = 126 THEN h[3] * 256 + h[4] ELSE h[9] * 256 + h[10]
                      extra == Len(h) - hl
                      r2 == [r1 EXCEPT !.allIn = TRUE, !.dsize = n, !.key = IF masked THEN SubSeq(h, hl - 3, hl) ELSE <<0, 0, 0, 0>>]
                  IN IF big \/ n > WsFrameMax \/ n = 0 THEN Close(r1)           \* (an empty frame ends the session through a zero-length read)
                     ELSE IF extra > n
                     THEN \* payload and the beginning of the next frame(s) are in the header buffer: hand on, keep the rest for the next call
                          [r2 EXCEPT !.out = Append(@, Item(Plain(r2, SubSeq(h, hl + 1, hl + n)))), !.hdr = SubSeq(h, hl + n + 1, Len(h)),
                                     !.allIn = FALSE, !.dofs = 0, !.ret = n]
                     ELSE Payload(r2, SubSeq(h, hl + 1, Len(h)))

\* one read event: coap_read_session()
RECURSIVE Session(_, _)
Session(r, fuel) == LET r1 == WsRead(r) IN IF Drain /\ r1.ret > 0 /\ ~r1.closed /\ fuel > 0 THEN Session(r1, fuel - 1) ELSE r1

\* ---- the streams explored ----
Fr(payload, key, masked) == <<130, (IF masked THEN 128 ELSE 0) + Len(payload)>> \o (IF masked THEN key ELSE << >>) \o
                            (IF masked THEN [k \in 1..Len(payload) |-> payload[k] ^^ key[((k - 1) % 4) + 1]] ELSE payload)
Ping0 == <<0, 226>>
PingT == <<1, 226, 119>>
Get0  == <<0, 1, 177, 97>>
PutP  == <<1, 3, 9, 177, 97, 255, 1, 2, 3>>
ClientStreams == { Fr(Ping0, << >>, FALSE) \o Fr(Ping0, << >>, FALSE) \o Fr(Ping0, << >>, FALSE) \o Fr(PingT, << >>, FALSE),
                   Fr(Get0, << >>, FALSE) \o Fr(Ping0, << >>, FALSE) \o Fr(Get0, << >>, FALSE),
                   Fr(PingT, << >>, FALSE) \o Fr(PutP, << >>, FALSE) \o Fr(Ping0, << >>, FALSE) \o Fr(Ping0, << >>, FALSE),
                   Fr(Ping0, << >>, FALSE) \o Fr(Get0, << >>, FALSE) \o <<129, 1, 65>> \o Fr(Ping0, << >>, FALSE) }        \* a text frame in between: closes
ServerStreams == { Fr(Ping0, <<0, 0, 0, 0>>, TRUE) \o Fr(Ping0, <<5, 6, 7, 8>>, TRUE) \o Fr(Get0, <<1, 2, 3, 4>>, TRUE),
                   Fr(PutP, <<9, 8, 7, 6>>, TRUE) \o Fr(Ping0, <<255, 0, 255, 0>>, TRUE),
                   Fr(Get0, <<1, 1, 1, 1>>, TRUE) \o Fr(Ping0, << >>, FALSE) \o Fr(Get0, <<1, 1, 1, 1>>, TRUE) }                 \* an unmasked frame from a client: closes

Init == w \in Streams /\ pos = 0 /\ rd = InitRd
Arrive(n) == pos + n <= Len(w) /\ pos' = pos + n /\ UNCHANGED <<w, rd>>
ReadEvent == rd.kpos < pos /\ ~rd.closed /\ rd' = Session(rd, 64) /\ UNCHANGED <<w, pos>>
AArrive == \E n \in 1..MaxChunk : Arrive(n)
AReadEvent == ReadEvent
Next == AArrive \/ AReadEvent
Spec == Init /\ [][Next]_vars

Expected(n) == WsMessagesR(SubSeq(w, 1, n), 0, Srv)
Prefix(a, b) == Len(a) <= Len(b) /\ a = SubSeq(b, 1, Len(a))
\* never anything but the stream's messages, in order
PrefixI == Prefix(rd.out, Expected(Len(w)))
\* at rest - the socket has nothing unread, no read event can come - every frame that has arrived completely has been handed on
AtRestI == (rd.kpos = pos /\ ~rd.closed) => rd.out = Expected(pos)
ClosedI == rd.closed => rd.out = Expected(pos) \/ Prefix(rd.out, Expected(Len(w)))
BoundedI == Len(rd.hdr) <= HdrMax /\ Len(rd.partial) <= WsFrameMax
=============================================================================
