SPECIFICATION Spec
CONSTANTS
  NB = 3
  MaxVersion = 5
  MaxDup = 3
  FreshEtag = TRUE
  CacheMayExpire = FALSE
  RestartKeepsLineage = TRUE
  NoEtagFails = TRUE
  MaxChains = 3
  MaxSent = 12
INVARIANTS ExactBodyI NoRawBlockI OneLiveChainI
CONSTRAINT Bound
CHECK_DEADLOCK FALSE
