SPECIFICATION Spec
CONSTANTS
  Peers = {1, 2, 3}
  Streams = {3}
  MaxTime = 4
  Timeout = 2
  MaxIdle = 2
  MaxSess = 4
  HolderKinds = {"app", "obs"}
INVARIANTS OneToOneI HeldAreLiveI LiveAreObjectsI DeadOnceI CausesI NoReuseI ClosedAreLiveI
VIEW View
CHECK_DEADLOCK FALSE
