SPECIFICATION Spec
CONSTANTS
  NB = 12
  Timeout = 5
  Delay = 2
  MaxLoss = 1
  ByProgress = FALSE
  MaxTime = 40
INVARIANTS ProgressNeverExpiresI
CHECK_DEADLOCK FALSE
