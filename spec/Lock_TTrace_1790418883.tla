---- MODULE Lock_TTrace_1790418883 ----
EXTENDS Sequences, TLCExt, Toolbox, Naturals, TLC, Lock

_expression ==
    LET Lock_TEExpression == INSTANCE Lock_TEExpression
    IN Lock_TEExpression!expression
----

_trace ==
    LET Lock_TETrace == INSTANCE Lock_TETrace
    IN Lock_TETrace!trace
----

_inv ==
    ~(
        TLCGet("level") = Len(_TETrace)
        /\
        lockCnt = (-1)
        /\
        stack = (<<<<>>, <<>>, <<>>>>)
        /\
        calls = (<<1, 2, 2>>)
        /\
        inCb = (1)
        /\
        holder = (1)
    )
----

_init ==
    /\ holder = _TETrace[1].holder
    /\ lockCnt = _TETrace[1].lockCnt
    /\ calls = _TETrace[1].calls
    /\ inCb = _TETrace[1].inCb
    /\ stack = _TETrace[1].stack
----

_next ==
    /\ \E i,j \in DOMAIN _TETrace:
        /\ \/ /\ j = i + 1
              /\ i = TLCGet("level")
        /\ holder  = _TETrace[i].holder
        /\ holder' = _TETrace[j].holder
        /\ lockCnt  = _TETrace[i].lockCnt
        /\ lockCnt' = _TETrace[j].lockCnt
        /\ calls  = _TETrace[i].calls
        /\ calls' = _TETrace[j].calls
        /\ inCb  = _TETrace[i].inCb
        /\ inCb' = _TETrace[j].inCb
        /\ stack  = _TETrace[i].stack
        /\ stack' = _TETrace[j].stack

\* Uncomment the ASSUME below to write the states of the error trace
\* to the given file in Json format. Note that you can pass any tuple
\* to `JsonSerialize`. For example, a sub-sequence of _TETrace.
    \* ASSUME
    \*     LET J == INSTANCE Json
    \*         IN J!JsonSerialize("Lock_TTrace_1790418883.json", _TETrace)

=============================================================================

 Note that you can extract this module `Lock_TEExpression`
  to a dedicated file to reuse `expression` (the module in the 
  dedicated `Lock_TEExpression.tla` file takes precedence 
  over the module `Lock_TEExpression` below).

---- MODULE Lock_TEExpression ----
EXTENDS Sequences, TLCExt, Toolbox, Naturals, TLC, Lock

expression == 
    [
        \* To hide variables of the `Lock` spec from the error trace,
        \* remove the variables below.  The trace will be written in the order
        \* of the fields of this record.
        holder |-> holder
        ,lockCnt |-> lockCnt
        ,calls |-> calls
        ,inCb |-> inCb
        ,stack |-> stack
        
        \* Put additional constant-, state-, and action-level expressions here:
        \* ,_stateNumber |-> _TEPosition
        \* ,_holderUnchanged |-> holder = holder'
        
        \* Format the `holder` variable as Json value.
        \* ,_holderJson |->
        \*     LET J == INSTANCE Json
        \*     IN J!ToJson(holder)
        
        \* Lastly, you may build expressions over arbitrary sets of states by
        \* leveraging the _TETrace operator.  For example, this is how to
        \* count the number of times a spec variable changed up to the current
        \* state in the trace.
        \* ,_holderModCount |->
        \*     LET F[s \in DOMAIN _TETrace] ==
        \*         IF s = 1 THEN 0
        \*         ELSE IF _TETrace[s].holder # _TETrace[s-1].holder
        \*             THEN 1 + F[s-1] ELSE F[s-1]
        \*     IN F[_TEPosition - 1]
    ]

=============================================================================



Parsing and semantic processing can take forever if the trace below is long.
 In this case, it is advised to uncomment the module below to deserialize the
 trace from a generated binary file.

\*
\*---- MODULE Lock_TETrace ----
\*EXTENDS IOUtils, TLC, Lock
\*
\*trace == IODeserialize("Lock_TTrace_1790418883.bin", TRUE)
\*
\*=============================================================================
\*

---- MODULE Lock_TETrace ----
EXTENDS TLC, Lock

trace == 
    <<
    ([lockCnt |-> 0,stack |-> <<<<>>, <<>>, <<>>>>,calls |-> <<2, 2, 2>>,inCb |-> 0,holder |-> 0]),
    ([lockCnt |-> 0,stack |-> <<<<"api">>, <<>>, <<>>>>,calls |-> <<1, 2, 2>>,inCb |-> 0,holder |-> 1]),
    ([lockCnt |-> 0,stack |-> <<<<"api", "cbk">>, <<>>, <<>>>>,calls |-> <<1, 2, 2>>,inCb |-> 2,holder |-> 1]),
    ([lockCnt |-> 0,stack |-> <<<<"api">>, <<>>, <<>>>>,calls |-> <<1, 2, 2>>,inCb |-> 1,holder |-> 1]),
    ([lockCnt |-> -1,stack |-> <<<<>>, <<>>, <<>>>>,calls |-> <<1, 2, 2>>,inCb |-> 1,holder |-> 1])
    >>
----


=============================================================================

---- CONFIG Lock_TTrace_1790418883 ----
CONSTANTS
    Threads = { 1 , 2 , 3 }
    MaxCalls = 2
    MaxDepth = 3
    AsWritten = TRUE

INVARIANT
    _inv

CHECK_DEADLOCK
    \* CHECK_DEADLOCK off because of PROPERTY or INVARIANT above.
    FALSE

INIT
    _init

NEXT
    _next

CONSTANT
    _TETrace <- _trace

ALIAS
    _expression
=============================================================================
\* Generated on Sat Sep 26 10:34:43 UTC 2026