---------------------------- MODULE Trace_Replay ----------------------------
(* Trace specification for C15: histories of fresh / replayed / forged OSCORE requests executed against the real libcoap
   recipient (and the real sender with save callback and restarts), harness/drv_replay.c. *)
EXTENDS Naturals, Integers, Sequences, FiniteSets, TLC, Json, IOUtils
TraceLog == ndJsonDeserialize(IOEnv.TRACE)
OutFile  == IOEnv.OUT
VARIABLES l, rej, cur, skip, accepted, sent, stepPivs, nexec, nsteps, lastSaved, restartFloor,
          nonces     \* <<key, nonce>> -> what it protected: the AEAD seam of BOTH endpoints (requests and responses)
vars == <<l, rej, cur, skip, accepted, sent, stepPivs, nexec, nsteps, lastSaved, restartFloor, nonces>>

MaxOf(S) == CHOOSE x \in S : \A y \in S : y <= x
Put(f, k, v) == [x \in (DOMAIN f) \cup {k} |-> IF x = k THEN v ELSE f[x]]

\* returns [why, accepted]
Win == IF <<-1, -1>> \in DOMAIN sent THEN sent[<<-1, -1>>] ELSE 32
\* the window's verdict on a genuine message with number p that has not been accepted before: above everything accepted so far, or not further below
\* the highest accepted number than the window reaches (kept one short of the window size: the exact edge is not this rule's business)
MustAccept(p) == p \notin accepted /\ (accepted = {} \/ p > MaxOf(accepted) \/ MaxOf(accepted) - p < Win)
OnStep(e) ==
  IF e.handled > 1 THEN [why |-> "C15:request-handed-to-the-application-more-than-once", acc |-> accepted]
  ELSE IF e.kind = "fresh"
  THEN IF stepPivs = << >> THEN [why |-> "C15:fresh-request-left-unprotected-or-unsent", acc |-> accepted]
       ELSE LET p == stepPivs[Len(stepPivs)] IN
            IF e.handled = 1 /\ p \in accepted THEN [why |-> "C15:request-with-an-already-accepted-partial-iv-accepted", acc |-> accepted]
            ELSE IF e.handled = 0 /\ (accepted = {} \/ p > MaxOf(accepted))
                 THEN [why |-> "C15:genuine-request-with-a-higher-sequence-number-rejected", acc |-> accepted]
            ELSE IF e.handled = 0 /\ MustAccept(p)
                 THEN [why |-> "C15:genuine-request-inside-the-window-rejected-although-never-accepted-before", acc |-> accepted]
            ELSE [why |-> "", acc |-> IF e.handled = 1 THEN accepted \cup {p} ELSE accepted]
  ELSE IF e.kind = "replay"
  THEN IF e.handled = 1 /\ e.n \in accepted THEN [why |-> "C15:replayed-request-accepted-again", acc |-> accepted]
       \* the captured bytes are genuine: when they were held back in the network this is their first arrival - forgeries in between change nothing
       \* (with Appendix B.1.2 the very first arrival at a recipient is challenged with 4.01 + Echo instead of being handed over)
       ELSE IF e.handled = 0 /\ (accepted # {} \/ sent[<<-2, -2>>] = 0) /\ MustAccept(e.n)
            THEN [why |-> "C15:delayed-genuine-request-rejected-although-never-accepted-before", acc |-> accepted]
       ELSE [why |-> "", acc |-> IF e.handled = 1 THEN accepted \cup {e.n} ELSE accepted]
  ELSE IF e.kind = "held" THEN [why |-> "", acc |-> accepted]
  ELSE \* forged
       IF e.handled >= 1 THEN [why |-> "C15:forged-request-accepted", acc |-> accepted]
       ELSE [why |-> "", acc |-> accepted]

Init == /\ l = 1 /\ rej = << >> /\ cur = -1 /\ skip = TRUE /\ accepted = {} /\ sent = [x \in {} |-> 0] /\ stepPivs = << >>
        /\ nexec = 0 /\ nsteps = 0 /\ lastSaved = 0 /\ restartFloor = 0 /\ nonces = [x \in {} |-> 0]
Consume ==
  /\ l <= Len(TraceLog)
  /\ LET e == TraceLog[l] IN
     CASE e.e = "Reset" -> /\ cur' = e.id /\ skip' = FALSE /\ accepted' = {} /\ sent' = [x \in {<<-1, -1>>, <<-2, -2>>} |-> IF x = <<-1, -1>> THEN e.win ELSE IF e.b12 THEN 1 ELSE 0] /\ stepPivs' = << >>      \* (key -1 carries the replay window size of the execution)
                           /\ nexec' = nexec + 1 /\ lastSaved' = 0 /\ restartFloor' = 0 /\ nonces' = [x \in {} |-> 0] /\ UNCHANGED <<rej, nsteps>>
       [] e.e = "Piv" /\ ~skip ->
            \* (partial IVs go up to 2^40: the key is the number in two halves, e.piv is the number itself where it fits TLC's integers, else -1)
            IF <<e.ph, e.pl>> \in DOMAIN sent /\ sent[<<e.ph, e.pl>>] # e.sig
            THEN /\ rej' = Append(rej, [id |-> cur, line |-> l, why |-> "C15:partial-iv-used-for-two-different-messages"]) /\ skip' = TRUE
                 /\ UNCHANGED <<cur, accepted, sent, stepPivs, nexec, nsteps, lastSaved, restartFloor, nonces>>
            ELSE /\ sent' = Put(sent, <<e.ph, e.pl>>, e.sig) /\ stepPivs' = IF <<e.ph, e.pl>> \in DOMAIN sent THEN stepPivs ELSE Append(stepPivs, e.piv)
                 /\ UNCHANGED <<rej, cur, skip, accepted, nexec, nsteps, lastSaved, restartFloor, nonces>>
       [] e.e = "Aead" /\ ~skip ->
            \* RFC 8613 section 5.2 / 7.2.1: a (key, nonce) pair protects ONE message.  Protecting the same message again (same AAD and
            \* plaintext, e.g. the identical answer to a retransmitted request) gives the same ciphertext and reveals nothing
            LET k == <<e.key, e.nonce>> IN
            IF k \in DOMAIN nonces /\ nonces[k] # e.msg
            THEN /\ rej' = Append(rej, [id |-> cur, line |-> l, why |-> "C15:nonce-used-under-one-key-for-two-different-messages"]) /\ skip' = TRUE
                 /\ UNCHANGED <<cur, accepted, sent, stepPivs, nexec, nsteps, lastSaved, restartFloor, nonces>>
            ELSE /\ nonces' = Put(nonces, k, e.msg)
                 /\ UNCHANGED <<rej, cur, skip, accepted, sent, stepPivs, nexec, nsteps, lastSaved, restartFloor>>
       [] e.e = "Save" /\ ~skip -> lastSaved' = e.v /\ UNCHANGED <<rej, cur, skip, accepted, sent, stepPivs, nexec, nsteps, restartFloor, nonces>>
       [] e.e = "Restart" /\ ~skip -> restartFloor' = e.restart_from /\ UNCHANGED <<rej, cur, skip, accepted, sent, stepPivs, nexec, nsteps, lastSaved, nonces>>
       [] e.e = "Step" /\ ~skip ->
            LET r == OnStep(e) IN
            /\ rej' = IF r.why = "" THEN rej ELSE Append(rej, [id |-> cur, line |-> l, why |-> r.why])
            /\ skip' = (r.why # "") /\ accepted' = r.acc /\ stepPivs' = << >> /\ nsteps' = nsteps + 1
            /\ UNCHANGED <<cur, sent, nexec, lastSaved, restartFloor, nonces>>
       [] e.e = "Crash" -> /\ rej' = Append(rej, [id |-> cur, line |-> l, why |-> "C15:driver-crashed"]) /\ skip' = TRUE
                           /\ UNCHANGED <<cur, accepted, sent, stepPivs, nexec, nsteps, lastSaved, restartFloor, nonces>>
       [] OTHER -> UNCHANGED <<rej, cur, skip, accepted, sent, stepPivs, nexec, nsteps, lastSaved, restartFloor, nonces>>
  /\ l' = l + 1
Finish == /\ l = Len(TraceLog) + 1
          /\ JsonSerialize(OutFile, [rejected |-> rej, executions |-> nexec, discarded |-> 0, known |-> {}, lines |-> Len(TraceLog), steps |-> nsteps])
          /\ l' = l + 1 /\ UNCHANGED <<rej, cur, skip, accepted, sent, stepPivs, nexec, nsteps, lastSaved, restartFloor, nonces>>
Next == Consume \/ Finish
Spec == Init /\ [][Next]_vars
=============================================================================
