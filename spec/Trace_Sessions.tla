--------------------------- MODULE Trace_Sessions ---------------------------
(***************************************************************************)
(* Trace specification for C12: executions of a real libcoap server with   *)
(* fabricated peers (harness/drv_sess.c).  Session objects are numbered by *)
(* the wrapped allocator (SAlloc / SFree), NEW / DEL events come from the   *)
(* event handler, Req from the request handler, Tx / Rx from the simulator, *)
(* Ref / Unref / Async / AppSend from the application, Observers is the     *)
(* observer list as libcoap holds it, Ledger the allocator's balance after  *)
(* coap_free_context().                                                     *)
(***************************************************************************)
EXTENDS Sessions, TLC, Json, IOUtils
TraceLog == ndJsonDeserialize(IOEnv.TRACE)
OutFile  == IOEnv.OUT
VARIABLES l, rej, cur, skip, s, now, nexec, ndel
vars == <<l, rej, cur, skip, s, now, nexec, ndel>>

RR(st, why) == [st |-> st, why |-> why]
Known(st, x) == x \in st.objs
PeerOfPort(port) == port - 20000

OnReq(st, e) ==
  IF ~Known(st, e.s) THEN RR(st, "C12:handler-ran-on-a-session-object-that-is-not-allocated")
  ELSE IF e.s \notin st.born THEN RR(st, "C12:handler-ran-before-the-session-new-event")
  ELSE IF e.s \in st.dead THEN RR(st, "C12:handler-ran-after-the-session-deleted-event")
  ELSE IF e.peer \notin DOMAIN st.map \/ st.map[e.peer] # e.s THEN RR(st, "C12:peer-handled-by-a-session-that-is-not-its-own")
  ELSE RR(Touch_do(st, e.s, e.t), "")

OnEv(st, e) ==
  IF e.k = "new"
  THEN IF ~Known(st, e.s) THEN RR(st, "C12:new-event-for-a-session-object-that-is-not-allocated")
       ELSE IF e.s \in st.born THEN RR(st, "C12:second-new-event-for-one-session")
       ELSE IF e.peer \in DOMAIN st.map THEN RR(st, "C12:second-live-session-for-one-peer")
       ELSE RR(New_do(st, e.s, e.peer, e.t), "")
  ELSE \* del
       IF e.s \notin st.born THEN RR(st, "C12:deleted-event-without-new-event")
       ELSE IF e.s \in st.dead THEN RR(st, "C12:second-deleted-event-for-one-session")
       ELSE IF ~Known(st, e.s) THEN RR(st, "C12:deleted-event-for-a-released-session-object")
       ELSE LET cause == DelCause(st, e.s, e.t) IN
            IF cause = "none-held" THEN RR(st, "C12:session-deleted-while-still-referenced")
            ELSE IF cause = "none-early" THEN RR(st, "C12:idle-session-reclaimed-before-its-timeout")
            ELSE IF cause = "none-not-oldest" THEN RR(st, "C12:evicted-session-is-not-the-oldest-idle-one")
            ELSE IF ~st.teardown /\ e.ref # 0 THEN RR(st, "C12:session-deleted-with-nonzero-reference-count")
            ELSE RR(Del_do(st, e.s), "")

OnSFree(st, e) ==
  IF ~Known(st, e.s) THEN RR(st, "C12:session-object-freed-twice")
  ELSE IF e.s \in st.born /\ e.s \notin st.dead THEN RR(st, "C12:session-freed-without-a-deleted-event")
  ELSE IF ~st.teardown /\ Holders(st, e.s) # {} THEN RR(st, "C12:session-freed-while-still-referenced")
  ELSE RR([st EXCEPT !.objs = @ \ {e.s}], "")

\* a datagram on the wire: Tx carries the session, Rx on the endpoint socket only the peer's port.
\* A Confirmable message sent on a session stays queued (and holds the session) until the peer answers it or it is given up.
Outstanding(st, x) == Get(st.out, x, {})
SetOut(st, x, mids) == LET st1 == [st EXCEPT !.out = Put(@, x, mids)] IN
                       IF mids = {} THEN Unhold_do(st1, x, "queue") ELSE Hold_do(st1, x, "queue")
OnDgram(st, e) ==
  IF e.e = "Tx"
  THEN IF e.s = 0 THEN RR(st, "")
       ELSE IF ~Known(st, e.s) THEN RR(st, "C12:datagram-sent-on-a-released-session")
       ELSE LET st1 == Touch_do(st, e.s, e.t) IN
            IF e.ty = 0 /\ e.s \in Live(st1) THEN RR(SetOut(st1, e.s, Outstanding(st1, e.s) \cup {e.mid}), "") ELSE RR(st1, "")
  ELSE LET p == PeerOfPort(e.sport) IN
       IF p \in DOMAIN st.map
       THEN LET x == st.map[p]
                st1 == Touch_do(st, x, e.t)
            IN IF e.ty \in {2, 3} /\ e.mid \in Outstanding(st1, x) THEN RR(SetOut(st1, x, Outstanding(st1, x) \ {e.mid}), "") ELSE RR(st1, "")
       ELSE RR(st, "")
OnNack(st, e) == IF e.s \in Live(st) THEN RR(SetOut(st, e.s, Outstanding(st, e.s) \ {e.mid}), "") ELSE RR(st, "")

OnObservers(st, e) ==
  LET ss == {e.ss[i] : i \in 1..Len(e.ss)} IN
  IF \E x \in ss : ~Known(st, x) THEN RR(st, "C12:observer-entry-refers-to-a-released-session")
  ELSE IF \E x \in ss : x \notin Live(st) THEN RR(st, "C12:observer-entry-refers-to-a-deleted-session")
  \* the loss of a session ends every observation it had (C11): none of them is left hanging off the closed session, keeping it from being reclaimed
  ELSE IF \E x \in ss : x \in st.closed THEN RR(st, "C12:observation-left-hanging-off-a-session-whose-peer-has-gone")
  ELSE RR(SetHolders_do(st, "obs", ss), "")

OnIoDone(st, e) ==
  IF ~NothingOverdue(st, e.t) THEN RR(st, "C12:unreferenced-idle-session-not-reclaimed-after-the-session-timeout")
  ELSE RR(st, "")

OnLedger(st, e) ==
  IF e.overflow = 1 THEN RR(st, "")
  ELSE IF e.badfrees # 0 THEN RR(st, "C12:object-freed-that-was-not-allocated")
  ELSE IF e.live # 0 THEN RR(st, "C12:objects-still-allocated-after-the-context-was-freed")
  ELSE IF st.born # st.dead THEN RR(st, "C12:server-session-without-exactly-one-deleted-event")
  ELSE RR(st, "")

Step(st, e) ==
  CASE e.e = "SAlloc" -> RR([st EXCEPT !.objs = @ \cup {e.s}], "")
    [] e.e = "SFree" -> OnSFree(st, e)
    [] e.e = "BadFree" -> RR(st, "C12:object-freed-that-was-not-allocated")
    [] e.e = "Ev" -> OnEv(st, e)
    [] e.e = "Req" -> OnReq(st, e)
    [] e.e \in {"Tx", "Rx"} -> OnDgram(st, e)
    [] e.e = "Ref" -> IF Known(st, e.s) THEN RR(Hold_do(st, e.s, "app"), "") ELSE RR(st, "C12:reference-taken-on-a-released-session")
    [] e.e = "Unref" -> IF Known(st, e.s) THEN RR(Unhold_do(st, e.s, "app"), "") ELSE RR(st, "C12:session-released-while-the-application-still-referred-to-it")
    [] e.e = "Async" -> RR(Hold_do(st, e.s, "async"), "")
    [] e.e = "AsyncDone" -> RR(Unhold_do(st, e.s, "async"), "")
    [] e.e = "AppSend" -> IF Known(st, e.s) THEN RR(st, "") ELSE RR(st, "C12:session-released-while-the-application-still-referred-to-it")
    [] e.e = "Nack" -> OnNack(st, e)
    [] e.e = "Observers" -> OnObservers(st, e)
    [] e.e = "IoDone" -> OnIoDone(st, e)
    [] e.e = "Disc" -> RR(Disc_do(st, e.s), "")
    \* direction A: the behaviour was generated by TLC from Gen_Sessions; after each command it says which peers have a live session
    [] e.e = "Expect" -> IF {e.live[i] : i \in 1..Len(e.live)} = DOMAIN st.map THEN RR(st, "")
                         ELSE RR(st, "C12:live-sessions-differ-from-the-behaviour-the-specification-generated")
    [] e.e = "FreeContext" -> RR([st EXCEPT !.teardown = TRUE], "")
    [] e.e = "Ledger" -> OnLedger(st, e)
    [] e.e = "Hang" -> RR(st, "C12:endpoint-never-became-quiet")
    [] e.e = "Crash" -> RR(st, "C12:run-aborted-or-sanitizer-report")
    [] OTHER -> RR(st, "")

Init == /\ l = 1 /\ rej = << >> /\ cur = -1 /\ skip = TRUE /\ s = [out |-> EmptyFn] @@ InitSess(300000, 0) /\ now = 0 /\ nexec = 0 /\ ndel = 0
Consume ==
  /\ l <= Len(TraceLog)
  /\ LET e == TraceLog[l] IN
     IF e.e = "Reset"
     THEN /\ cur' = e.id /\ skip' = FALSE /\ s' = [out |-> EmptyFn] @@ [InitSess(e.timeout * 1000, e.maxidle) EXCEPT !.streamPeers = 56..63] /\ nexec' = nexec + 1 /\ UNCHANGED <<rej, now, ndel>>
     ELSE IF skip /\ e.e # "Crash" THEN UNCHANGED <<rej, cur, skip, s, now, nexec, ndel>>
     ELSE LET r == Step(s, e)
              bad == IF r.why # "" THEN r.why
                     ELSE IF ~OneToOne(r.st) THEN "C12:two-peers-share-one-session"
                     ELSE IF ~r.st.teardown /\ ~HeldAreLive(r.st) THEN "C12:holder-of-a-session-that-is-gone"
                     ELSE ""
          IN /\ s' = r.st
             /\ rej' = IF bad = "" THEN rej ELSE Append(rej, [id |-> cur, line |-> l, why |-> bad])
             /\ skip' = (bad # "")
             /\ ndel' = ndel + (IF e.e = "Ev" /\ e.k = "del" THEN 1 ELSE 0)
             /\ UNCHANGED <<cur, now, nexec>>
  /\ l' = l + 1
Finish == /\ l = Len(TraceLog) + 1
          /\ JsonSerialize(OutFile, [rejected |-> rej, executions |-> nexec, discarded |-> 0, known |-> {}, lines |-> Len(TraceLog), deletions |-> ndel])
          /\ l' = l + 1 /\ UNCHANGED <<rej, cur, skip, s, now, nexec, ndel>>
Next == Consume \/ Finish
Spec == Init /\ [][Next]_vars
=============================================================================
