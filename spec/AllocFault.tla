----------------------------- MODULE AllocFault -----------------------------
(***************************************************************************)
(* C18: what must hold of the objects libcoap allocates when one           *)
(* allocation fails.  The ledger is the set of live object numbers; the    *)
(* rules are those of any allocator client plus libcoap's ownership rule   *)
(* for coap_send(): the PDU belongs to the library from the call on,       *)
(* whatever the outcome.                                                   *)
(***************************************************************************)
EXTENDS Naturals, Integers, Sequences, FiniteSets

InitLedger == [live |-> {}, injected |-> FALSE, canary |-> "none", sends |-> 0]
\* guards
Alloc_ok(st, id) == id \notin st.live
Free_ok(st, id)  == id = 0 \/ id \in st.live            \* 0: an object from outside the observed window
\* effects
Alloc_do(st, id) == [st EXCEPT !.live = @ \cup {id}]
Free_do(st, id)  == [st EXCEPT !.live = @ \ {id}]
\* coap_send(pdu) returned failure: the PDU must be gone already
SendFailed_ok(st, id) == id = 0 \/ id \notin st.live
\* the end of a run: nothing is left, the canary exchange worked, release callbacks ran once per body
End_ok(st, e) == st.live = {} /\ e.live = 0
Released_ok(e) == e.bodies_c = e.releases_c /\ e.bodies_s = e.releases_s
=============================================================================
