SPECIFICATION Spec
CONSTANTS
  NReq = 3
  Matching = FALSE
INVARIANTS GateI NoCleartextI OrderI OneOutcomeI MismatchNeverEstablishedI
CHECK_DEADLOCK FALSE
