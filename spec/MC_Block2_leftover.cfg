SPECIFICATION Spec
CONSTANTS
  NB = 3
  MaxVersion = 4
  MaxDup = 1
  FreshEtag = TRUE
  CacheMayExpire = TRUE
  RestartKeepsLineage = TRUE
  NoEtagFails = TRUE
  MaxChains = 3
  MaxSent = 7
INVARIANTS AtMostOnceI
CONSTRAINT Bound
CHECK_DEADLOCK FALSE
