SPECIFICATION Spec
CONSTANTS
  NB = 3
  MaxVersion = 3
  MaxDup = 1
  FreshEtag = TRUE
  CacheMayExpire = TRUE
  RestartKeepsLineage = TRUE
  NoEtagFails = FALSE
  MaxChains = 3
  MaxSent = 7
INVARIANTS NoRawBlockI
CONSTRAINT Bound
CHECK_DEADLOCK FALSE
