SPECIFICATION Spec
CONSTANTS
  NB = 3
  MaxVersion = 3
  MaxDup = 1
  FreshEtag = TRUE
  CacheMayExpire = FALSE
  RestartKeepsLineage = TRUE
  NoEtagFails = TRUE
  MaxChains = 3
  MaxSent = 7
INVARIANTS NotConcluded
CONSTRAINT Bound
CHECK_DEADLOCK FALSE
