------------------------------ MODULE Trace_Msg ------------------------------
(***************************************************************************)
(* Trace specification for the message and request/response layers.        *)
(* Validates ndjson traces recorded from the real libcoap client running   *)
(* on the simulator (harness/drv_rel.c) against Reliability + Exchange.    *)
(*                                                                         *)
(* Every event is mapped to the guard(s) and effect of the corresponding   *)
(* specification action.  The events carry their arguments, so the step    *)
(* relation is a function: one successor per line, validation is linear.   *)
(* A guard that fails yields a rejection tagged with the property whose    *)
(* statement forbids the step; the rest of that execution is skipped and   *)
(* the next execution (Reset line) is judged independently.                *)
(***************************************************************************)
EXTENDS Exchange, Json, IOUtils

TraceLog == ndJsonDeserialize(IOEnv.TRACE)
OutFile  == IOEnv.OUT
KF(id)   == id \in DOMAIN IOEnv     \* a known finding is enabled by an environment variable

VARIABLES st, l, rej, skip, cur, nexec, ndisc, known, lastRx, lastMid,
          srv       \* the peer is a real libcoap server (drv_rel srv=1): [trig, pend] - pend: token -> virtual time at which the answer its
                    \* handler deferred (coap_register_async) is due (released by the server application, or by the entry's timer)

vars == <<st, l, rej, skip, cur, nexec, ndisc, known, lastRx, lastMid, srv>>
\* lastMid: <<session, type>> -> message id of the last response of that type (ACK / CON) received on the session: all libcoap's duplicate filter remembers

OK(s)        == [ok |-> TRUE,  st |-> s, why |-> "", kf |-> ""]
Bad(s, why)  == [ok |-> FALSE, st |-> s, why |-> why, kf |-> ""]
\* a step that only C07 forbids is a violation only while C07's preconditions hold for this execution
Bad7(s, why) == IF s.c07 THEN Bad(s, why) ELSE OK([s EXCEPT !.broken = TRUE])
Finding(s, id) == [ok |-> TRUE, st |-> s, why |-> "", kf |-> id]

CfgOf(e) == [ackMin |-> e.ato, ackMax |-> (e.ato * e.rf) \div 1000, tol |-> e.tol,
             maxRtx |-> e.mr, nstart |-> e.ns, sess |-> 1..e.nsess]

Dummy == InitState([ackMin |-> 1, ackMax |-> 1, tol |-> 0, maxRtx |-> 0, nstart |-> 1, sess |-> {1}], 0)

InHeld(s, sid, mid) == \E i \in 1..Len(s.held[sid]) : s.held[sid][i].mid = mid

(* ---- one handler per event kind ---------------------------------------- *)
OnCall(s, e) ==
  IF e.api = "send"
  THEN LET m == [s |-> e.s, mid |-> e.mid, ty |-> e.ty, tok |-> e.tok, req |-> TRUE]
       IN IF Submit_ok(s, m) THEN OK(Submit_do(s, m)) ELSE Bad(s, "HARNESS:submit")
  ELSE OK(s)

OnRet(s, e) ==
  IF e.api # "send" \/ s.pend = << >> THEN OK(s)
  ELSE IF e.ret < 0 THEN OK([s EXCEPT !.pend = << >>])          \* refused: not "accepted for sending"
  ELSE IF Hold_ok(s) THEN OK(Hold_do(s, 0))
  ELSE IF s.pend[1].ty = NON THEN Bad(s, "C08:non-confirmable-held")
  ELSE Bad(s, "C08:confirmable-held-below-nstart")

\* Giving up is not logged as an event of its own: the library first frees the slot (and may release a
\* held message) and only then calls the NACK handler.  If the slot is needed and some message of the
\* session has reached its last deadline, the give-up is taken as an internal step (the NACK stays owed).
GaveUp(s, sid) ==
  IF SlotFree(s, sid) THEN s
  ELSE LET G == {k \in InFl(s, sid) : GiveUp_ok(s, k)} IN
       IF G = {} THEN s
       ELSE LET k == CHOOSE x \in G : TRUE
            IN Owe(GiveUp_do(s, k), ONack(k[1], k[2], NackTooManyRetries))

OnTxCon(s0, e) ==
  LET k == <<e.s, e.mid>>
      s == IF k \in DOMAIN s0.fl THEN s0 ELSE GaveUp(s0, e.s) IN
  IF FirstTx_ok(s, e.s, e.mid)
  THEN IF FirstTx_nstart(s, e.s) THEN OK(FirstTx_do(s, e.s, e.mid, e.sig))
       ELSE Bad(s0, "C08:nstart-exceeded")
  ELSE IF e.code = 0 /\ e.tok = "" /\ Ping_ok(s, e.s, e.mid)          \* a keepalive ping of the library's own
  THEN IF Ping_nstart(s, e.s) THEN OK(Ping_do(s, e.s, e.mid, "", e.sig))
       ELSE Bad(s0, "C08:nstart-exceeded")
  ELSE IF k \in DOMAIN s.fl
  THEN IF ~Retransmit_bytes(s, k, e.sig) THEN Bad(s0, "C06:retransmission-not-identical")
       ELSE IF ~Retransmit_count(s, k) THEN Bad(s0, "C06:more-than-max-retransmit")
       ELSE IF ~Retransmit_time(s, k) THEN Bad(s0, "C06:retransmission-off-schedule")
       ELSE OK(Retransmit_do(s, k))
  ELSE IF ReleaseHeld_ok(s, e.s, e.mid)
  THEN IF ReleaseHeld_nstart(s, e.s) THEN OK(ReleaseHeld_do(s, e.s, e.sig))
       ELSE Bad(s0, "C08:nstart-exceeded")
  ELSE IF InHeld(s, e.s, e.mid) THEN Bad(s0, "C08:held-out-of-order")
  ELSE IF k \in DOMAIN s.out /\ s.out[k] = "resp" THEN Bad7(s0, "C07:request-retransmitted-after-its-response")
  ELSE IF k \in DOMAIN s.out THEN Bad(s0, "C06:sent-after-outcome")
  ELSE Bad(s0, "C06:confirmable-nobody-submitted")

OnTx(s1, e) ==
  LET s == IF e.dly >= s1.cfg.ackMin THEN [s1 EXCEPT !.c07 = FALSE] ELSE s1 IN
  CASE e.ty = CON -> OnTxCon(s, e)
    [] e.ty = NON -> IF NonTx_ok(s, e.s, e.mid) THEN OK(NonTx_do(s))
                     ELSE Bad7(s, "C07:non-confirmable-sent-again")
    [] e.ty = ACK -> IF TxAck_ok(s, e.s, e.mid) THEN OK(TxAck_do(s, e.s, e.mid))
                     ELSE Bad7(s, "C07:ack-not-owed")
    [] e.ty = RST -> IF TxRst_ok(s, e.s, e.mid) THEN OK(TxRst_do(s, e.s, e.mid))
                     ELSE Bad7(s, "C07:rst-not-owed")

OnRx(s, e) ==
  CASE e.ty = ACK /\ e.code = 0 -> OK(RxAck_do(s, e.s, e.mid))
    [] e.ty = RST               -> OK(RxRst_do(s, e.s, e.mid))
    [] e.ty = ACK /\ e.code >= 64 -> OK(RxPiggy_do(s, e.s, e.mid, e.tok))
    [] e.ty = CON /\ e.code >= 64 -> OK(RxSepCon_do(s, e.s, e.mid, e.tok))
    [] e.ty = NON /\ e.code >= 64 -> OK(RxSepNon_do(s, e.s, e.mid, e.tok))
    [] OTHER -> OK([s EXCEPT !.broken = TRUE])   \* not produced by the generators

LaterConcluded(s, sid, tok) ==
  \E x \in DOMAIN s.ex : x[1] = sid /\ x[2] # tok /\ s.ex[x].st = "resp" /\ s.ex[x].seq > s.ex[<<sid, tok>>].seq

OnResp(s, e) ==
  IF Deliver_ok(s, e.s, e.mid, e.ty, e.tok)
  THEN OK(Deliver_do(s, e.s, e.mid, e.ty, e.tok, e.verdict))
  ELSE IF /\ KF("KF_C07_OLD_DUPLICATE")
          /\ e.sent = 0
          /\ \/ e.ty = ACK /\ e.mid \in s.seenAck[e.s] /\ lastRx.dup
             \/ e.ty = CON /\ lastRx.dup
          /\ Known(s, e.s, e.tok) /\ s.ex[<<e.s, e.tok>>].st = "resp"
          /\ lastRx.prev # e.mid                  \* another response of that type came in between: the one-deep memory was overwritten
  THEN Finding(s, "KF_C07_OLD_DUPLICATE")
  ELSE IF Known(s, e.s, e.tok) /\ ~Open(s, e.s, e.tok) THEN Bad7(s, "C07:delivered-again-after-conclusion")
  ELSE IF Known(s, e.s, e.tok) THEN Bad7(s, "C07:delivery-without-matching-response")
  ELSE Bad7(s, "C07:delivery-for-unknown-token")

OnNack(s, e) ==
  LET k == <<e.s, e.mid>> IN
  IF Nack_ok(s, e.s, e.mid, e.reason) THEN OK(Nack_do(s, e.s, e.mid, e.reason))
  ELSE IF e.reason = NackTooManyRetries /\ GiveUp_ok(s, k)
  THEN OK(Nack_do(Owe(GiveUp_do(s, k), ONack(e.s, e.mid, e.reason)), e.s, e.mid, e.reason))
  ELSE IF e.reason = NackTooManyRetries /\ k \in DOMAIN s.fl THEN Bad(s, "C06:gave-up-off-schedule")
  ELSE IF e.reason = NackRst /\ e.sent = 0 /\ k \notin DOMAIN s.fl /\ k \notin DOMAIN s.out
  THEN OK(s)                                      \* stray Reset for a message id never used: not a message outcome
  ELSE IF e.reason = NackRst /\ e.sent = 0 /\ k \in DOMAIN s.out /\ s.out[k] \in {"resp", "acked"}
  THEN OK([s EXCEPT !.broken = TRUE])             \* the peer answered AND reset the same message: not a consistent peer
  ELSE IF /\ KF("KF_C06_RST_RENACK")
          /\ e.reason = NackRst /\ e.sent = 0 /\ k \in DOMAIN s.out /\ s.out[k] = "rst"
          /\ lastRx.ty = RST /\ lastRx.mid = e.mid /\ lastRx.s = e.s
  THEN Finding(s, "KF_C06_RST_RENACK")
  ELSE Bad(s, "C06:nack-not-owed")

OwedWhy(s) ==
  LET o == CHOOSE x \in s.owed : TRUE IN
  CASE o.k = "nack" -> "C06:nack-owed-not-delivered"
    [] o.k = "deliver" -> "C07:response-not-delivered"
    [] OTHER -> "C07:reply-owed-not-sent"
Owed(s) == IF (CHOOSE x \in s.owed : TRUE).k = "nack" THEN Bad(s, OwedWhy(s)) ELSE Bad7(s, OwedWhy(s))

OnTick(s, e) ==
  IF e.t <= s.now THEN Bad(s, "HARNESS:time")
  ELSE IF s.owed # {} THEN Owed(s)
  ELSE IF s.pend # << >> THEN Bad(s, "HARNESS:pending")
  ELSE IF ~(\A k \in DOMAIN s.fl : s.now < DueHi(s, s.fl[k]) /\ e.t <= DueHi(s, s.fl[k]))
       THEN Bad(s, "C06:deadline-passed-without-action")
  ELSE IF ~Tick_noheld(s) THEN Bad(s, "C08:held-message-not-released")
  ELSE OK(Tick_do(s, e.t))

OnIo(s, e) == IF Io_ok(s, e.wait) THEN OK(s) ELSE Bad(s, "C06:reported-wait-exceeds-deadline")

OnQuiet(s, e) ==
  IF s.owed # {} THEN Owed(s)
  ELSE IF DOMAIN s.fl # {} THEN Bad(s, "C06:message-without-outcome")
  ELSE IF \E sid \in s.cfg.sess : s.held[sid] # << >> THEN Bad(s, "C08:held-message-lost")
  ELSE IF \E x \in DOMAIN s.ex : /\ s.ex[x].st = "open" /\ s.ex[x].con
                                 /\ <<x[1], s.ex[x].mid>> \in DOMAIN s.out
                                 /\ s.out[<<x[1], s.ex[x].mid>>] # "acked"
       THEN Bad7(s, "C07:request-never-concluded")
  ELSE OK(s)

\* with a real libcoap server as the peer (drv_rel srv=1) the simulator also logs what that node (node 1) sends and receives:
\* this specification is about the client (node 0)
StepEv(s, e) ==
  IF "node" \in DOMAIN e /\ e.node # 0 THEN OK(s) ELSE
  CASE e.e = "Call"  -> OnCall(s, e)
    [] e.e = "Ret"   -> OnRet(s, e)
    [] e.e = "Tx"    -> OnTx(s, e)
    \* the socket refused the datagram (transient error): inside a send call the call fails and the message was never accepted (Ret < 0 follows);
    \* for a message the library already holds (release of a held one, retransmission) it is a transmission that got lost - the message stays queued
    [] e.e = "TxFail" -> IF e.ty \in {CON, NON} /\ s.pend # << >> /\ s.pend[1].s = e.s /\ s.pend[1].mid = e.mid THEN OK(s) ELSE OnTx(s, e)
    [] e.e = "Rx"    -> OnRx(s, e)
    [] e.e = "Resp"  -> OnResp(s, e)
    [] e.e = "Nack"  -> OnNack(s, e)
    [] e.e = "Tick"  -> OnTick(s, e)
    [] e.e = "Io"    -> OnIo(s, e)
    [] e.e = "Quiet" -> OnQuiet(s, e)
    [] e.e = "Hang"  -> Bad(s, "C06:no-quiescence")
    [] e.e = "PeerTx" -> OK(IF e.delay >= s.cfg.ackMin THEN [s EXCEPT !.c07 = FALSE] ELSE s)
    [] OTHER -> OK(s)

InvWhy(s) ==
  IF ~NstartBoundS(s) THEN "C08:more-than-nstart-in-flight"
  ELSE IF ~OneOutcomeS(s) THEN "C06:in-flight-after-outcome"
  ELSE IF ~OneNackS(s) THEN "C06:nack-twice"
  ELSE IF s.c07 /\ ~ConcludeOnceS(s) THEN "C07:concluded-twice"
  ELSE IF ~CountBoundS(s) THEN "C06:more-than-max-retransmit"
  ELSE ""

Step(s, e) ==
  LET r == StepEv(s, e) IN
  IF r.ok /\ InvWhy(r.st) # "" THEN Bad(s, InvWhy(r.st)) ELSE r

(* ---- the server application's side of a deferred answer (srv=1) ---------- *)
\* Until the answer is due a repeat of the request (network duplicate, retransmission after a lost ACK) is only acknowledged again;
\* the handler is called to give the answer when it is due, not before (coap_async.c, handle_request: anchors of C07)
SrvWhy(e) ==
  IF e.e = "SrvHandler" /\ e.again = 1 /\ e.tok \in DOMAIN srv.pend /\ e.t < srv.pend[e.tok]
  THEN "C07:server-handler-called-for-a-deferred-answer-before-it-was-due"
  ELSE ""
SrvNext(e) ==
  IF e.e = "SrvHandler" /\ e.path # "r" /\ e.again = 0
  THEN [srv EXCEPT !.pend = [x \in (DOMAIN srv.pend) \cup {e.tok} |-> IF x = e.tok THEN e.t + srv.trig ELSE srv.pend[x]]]
  ELSE IF e.e = "SrvHandler" /\ e.again = 1
  THEN [srv EXCEPT !.pend = [x \in (DOMAIN srv.pend) \ {e.tok} |-> srv.pend[x]]]
  ELSE srv

(* ---- the trace automaton ------------------------------------------------ *)
Init ==
  /\ st = Dummy /\ l = 1 /\ rej = << >> /\ skip = TRUE /\ cur = -1
  /\ nexec = 0 /\ ndisc = 0 /\ known = {} /\ lastRx = [ty |-> -1, mid |-> -1, s |-> -1, dup |-> FALSE, prev |-> -1] /\ lastMid = [x \in {} |-> 0]
  /\ srv = [trig |-> 0, pend |-> [x \in {} |-> 0]]

Consume ==
  /\ l <= Len(TraceLog)
  /\ LET e == TraceLog[l] IN
     IF e.e = "Reset"
     THEN /\ st' = InitState(CfgOf(e), e.t)
          /\ skip' = FALSE /\ cur' = e.id /\ nexec' = nexec + 1
          /\ lastMid' = [x \in {} |-> 0] /\ UNCHANGED <<rej, ndisc, known, lastRx>>
          /\ srv' = [trig |-> IF "trig" \in DOMAIN e THEN e.trig ELSE 0, pend |-> [x \in {} |-> 0]]
     ELSE IF skip
     THEN UNCHANGED <<st, rej, skip, cur, nexec, ndisc, known, lastRx, lastMid, srv>>
     ELSE LET r0 == Step(st, e)
              r == IF r0.ok /\ SrvWhy(e) # "" THEN Bad(st, SrvWhy(e)) ELSE r0 IN
          /\ srv' = SrvNext(e)
          /\ st' = r.st
          /\ rej' = IF r.ok THEN rej ELSE Append(rej, [id |-> cur, line |-> l, why |-> r.why])
          /\ skip' = (~r.ok \/ r.st.broken)
          /\ ndisc' = IF r.ok /\ r.st.broken THEN ndisc + 1 ELSE ndisc
          /\ known' = IF r.kf # "" THEN known \cup {r.kf} ELSE known
          /\ lastRx' = IF e.e = "Rx"
                        THEN [ty |-> e.ty, mid |-> e.mid, s |-> e.s,
                              dup |-> (e.s \in st.cfg.sess /\
                                       ((e.ty = CON /\ e.mid \in st.seenCon[e.s]) \/
                                        (e.ty = ACK /\ e.mid \in st.seenAck[e.s]))),
                              prev |-> IF <<e.s, e.ty>> \in DOMAIN lastMid THEN lastMid[<<e.s, e.ty>>] ELSE -1]
                        ELSE lastRx
          /\ lastMid' = IF e.e = "Rx" /\ e.code >= 64 /\ e.ty \in {CON, ACK}
                         THEN [x \in (DOMAIN lastMid) \cup {<<e.s, e.ty>>} |-> IF x = <<e.s, e.ty>> THEN e.mid ELSE lastMid[x]]
                         ELSE lastMid
          /\ UNCHANGED <<cur, nexec>>
  /\ l' = l + 1

Finish ==
  /\ l = Len(TraceLog) + 1
  /\ JsonSerialize(OutFile, [rejected |-> rej, executions |-> nexec, discarded |-> ndisc,
                             known |-> known, lines |-> Len(TraceLog)])
  /\ l' = l + 1
  /\ UNCHANGED <<st, rej, skip, cur, nexec, ndisc, known, lastRx, lastMid, srv>>

Next == Consume \/ Finish
Spec == Init /\ [][Next]_vars
=============================================================================
