------------------------------ MODULE MC_Block ------------------------------
(***************************************************************************)
(* Closed model of Block1 transfers the way libcoap runs them, over a       *)
(* channel that loses, duplicates and reorders datagrams.                   *)
(*                                                                          *)
(* Client (coap_add_data_large_request / coap_handle_response_send_block):  *)
(*   stop-and-wait; block 0 carries the application's token, every later    *)
(*   block a fresh state token; all blocks of one transfer carry the same   *)
(*   Request-Tag; a Confirmable block is re-offered until answered; a 2.31  *)
(*   for block n moves on to n+1 -- in the tree as fixed only if n is       *)
(*   beyond the last acknowledged block (StaleAckIgnored).                  *)
(* Server (coap_handle_request_put_block, single body mode): reassembly     *)
(*   entries are found by Request-Tag only; any block creates one; a block  *)
(*   already recorded is not stored again; when every block is in, the body *)
(*   is handed to the application, the entry is DELETED and the final       *)
(*   response sent; otherwise 2.31.                                         *)
(* Transfers run one after the other on the same resource (distinct bodies). *)
(*                                                                          *)
(* Body content is abstract: block n of body b is the pair <<b, n>>.        *)
(***************************************************************************)
EXTENDS Naturals, Integers, Sequences, FiniteSets, Bags, TLC
CONSTANTS NB,              \* blocks per body
          NXfer,           \* transfers, run back to back
          MaxLoss, MaxDup, MaxRtx,
          FreshRtag,       \* TRUE: every transfer gets its own Request-Tag (as built); FALSE: all share one
          StaleAckIgnored  \* TRUE: as fixed (1f05fdf); FALSE: only a 2.31 equal to the last one is a duplicate (as it was)
VARIABLES cl, srv, chan, delivered, arrivals, appSaw, losses, dups
vars == <<cl, srv, chan, delivered, arrivals, appSaw, losses, dups>>

Blocks == 0..(NB - 1)
ExactBody(b) == [n \in Blocks |-> <<b, n>>]
Rtag(x) == IF FreshRtag THEN x ELSE 0
AppTok(x) == <<"app", x>>
\* client: x = current transfer (1..NXfer, NXfer+1 = all done), num = block outstanding, acked = last block acknowledged,
\*         tok = token of the outstanding request, ntok = state tokens used, rtx = re-offers of the outstanding request
InitCl == [x |-> 1, num |-> 0, acked |-> -1, tok |-> AppTok(1), ntok |-> 0, rtx |-> 0, sent |-> FALSE]
Init == /\ cl = InitCl /\ srv = [r \in {} |-> 0] /\ chan = EmptyBag /\ delivered = << >> /\ arrivals = [k \in {} |-> 0]
        /\ appSaw = {} /\ losses = 0 /\ dups = 0

Req(x, n, tok) == [k |-> "req", x |-> x, rtag |-> Rtag(x), num |-> n, m |-> n < NB - 1, data |-> <<x, n>>, tok |-> tok]
Active == cl.x <= NXfer

\* ---- client ----
ClientSend ==            \* first transmission of the outstanding block
  /\ Active /\ ~cl.sent
  /\ chan' = chan (+) SetToBag({Req(cl.x, cl.num, cl.tok)})
  /\ cl' = [cl EXCEPT !.sent = TRUE]
  /\ UNCHANGED <<srv, delivered, arrivals, appSaw, losses, dups>>
ClientRetransmit ==
  /\ Active /\ cl.sent /\ cl.rtx < MaxRtx
  /\ chan' = chan (+) SetToBag({Req(cl.x, cl.num, cl.tok)})
  /\ cl' = [cl EXCEPT !.rtx = @ + 1]
  /\ UNCHANGED <<srv, delivered, arrivals, appSaw, losses, dups>>
NextTransfer(c) == [x |-> c.x + 1, num |-> 0, acked |-> -1, tok |-> AppTok(c.x + 1), ntok |-> c.ntok, rtx |-> 0, sent |-> FALSE]
\* a response reaches the client
ClientRecv(d) ==
  /\ d.k \in {"cont", "final"} /\ BagIn(d, chan)
  /\ chan' = chan (-) SetToBag({d})
  /\ IF Active /\ d.x = cl.x /\ d.k = "cont"                       \* matches the lg_xmit of the running transfer (by token lineage)
     THEN IF (IF StaleAckIgnored THEN d.num <= cl.acked ELSE d.num = cl.acked)
          THEN UNCHANGED <<cl, appSaw>>                             \* duplicate 2.31: ignored
          ELSE IF d.num + 1 > NB - 1 THEN UNCHANGED <<cl, appSaw>>     \* nothing beyond the last block to send
          ELSE /\ cl' = [cl EXCEPT !.acked = d.num, !.num = d.num + 1, !.ntok = @ + 1, !.tok = <<"state", cl.x, cl.ntok + 1>>,
                                   !.rtx = 0, !.sent = FALSE]
               /\ UNCHANGED appSaw
     ELSE IF Active /\ d.x = cl.x /\ d.k = "final"
     THEN /\ appSaw' = appSaw \cup {AppTok(cl.x)}                   \* final response: handed over under the application's token
          /\ cl' = NextTransfer(cl)
     ELSE /\ appSaw' = appSaw \cup {d.tok}                          \* no transfer to match: handed over as received
          /\ UNCHANGED cl
  /\ UNCHANGED <<srv, delivered, arrivals, losses, dups>>

\* ---- server ----
Bump(f, k) == [y \in (DOMAIN f) \cup {k} |-> IF y = k THEN (IF k \in DOMAIN f THEN f[k] + 1 ELSE 1) ELSE f[y]]
ServerRecv(d) ==
  /\ d.k = "req" /\ BagIn(d, chan)
  /\ arrivals' = Bump(arrivals, <<d.x, d.num>>)
  /\ LET ent == IF d.rtag \in DOMAIN srv THEN srv[d.rtag] ELSE [n \in {} |-> 0]       \* reassembly entry: num -> data
         ent2 == IF d.num \in DOMAIN ent THEN ent ELSE [n \in (DOMAIN ent) \cup {d.num} |-> IF n = d.num THEN d.data ELSE ent[n]]
         complete == DOMAIN ent2 = Blocks
     IN IF complete
        THEN /\ delivered' = Append(delivered, ent2)
             /\ srv' = [r \in (DOMAIN srv) \ {d.rtag} |-> srv[r]]                      \* entry deleted at completion
             /\ chan' = (chan (-) SetToBag({d})) (+) SetToBag({[k |-> "final", x |-> d.x, num |-> d.num, tok |-> d.tok]})
        ELSE /\ srv' = [r \in (DOMAIN srv) \cup {d.rtag} |-> IF r = d.rtag THEN ent2 ELSE srv[r]]
             /\ delivered' = delivered
             /\ chan' = IF d.m THEN (chan (-) SetToBag({d})) (+) SetToBag({[k |-> "cont", x |-> d.x, num |-> d.num, tok |-> d.tok]})
                        ELSE chan (-) SetToBag({d})                                     \* last block but not all in: bare ACK, the body is answered later
  /\ UNCHANGED <<cl, appSaw, losses, dups>>

\* ---- network ----
Lose(d) == BagIn(d, chan) /\ losses < MaxLoss /\ chan' = chan (-) SetToBag({d}) /\ losses' = losses + 1
           /\ UNCHANGED <<cl, srv, delivered, arrivals, appSaw, dups>>
Dup(d)  == BagIn(d, chan) /\ dups < MaxDup /\ chan' = chan (+) SetToBag({d}) /\ dups' = dups + 1
           /\ UNCHANGED <<cl, srv, delivered, arrivals, appSaw, losses>>

AClientSend == ClientSend
AClientRetransmit == ClientRetransmit
AClientRecv == \E d \in BagToSet(chan) : ClientRecv(d)
AServerRecv == \E d \in BagToSet(chan) : ServerRecv(d)
ALose == \E d \in BagToSet(chan) : Lose(d)
ADup == \E d \in BagToSet(chan) : Dup(d)
Next == AClientSend \/ AClientRetransmit \/ AClientRecv \/ AServerRecv \/ ALose \/ ADup
Spec == Init /\ [][Next]_vars

\* ---- properties ----
\* C09: whatever the server application obtains is exactly one sender's body
ExactBodyI == \A i \in 1..Len(delivered) : \E x \in 1..NXfer : delivered[i] = ExactBody(x)
\* ... and no more often than every block of that body has reached the server (the shape of KF_C09_EVERY_BLOCK_ARRIVED_AGAIN:
\* with no request de-duplication a complete second set of blocks is a second transfer as far as the server can tell)
Count(x) == Cardinality({i \in 1..Len(delivered) : delivered[i] = ExactBody(x)})
Arr(x, n) == IF <<x, n>> \in DOMAIN arrivals THEN arrivals[<<x, n>>] ELSE 0
NoMoreThanArrivedI == \A x \in 1..NXfer : \A n \in Blocks : Count(x) <= Arr(x, n)
\* at most once outright when no request datagram can arrive twice
AtMostOnceI == (MaxDup = 0 /\ MaxRtx = 0) => \A x \in 1..NXfer : Count(x) <= 1
\* the client application only ever sees its own tokens -- outright when nothing can arrive twice; with duplicates a leftover
\* answer to an earlier block is handed over as received (the shape of KF_C09_LEFTOVER_RESPONSE_KEEPS_STATE_TOKEN)
OwnTokenI == (MaxDup = 0 /\ MaxRtx = 0) => \A t \in appSaw : t[1] = "app"
\* the client never goes back to a block that has been acknowledged (1f05fdf)
MonotoneAckP == [][cl'.x = cl.x => cl'.acked >= cl.acked]_vars
\* progress sanity (not a property): some behaviour completes every transfer
AllDone == cl.x = NXfer + 1
NotAllDone == ~AllDone
=============================================================================
