----------------------------- MODULE Trace_Codec -----------------------------
(***************************************************************************)
(* Trace specification for the codec family (C01, C03, C04): validates the *)
(* calls harness/drv_codec.c made to the real PDU API - every return value,*)
(* the accessor dump after every call, every encoding (byte exact) and     *)
(* every parse verdict - against Pdu / CoapWire.                           *)
(***************************************************************************)
EXTENDS Pdu, Json, IOUtils

TraceLog == ndJsonDeserialize(IOEnv.TRACE)
OutFile  == IOEnv.OUT

VARIABLES p, l, rej, skip, cur, prop, nexec, nops, either

vars == <<p, l, rej, skip, cur, prop, nexec, nops, either>>

OK(s)       == [ok |-> TRUE,  p |-> s, why |-> ""]
Bad(s, why) == [ok |-> FALSE, p |-> s, why |-> why]

DumpMsg(d) == [ty |-> d.ty, code |-> d.code, mid |-> d.mid, tok |-> d.tok,
               opts |-> [i \in 1..Len(d.opts) |-> [num |-> d.opts[i][1], val |-> d.opts[i][2]]], pl |-> d.pl]

ValOf(e) == IF e.lit = 1 THEN [i \in 1..e.len |-> Pat(e.bid, i - 1)] ELSE Blob(e.bid, e.len)
BuildOps == {"tok", "opt", "data"}
TagOf(e) == IF e.op \in BuildOps THEN "C01" ELSE "C04"

\* accepted: the call reported success; after: model state if it succeeds; refused: allowed states after a refusal
Judge(e, accepted, may, must, mustnot, after, refused) ==
  LET d == DumpMsg(e.d) IN
  IF accepted
  THEN IF ~may \/ mustnot THEN Bad(p, TagOf(e) \o ":" \o e.op \o "-accepted-but-must-be-refused")
       ELSE IF d # after.m THEN Bad(p, TagOf(e) \o ":" \o e.op \o "-result-differs-from-model")
       ELSE OK(after)
  ELSE IF must THEN Bad(p, TagOf(e) \o ":" \o e.op \o "-refused-but-must-succeed")
       ELSE IF \E r \in refused : r.m = d THEN OK(CHOOSE r \in refused : r.m = d)
       ELSE Bad(p, TagOf(e) \o ":" \o e.op \o "-refused-but-message-disturbed")

OnOp(e) ==
  LET v == ValOf(e) IN
  CASE e.op = "tok"  -> Judge(e, e.ret = 1, AddToken_may(p, v), AddToken_must(p, v), FALSE, AddToken_do(p, v), {p})
    [] e.op = "opt"  -> Judge(e, e.ret > 0, AddOpt_may(p, e.num, v, FALSE), AddOpt_must(p, e.num, v, FALSE),
                              AddOpt_mustnot(p, e.num, v, FALSE), AddOpt_do(p, e.num, v), AddOpt_refused(p, e.num))
    [] e.op = "ins"  -> Judge(e, e.ret > 0, TRUE, AddOpt_must(p, e.num, v, TRUE),
                              AddOpt_mustnot(p, e.num, v, TRUE), AddOpt_do(p, e.num, v), AddOpt_refused(p, e.num))
    [] e.op = "upd"  -> Judge(e, e.ret > 0, TRUE, UpdOpt_must(p, e.num, v), UpdOpt_mustnot(p, e.num, v),
                              UpdOpt_do(p, e.num, v), AddOpt_refused(p, e.num))
    [] e.op = "rem"  -> Judge(e, e.ret = 1, Has(p.m, e.num), RemOpt_must(p, e.num), FALSE,
                              IF Has(p.m, e.num) THEN RemOpt_do(p, e.num) ELSE p, {p})
    [] e.op = "utok" -> Judge(e, e.ret = 1, TRUE, UpdTok_must(p, v), UpdTok_mustnot(p, v), UpdTok_do(p, v), {p})
    [] e.op = "data" -> Judge(e, e.ret = 1, TRUE, AddData_must(p, v), AddData_mustnot(p, v), AddData_do(p, v), {p})

\* encoding of the current message for one framing: byte exact
OnEnc(e) ==
  IF e.ret = 0 THEN Bad(p, prop \o ":encode-header-failed")
  ELSE IF e.w # Enc(e.proto, p.m) THEN Bad(p, prop \o ":" \o e.proto \o "-encoding-differs-from-rfc")
  ELSE OK(p)

\* re-parse of the bytes just produced: must be accepted and give the same message
OnReparse(e) ==
  LET x == Dec(e.proto, e.w) IN
  IF x.ok = "undecidable" THEN Bad(p, "HARNESS:undecidable")
  ELSE IF x.ok = "bad" THEN Bad(p, "HARNESS:model-rejects-own-encoding")
  ELSE IF e.ret = 0 THEN (IF x.ok = "either" THEN OK(p) ELSE Bad(p, prop \o ":own-encoding-rejected-by-parser"))
  ELSE IF DumpMsg(e.d) # Norm(e.proto, p.m) THEN Bad(p, prop \o ":reparse-differs-from-message")
  ELSE OK(p)

\* C03: arbitrary bytes.  accept <=> well-formed, and the dump equals the reference decoding
OnParse(e) ==
  LET x == Dec(e.proto, e.w) IN
  IF x.ok = "undecidable" THEN Bad(p, "HARNESS:undecidable")
  ELSE IF x.ok = "either" THEN OK(p)
  ELSE IF x.ok = "bad" /\ e.ret # 0 THEN Bad(p, "C03:malformed-input-accepted")
  ELSE IF x.ok = "ok" /\ e.ret = 0 THEN Bad(p, "C03:well-formed-input-rejected")
  ELSE IF x.ok = "ok" /\ DumpMsg(e.d) # x.m THEN Bad(p, "C03:accessors-differ-from-reference-decoding")
  ELSE OK(p)

Step(e) ==
  CASE e.e = "New"     -> OK(New(e.ty, e.code, e.mid, e.max))
    [] e.e = "Op"      -> OnOp(e)
    [] e.e = "Enc"     -> OnEnc(e)
    [] e.e = "Reparse" -> OnReparse(e)
    [] e.e = "Parse"   -> OnParse(e)
    [] e.e = "Crash"   -> Bad(p, prop \o ":driver-crashed")
    [] OTHER -> OK(p)

Init == /\ p = New(0, 0, 0, 0) /\ l = 1 /\ rej = << >> /\ skip = TRUE /\ cur = -1 /\ prop = "C01"
        /\ nexec = 0 /\ nops = 0 /\ either = 0

Consume ==
  /\ l <= Len(TraceLog)
  /\ LET e == TraceLog[l] IN
     IF e.e = "Reset"
     THEN /\ p' = New(0, 0, 0, 0) /\ skip' = FALSE /\ cur' = e.id /\ prop' = e.prop /\ nexec' = nexec + 1
          /\ UNCHANGED <<rej, nops, either>>
     ELSE IF skip THEN UNCHANGED <<p, rej, skip, cur, prop, nexec, nops, either>>
     ELSE LET r == Step(e) IN
          /\ p' = r.p
          /\ rej' = IF r.ok THEN rej ELSE Append(rej, [id |-> cur, line |-> l, why |-> r.why])
          /\ skip' = ~r.ok
          /\ nops' = nops + 1
          /\ either' = IF e.e = "Parse" /\ Dec(e.proto, e.w).ok = "either" THEN either + 1 ELSE either
          /\ UNCHANGED <<cur, prop, nexec>>
  /\ l' = l + 1

Finish ==
  /\ l = Len(TraceLog) + 1
  /\ JsonSerialize(OutFile, [rejected |-> rej, executions |-> nexec, discarded |-> 0, known |-> {},
                             lines |-> Len(TraceLog), ops |-> nops, either |-> either])
  /\ l' = l + 1
  /\ UNCHANGED <<p, rej, skip, cur, prop, nexec, nops, either>>

Next == Consume \/ Finish
Spec == Init /\ [][Next]_vars
=============================================================================
