SPECIFICATION Spec
CONSTANTS
  Keys = {1, 2, 3}
  Types = {3}
  MaxArrivals = 5
  RepeatRunsHandler = FALSE
  AckNonRepeat = FALSE
INVARIANTS NonNeverAckedI AnswerAfterReleaseI AnswersI
CHECK_DEADLOCK FALSE
