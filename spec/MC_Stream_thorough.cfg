SPECIFICATION Spec
CONSTANTS
  Streams <- StreamSet
  MaxSize = 24
  MaxChunk = 5
INVARIANTS EmittedIsPrefix CompleteAtEnd Bounded DependsOnlyOnBytes
CHECK_DEADLOCK FALSE
