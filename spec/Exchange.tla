------------------------------- MODULE Exchange -------------------------------
(***************************************************************************)
(* Request/response layer of a CoAP client on a datagram transport         *)
(* (RFC 7252 §5.2/§5.3): matching of responses to open exchanges by token, *)
(* piggybacked / separate Confirmable / Non-confirmable responses,         *)
(* acknowledging and de-duplicating Confirmable responses, the Reset that  *)
(* follows a handler verdict of FAIL.  Operates on the state record of     *)
(* module Reliability.  (Property C07.)                                    *)
(***************************************************************************)
EXTENDS Reliability

Open(st, s, tok)  == <<s, tok>> \in DOMAIN st.ex /\ st.ex[<<s, tok>>].st = "open"
Known(st, s, tok) == <<s, tok>> \in DOMAIN st.ex

ODeliverT(s, mid, ty, tok) == [k |-> "deliver", s |-> s, mid |-> mid, x |-> <<ty, tok>>]
OReply(s, mid)             == [k |-> "reply", s |-> s, mid |-> mid, x |-> 0]  \* ACK or RST, fixed by the verdict

\* A response (piggybacked or separate) stops retransmission of every in-flight request with its token.
CancelByToken(st, s, tok) ==
  LET K == {k \in DOMAIN st.fl : k[1] = s /\ st.fl[k].tok = tok}
  IN [st EXCEPT !.fl  = [k \in (DOMAIN st.fl) \ K |-> st.fl[k]],
                !.out = [k \in (DOMAIN st.out) \cup K |-> IF k \in K THEN "resp" ELSE st.out[k]]]

(* Piggybacked response (type ACK, non-empty code) with message id mid.     *)
\* What the receiver remembers of the message ids it has seen.  The design (and RFC 7252 section 4.5) is "all of them, for
\* EXCHANGE_LIFETIME".  cfg.oneDeep is libcoap as it is built: one id per session and type (last_ack_mid / last_con_mid), and a
\* response whose id is not that one is delivered whether or not its exchange is still open - the mechanism of KF_C07_OLD_DUPLICATE,
\* which MC_Reliability_onedeep.cfg lets TLC find.
OneDeep(st) == "oneDeep" \in DOMAIN st.cfg /\ st.cfg.oneDeep
Remember(st, seen, mid) == IF OneDeep(st) THEN {mid} ELSE seen \cup {mid}
RxPiggy_do(st, s, mid, tok) ==
  LET k == <<s, mid>>
      s1 == IF k \in DOMAIN st.fl THEN Conclude(st, k, "resp") ELSE st
      s2 == [s1 EXCEPT !.seenAck[s] = Remember(st, @, mid)]
  IN IF (IF OneDeep(st) THEN Known(st, s, tok) ELSE Open(st, s, tok)) /\ mid \notin st.seenAck[s]
     THEN Owe(s2, ODeliverT(s, mid, ACK, tok))
     ELSE s2

(* Separate Confirmable response: always answered (ACK, or RST after FAIL); *)
(* a duplicate (same message id from the same peer) is answered again but   *)
(* not delivered again.                                                     *)
RxSepCon_do(st, s, mid, tok) ==
  LET dup == mid \in st.seenCon[s]
      s1  == CancelByToken(st, s, tok)
      s2  == [s1 EXCEPT !.seenCon[s] = Remember(st, @, mid)]
  IN IF dup THEN Owe(s1, IF mid \in st.failCon[s] THEN OReply(s, mid) ELSE OAck(s, mid))
     ELSE IF Open(st, s, tok) \/ (OneDeep(st) /\ Known(st, s, tok)) THEN Owe(s2, ODeliverT(s, mid, CON, tok))
     ELSE [s2 EXCEPT !.broken = TRUE]   \* a second, different response to a concluded exchange:
                                        \* the peer is not a de-duplicating server (outside C07)

(* Non-confirmable response: delivered once per datagram received.          *)
RxSepNon_do(st, s, mid, tok) ==
  Owe(CancelByToken(st, s, tok), ODeliverT(s, mid, NON, tok))

(* Response handler runs.  verdict \in {"OK","FAIL"}.                        *)
Deliver_ok(st, s, mid, ty, tok) == ODeliverT(s, mid, ty, tok) \in st.owed
Deliver_do(st, s, mid, ty, tok, verdict) ==
  LET s1 == Discharge(st, ODeliverT(s, mid, ty, tok))
      wasOpen == Open(st, s, tok)
      s2 == IF wasOpen
            THEN [s1 EXCEPT !.ex[<<s, tok>>].st = "resp", !.nConcl = Bump(@, <<s, tok>>)]
            ELSE IF ty # NON /\ Known(st, s, tok)
                 THEN [s1 EXCEPT !.nConcl = Bump(@, <<s, tok>>)]   \* a second conclusion: caught by ConcludeOnceS
                 ELSE s1
  IN CASE ty = ACK -> s2
       [] ty = CON -> IF verdict = "FAIL"
                      THEN Owe([s2 EXCEPT !.failCon[s] = @ \cup {mid}], ORst(s, mid))
                      ELSE Owe(s2, OAck(s, mid))
       [] ty = NON -> IF verdict = "FAIL" THEN Owe(s2, ORst(s, mid)) ELSE s2

(* The library transmits an ACK / RST for message id mid.                   *)
TxAck_ok(st, s, mid) == OAck(s, mid) \in st.owed \/ OReply(s, mid) \in st.owed
TxAck_do(st, s, mid) == [st EXCEPT !.owed = @ \ {OAck(s, mid), OReply(s, mid)}]
TxRst_ok(st, s, mid) == ORst(s, mid) \in st.owed \/ OReply(s, mid) \in st.owed
TxRst_do(st, s, mid) == [st EXCEPT !.owed = @ \ {ORst(s, mid), OReply(s, mid)}]
=============================================================================
