SPECIFICATION Spec
CONSTANTS
  NSess = 1
  NMsg = 2
  MaxRtx = 1
  Nstart = 1
  AckMin = 2
  AckMax = 3
  MaxTime = 10
  MaxDup = 0
  SubmitUntil = 1
  OneDeepMemory = FALSE
  MaxPings = 0
INVARIANTS NstartBoundI OneOutcomeI NeverLateI OneNackI CountBoundI ConcludeOnceI HeldFifoI
CONSTRAINT NotBrokenI
CHECK_DEADLOCK FALSE
