------------------------------- MODULE MC_Defer -------------------------------
(***************************************************************************)
(* Closed model of deferred answers (coap_register_async) on a server, the *)
(* part of C07 / C10 that Trace_Server and Trace_Msg judge on the real     *)
(* code: a handler may defer its answer; until the application releases it *)
(* (or its timer fires) every repeat of the request - a retransmission     *)
(* because the empty ACK was lost, a network duplicate, a client asking    *)
(* again - is only acknowledged (CON) or ignored (NON); the answer is      *)
(* given once, after the release, under the request's token, and never as  *)
(* an acknowledgement.                                                      *)
(* Variants (negative configurations):                                      *)
(*   RepeatRunsHandler  the pending test is skipped for entries that wait   *)
(*                      for the application (seeded change C07-g): the      *)
(*                      handler finds its entry and answers before release  *)
(*   AckNonRepeat       the repeat of a NON request is acknowledged         *)
(*                      (seeded change C10-h)                               *)
(***************************************************************************)
EXTENDS Naturals, FiniteSets, Sequences
CONSTANTS Keys,              \* (peer, token) pairs
          Types,             \* Keys -> "CON" | "NON"  (given as a function in the cfg-less definition below)
          MaxArrivals, RepeatRunsHandler, AckNonRepeat
VARIABLES pend,      \* keys whose answer is deferred
          released,  \* ... and released by the application / timer
          arrivals,  \* number of request datagrams so far
          out        \* what the server has sent: sequence of [k, kind]  kind \in {"emptyack", "answer", "piggyback"}
vars == <<pend, released, arrivals, out>>
TypeOf(k) == IF k \in Types THEN "NON" ELSE "CON"     \* Types: the keys whose requests are Non-confirmable
Init == pend = {} /\ released = {} /\ arrivals = 0 /\ out = << >>

\* a request datagram for key k arrives
Arrive(k) ==
  /\ arrivals < MaxArrivals /\ arrivals' = arrivals + 1
  /\ IF k \notin pend
     THEN \* the handler runs, defers: the request is acknowledged if Confirmable
          /\ pend' = pend \cup {k}
          /\ out' = IF TypeOf(k) = "CON" THEN Append(out, [k |-> k, kind |-> "emptyack"]) ELSE out
          /\ UNCHANGED released
     ELSE IF RepeatRunsHandler /\ k \notin released
     THEN \* the handler is handed the repeat, finds its entry and gives the answer - piggybacked on the repeat's acknowledgement
          /\ out' = Append(out, [k |-> k, kind |-> "piggyback"])
          /\ UNCHANGED <<pend, released>>
     ELSE \* a repeat while the answer is pending
          /\ out' = IF TypeOf(k) = "CON" \/ AckNonRepeat THEN Append(out, [k |-> k, kind |-> "emptyack"]) ELSE out
          /\ UNCHANGED <<pend, released>>
Release(k) == k \in pend /\ k \notin released /\ released' = released \cup {k} /\ UNCHANGED <<pend, arrivals, out>>
Answer(k) == /\ k \in pend /\ k \in released
             /\ pend' = pend \ {k} /\ released' = released \ {k}
             /\ out' = Append(out, [k |-> k, kind |-> "answer"]) /\ UNCHANGED arrivals
Next == \E k \in Keys : Arrive(k) \/ Release(k) \/ Answer(k)
Spec == Init /\ [][Next]_vars

\* a Non-confirmable request is never acknowledged (C10)
NonNeverAckedI == \A i \in 1..Len(out) : out[i].kind \in {"emptyack", "piggyback"} => TypeOf(out[i].k) = "CON"
\* no answer before the release: whatever carries the response code is an "answer", and answers are sent by Answer only (C07: the exchange concludes once)
AnswerAfterReleaseI == \A i \in 1..Len(out) : out[i].kind # "piggyback"
\* between two deferrals of a key at most one answer: never more answers than first arrivals
AnswersI == \A k \in Keys : Cardinality({i \in 1..Len(out) : out[i].k = k /\ out[i].kind \in {"answer", "piggyback"}}) <= arrivals
=============================================================================
