SPECIFICATION Spec
CONSTANTS
  Clients = {1, 2, 3}
  Start = 16777214
  MaxChanges = 3
  ResourceWideDirty = FALSE
INVARIANTS Monotone MonotoneStrict StrictAfterChange OneEntry DirtyRegistered
CONSTRAINT Bound
CHECK_DEADLOCK FALSE
