SPECIFICATION Spec
CONSTANTS
  NewRec = 2
  InPlace = TRUE
INVARIANTS OldOrNew
CHECK_DEADLOCK FALSE
