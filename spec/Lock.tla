--------------------------------- MODULE Lock ---------------------------------
(***************************************************************************)
(* libcoap's global lock protocol (coap_threadsafe_internal.h): one mutex, *)
(* taken by every public API entry point, kept across "kept" application   *)
(* callbacks (in_callback counts them, so that the callback may re-enter   *)
(* the API: lock_count counts those nested entries), dropped across        *)
(* "released" callbacks and across the I/O wait.  Property C13.            *)
(*                                                                         *)
(* AsWritten = TRUE reproduces coap_lock_callback_ret() as found in the    *)
(* tree (in_callback incremented twice, decremented once).                 *)
(***************************************************************************)
EXTENDS Naturals, Integers, Sequences, FiniteSets, TLC
CONSTANTS Threads, MaxCalls, MaxDepth, AsWritten
None == 0
VARIABLES holder, inCb, lockCnt, stack, calls
vars == <<holder, inCb, lockCnt, stack, calls>>
\* stack[t]: frames "api" (inside a public call, lock held) | "cbk" (kept callback) | "cbr" (released callback) | "wait" (I/O wait, lock dropped)

Init == holder = None /\ inCb = 0 /\ lockCnt = 0 /\ stack = [t \in Threads |-> << >>] /\ calls = [t \in Threads |-> MaxCalls]
Top(t) == stack[t][Len(stack[t])]
Push(t, f) == stack' = [stack EXCEPT ![t] = Append(@, f)]
Pop(t) == stack' = [stack EXCEPT ![t] = SubSeq(@, 1, Len(@) - 1)]

\* coap_lock_lock_func()
Nested(t) == inCb > 0 /\ holder = t
CanLock(t) == Nested(t) \/ holder = None
DoLock(t) == IF Nested(t) THEN lockCnt' = lockCnt + 1 /\ UNCHANGED holder ELSE holder' = t /\ UNCHANGED lockCnt
\* coap_lock_unlock_func()
DoUnlock(t) == IF inCb > 0 THEN lockCnt' = lockCnt - 1 /\ UNCHANGED holder ELSE holder' = None /\ UNCHANGED lockCnt

ApiEnter(t) == /\ \/ stack[t] = << >> /\ calls[t] > 0
                  \/ stack[t] # << >> /\ Top(t) \in {"cbk", "cbr"} /\ Len(stack[t]) < MaxDepth
               /\ CanLock(t) /\ DoLock(t) /\ Push(t, "api")
               /\ calls' = IF stack[t] = << >> THEN [calls EXCEPT ![t] = @ - 1] ELSE calls
               /\ UNCHANGED inCb
ApiExit(t) == /\ stack[t] # << >> /\ Top(t) = "api" /\ DoUnlock(t) /\ Pop(t) /\ UNCHANGED <<inCb, calls>>
\* coap_lock_callback() / coap_lock_callback_ret(): the lock stays with the thread
CbEnterKept(t, ret) == /\ stack[t] # << >> /\ Top(t) = "api" /\ Len(stack[t]) < MaxDepth
                       /\ inCb' = inCb + (IF ret /\ AsWritten THEN 2 ELSE 1) /\ Push(t, "cbk") /\ UNCHANGED <<holder, lockCnt, calls>>
CbExitKept(t) == /\ stack[t] # << >> /\ Top(t) = "cbk" /\ inCb' = inCb - 1 /\ Pop(t) /\ UNCHANGED <<holder, lockCnt, calls>>
\* coap_lock_callback_release(): unlock, run the callback, lock again
CbEnterReleased(t) == /\ stack[t] # << >> /\ Top(t) = "api" /\ Len(stack[t]) < MaxDepth /\ DoUnlock(t) /\ Push(t, "cbr") /\ UNCHANGED <<inCb, calls>>
CbExitReleased(t) == /\ stack[t] # << >> /\ Top(t) = "cbr" /\ CanLock(t) /\ DoLock(t) /\ Pop(t) /\ UNCHANGED <<inCb, calls>>
\* the I/O loop drops the lock around its wait
IoWaitEnter(t) == /\ stack[t] # << >> /\ Top(t) = "api" /\ Len(stack[t]) = 1 /\ DoUnlock(t) /\ Push(t, "wait") /\ UNCHANGED <<inCb, calls>>
IoWaitExit(t) == /\ stack[t] # << >> /\ Top(t) = "wait" /\ CanLock(t) /\ DoLock(t) /\ Pop(t) /\ UNCHANGED <<inCb, calls>>

AApiEnter == \E t \in Threads : ApiEnter(t)
AApiExit == \E t \in Threads : ApiExit(t)
ACbKept == \E t \in Threads, r \in BOOLEAN : CbEnterKept(t, r)
ACbKeptExit == \E t \in Threads : CbExitKept(t)
ACbReleased == \E t \in Threads : CbEnterReleased(t)
ACbReleasedExit == \E t \in Threads : CbExitReleased(t)
AIoWait == \E t \in Threads : IoWaitEnter(t)
AIoWaitExit == \E t \in Threads : IoWaitExit(t)
Next == AApiEnter \/ AApiExit \/ ACbKept \/ ACbKeptExit \/ ACbReleased \/ ACbReleasedExit \/ AIoWait \/ AIoWaitExit
Spec == Init /\ [][Next]_vars
FairSpec == Spec /\ WF_vars(Next)

AllIdle == \A t \in Threads : stack[t] = << >>
AllDone == AllIdle /\ \A t \in Threads : calls[t] = 0
MutualExclusion == \A t \in Threads : (stack[t] # << >> /\ Top(t) = "api") => holder = t     \* library code runs only under the lock
NoLeak == AllIdle => (holder = None /\ inCb = 0 /\ lockCnt = 0)                               \* nothing stays locked when everybody is outside
CountsConsistent == lockCnt >= 0 /\ inCb >= 0 /\ (holder = None => lockCnt = 0)
NoDeadlock == ~AllDone => ENABLED Next                                                        \* somebody can always make a step
EveryCallCompletes == <>[]AllDone
=============================================================================
