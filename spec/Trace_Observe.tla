---------------------------- MODULE Trace_Observe ----------------------------
(***************************************************************************)
(* Trace specification for C11: registrations / cancellations injected by  *)
(* scripted observers, resource changes signalled by the application and   *)
(* every datagram the real libcoap server sent down to the observers       *)
(* (harness/drv_obs.c), judged with module Observe.                        *)
(***************************************************************************)
EXTENDS Observe, Json, IOUtils
TraceLog == ndJsonDeserialize(IOEnv.TRACE)
OutFile  == IOEnv.OUT
KF(id) == id \in DOMAIN IOEnv

VARIABLES l, rej, cur, skip, s, pendReq, mids, known, nexec, rstate, maxrtx, lastChange, errmode
vars == <<l, rej, cur, skip, s, pendReq, mids, known, nexec, rstate, maxrtx, lastChange, errmode>>
\* pendReq: <<c, mid>> -> [kind "reg"|"cancel", key, tok]   requests whose piggybacked response is awaited
\* mids:    <<c, mid>> -> [key, copies, acked, con, val]    notifications sent (by message id)
\* rstate:  resource -> current state number ; errmode: resource -> handler code

OK(x) == [why |-> "", s |-> x, kf |-> ""]
Bad(why) == [why |-> why, s |-> s, kf |-> ""]

KeyOf(e) == <<e.c, e.res, e.q>>

\* a datagram from the server to client c
OnDown(e) ==
  LET pk == <<e.c, e.mid>> IN
  IF e.code = 0 THEN OK(s)                                   \* empty ACK / RST
  ELSE IF e.ty = 2                                            \* piggybacked response to a register / cancel request
  THEN IF pk \notin DOMAIN pendReq THEN OK(s)
       ELSE LET p == pendReq[pk] IN
            IF p.kind = "reg"
            THEN IF e.code = 69 /\ e.obs >= 0 THEN OK(Register_do(s, p.key, p.tok, e.obs, e.state))
                 ELSE IF e.code = 69 THEN OK(Deregister_do(s, p.key))       \* served without Observe: not registered
                 ELSE OK(Deregister_do(s, p.key))                            \* error response: no observation
            ELSE OK(Deregister_do(s, p.key))
  ELSE \* CON / NON: a notification (or the 4.04 sent when a resource goes away)
       LET K == KeysOfTok(s, e.c, e.tok) IN
       IF pk \in DOMAIN mids THEN OK(s)                       \* retransmission of a Confirmable notification
       ELSE IF K = {}
       THEN (IF e.code >= 128 /\ \E g \in s.gone : g[1] = e.c /\ g[2] = e.tok THEN OK(s)    \* the error that ended an observation
             ELSE Bad("C11:notification-to-a-client-that-is-not-registered"))
       ELSE LET k == CHOOSE x \in K : TRUE IN
            IF e.code >= 128 THEN OK([Deregister_do(s, k) EXCEPT !.gone = @ \cup {<<e.c, e.tok>>}])   \* error response ends the observation
            ELSE IF e.obs < 0 THEN Bad("C11:notification-without-observe-option")
            ELSE IF ~Notify_fresh(s, k, e.obs)
                 THEN IF KF("KF_C11_PENDING_CHANGE_REPEATS_REGISTRATION_VALUE") /\ s.obs[k].reg /\ e.obs = s.obs[k].last /\ e.state = s.obs[k].state
                      THEN [why |-> "", s |-> Notify_do(s, k, e.obs, e.ty = 0, e.state), kf |-> "KF_C11_PENDING_CHANGE_REPEATS_REGISTRATION_VALUE"]
                      ELSE Bad("C11:observe-value-not-strictly-greater")
            ELSE IF ~Notify_type(s, k, e.ty = 0) THEN Bad("C11:more-than-five-non-confirmable-notifications-in-a-row")
            ELSE OK(Notify_do(s, k, e.obs, e.ty = 0, e.state))

\* the last state must have reached every observer that is still registered
QuietWhy ==
  IF \E k \in DOMAIN s.obs : k[2] \in DOMAIN rstate /\ k[2] \notin DOMAIN errmode /\ s.obs[k].state # rstate[k[2]]
  THEN "C11:last-state-never-notified-to-a-registered-observer" ELSE ""

\* a notification that was never acknowledged after all its transmissions: the observation has failed
Failed(m) == m.con /\ ~m.acked /\ m.copies >= maxrtx + 1
\* ... the observation it was sent for: the entry still carries the token the notification went out under.  When the client has re-registered
\* under another token in the meantime the statement does not say whether the NEW registration goes too (libcoap keeps it): left open
Current(st, m) == m.key \in DOMAIN st.obs /\ st.obs[m.key].tok = m.tok
FailedKeys(st) == {mids[pk].key : pk \in {x \in DOMAIN mids : Failed(mids[x]) /\ Current(st, mids[x])}}
OpenKeys(st) == {mids[pk].key : pk \in {x \in DOMAIN mids : Failed(mids[x]) /\ ~Current(st, mids[x]) /\ mids[x].key \in DOMAIN st.obs}}
AfterFailures(st) == [st EXCEPT !.obs = [k \in (DOMAIN st.obs) \ FailedKeys(st) |-> st.obs[k]], !.maybe = (@ \cup OpenKeys(st)) \ FailedKeys(st)]

Init == /\ l = 1 /\ rej = << >> /\ cur = -1 /\ skip = TRUE /\ s = InitObs(0) /\ pendReq = EmptyFn /\ mids = EmptyFn /\ known = {}
        /\ nexec = 0 /\ rstate = EmptyFn /\ maxrtx = 4 /\ lastChange = 0 /\ errmode = EmptyFn

Step(e) ==
  CASE e.e = "Reg" -> [why |-> "", s |-> s, kf |-> "", pend |-> Put(pendReq, <<e.c, e.mid>>, [kind |-> "reg", key |-> KeyOf(e), tok |-> e.tok])]
    [] e.e = "Cancel" -> [why |-> "", s |-> s, kf |-> "", pend |-> Put(pendReq, <<e.c, e.mid>>, [kind |-> "cancel", key |-> KeyOf(e), tok |-> e.tok])]
    [] OTHER -> [why |-> "", s |-> s, kf |-> "", pend |-> pendReq]

Consume ==
  /\ l <= Len(TraceLog)
  /\ LET e == TraceLog[l] IN
     CASE e.e = "Reset" ->
            /\ cur' = e.id /\ skip' = FALSE /\ s' = InitObs(e.mode) /\ pendReq' = EmptyFn /\ mids' = EmptyFn /\ nexec' = nexec + 1
            /\ rstate' = EmptyFn /\ maxrtx' = e.maxrtx /\ lastChange' = 0 /\ errmode' = EmptyFn /\ UNCHANGED <<rej, known>>
       [] e.e \in {"Reg", "Cancel"} /\ ~skip ->
            /\ pendReq' = Step(e).pend /\ UNCHANGED <<rej, cur, skip, s, mids, known, nexec, rstate, maxrtx, lastChange, errmode>>
       [] e.e = "Change" /\ ~skip ->
            /\ rstate' = Put(rstate, e.res, e.state) /\ lastChange' = e.t
            /\ UNCHANGED <<rej, cur, skip, s, pendReq, mids, known, nexec, maxrtx, errmode>>
       [] e.e = "Mode" /\ ~skip -> errmode' = Put(errmode, e.res, e.code) /\ UNCHANGED <<rej, cur, skip, s, pendReq, mids, known, nexec, rstate, maxrtx, lastChange>>
       [] e.e = "Delete" /\ ~skip ->
            \* observers of a deleted resource get (at most) one 4.04 and nothing afterwards
            /\ s' = [s EXCEPT !.obs = [k \in (DOMAIN s.obs) \ KeysOfRes(s, e.res) |-> s.obs[k]],
                              !.gone = @ \cup {<<k[1], s.obs[k].tok>> : k \in KeysOfRes(s, e.res)}]
            /\ UNCHANGED <<rej, cur, skip, pendReq, mids, known, nexec, rstate, maxrtx, lastChange, errmode>>
       [] e.e = "Down" /\ ~skip ->
            LET r == OnDown(e)
                pk == <<e.c, e.mid>>
                isNotif == e.code # 0 /\ e.ty \in {0, 1}
                K == KeysOfTok(s, e.c, e.tok)
            IN /\ s' = r.s
               /\ rej' = IF r.why = "" THEN rej ELSE Append(rej, [id |-> cur, line |-> l, why |-> r.why])
               /\ skip' = (r.why # "")
               /\ mids' = IF ~isNotif THEN mids
                          ELSE IF pk \in DOMAIN mids THEN [mids EXCEPT ![pk].copies = @ + 1]
                          ELSE Put(mids, pk, [key |-> IF K = {} THEN <<-1, -1, "">> ELSE CHOOSE x \in K : TRUE, copies |-> 1, acked |-> FALSE, con |-> (e.ty = 0), val |-> e.obs, tok |-> e.tok])
               /\ known' = IF r.kf = "" THEN known ELSE known \cup {r.kf}
               /\ UNCHANGED <<cur, pendReq, nexec, rstate, maxrtx, lastChange, errmode>>
       [] e.e = "AckSent" /\ ~skip ->
            /\ mids' = IF <<e.c, e.mid>> \in DOMAIN mids THEN [mids EXCEPT ![<<e.c, e.mid>>].acked = TRUE] ELSE mids
            /\ UNCHANGED <<rej, cur, skip, s, pendReq, known, nexec, rstate, maxrtx, lastChange, errmode>>
       [] e.e = "RstSent" /\ ~skip ->
            \* a Reset in reply to a notification ends that observation
            LET pk == <<e.c, e.mid>>
                k == IF pk \in DOMAIN mids THEN mids[pk].key ELSE <<-1, -1, "">>
                newest == pk \in DOMAIN mids /\ Registered(s, k) /\ s.obs[k].last = mids[pk].val
            IN /\ s' = IF ~Registered(s, k) THEN s
                       ELSE IF newest \/ ~KF("KF_C11_RST_OLD_NOTIFICATION") THEN Deregister_do(s, k)
                       ELSE s                                   \* known finding: a Reset for an older notification is not matched
               /\ known' = IF Registered(s, k) /\ ~newest /\ KF("KF_C11_RST_OLD_NOTIFICATION") THEN known \cup {"KF_C11_RST_OLD_NOTIFICATION"} ELSE known
               /\ UNCHANGED <<rej, cur, skip, pendReq, mids, nexec, rstate, maxrtx, lastChange, errmode>>
       [] e.e = "Ran" /\ ~skip ->
            \* observations whose Confirmable notification exhausted its retransmissions unanswered have failed
            /\ s' = AfterFailures(s)
            /\ mids' = [pk \in {x \in DOMAIN mids : ~Failed(mids[x])} |-> mids[pk]]
            /\ UNCHANGED <<rej, cur, skip, pendReq, known, nexec, rstate, maxrtx, lastChange, errmode>>
       [] e.e = "Quiet" /\ ~skip ->
            LET s2 == AfterFailures(s)
                w == IF \E k \in (DOMAIN s2.obs) \ s2.maybe : k[2] \in DOMAIN rstate /\ k[2] \notin DOMAIN errmode /\ s2.obs[k].state # rstate[k[2]]
                     THEN "C11:last-state-never-notified-to-a-registered-observer" ELSE ""
            IN /\ rej' = IF w = "" THEN rej ELSE Append(rej, [id |-> cur, line |-> l, why |-> w])
               /\ UNCHANGED <<cur, skip, s, pendReq, mids, known, nexec, rstate, maxrtx, lastChange, errmode>>
       [] e.e = "Crash" -> /\ rej' = Append(rej, [id |-> cur, line |-> l, why |-> "C11:driver-crashed"]) /\ skip' = TRUE
                           /\ UNCHANGED <<cur, s, pendReq, mids, known, nexec, rstate, maxrtx, lastChange, errmode>>
       \* direction A: the behaviour was generated by TLC from Gen_Observe; after each command it says which (client, resource) pairs are registered;
       \* the driver logs the subscriber lists libcoap holds next to it
       [] e.e = "Expect" /\ ~skip ->
            LET R == {e.reg[i] : i \in 1..Len(e.reg)}
                I == {e.impl[i] : i \in 1..Len(e.impl)}
                bad == R # I \/ Len(e.impl) # Cardinality(I) IN
            /\ rej' = IF bad THEN Append(rej, [id |-> cur, line |-> l, why |-> IF R # I THEN "C11:registered-observers-differ-from-the-behaviour-the-specification-generated"
                                                                                 ELSE "C11:observer-entry-duplicated"]) ELSE rej
            /\ skip' = bad
            /\ UNCHANGED <<cur, s, pendReq, mids, known, nexec, rstate, maxrtx, lastChange, errmode>>
       [] OTHER -> UNCHANGED <<rej, cur, skip, s, pendReq, mids, known, nexec, rstate, maxrtx, lastChange, errmode>>
  /\ l' = l + 1
Finish == /\ l = Len(TraceLog) + 1
          /\ JsonSerialize(OutFile, [rejected |-> rej, executions |-> nexec, discarded |-> 0, known |-> known, lines |-> Len(TraceLog)])
          /\ l' = l + 1 /\ UNCHANGED <<rej, cur, skip, s, pendReq, mids, known, nexec, rstate, maxrtx, lastChange, errmode>>
Next == Consume \/ Finish
Spec == Init /\ [][Next]_vars
=============================================================================
