------------------------------ MODULE Hostile ------------------------------
(***************************************************************************)
(* C02: what an endpoint may do with a datagram, as a function of what the *)
(* datagram is.  Well-formedness is CoapWire!DecUDP (the decoder of the     *)
(* codec family, RFC 7252 section 3): "bad" = malformed, "ok" = a message,   *)
(* "either" / "undecidable" = the RFCs leave it open or the trace            *)
(* abbreviates it.                                                          *)
(***************************************************************************)
EXTENDS CoapWire
Verdict(w) == DecUDP(w).ok
\* a reply the endpoint may emit in reaction to a malformed datagram: a Reset, or an error response
\* (a REQUEST the endpoint emits is no reply at all: the retransmission of a client's own outstanding request may fall into the window)
IsOwnRequest(code) == code >= 1 /\ code <= 31
ReplyAllowedForMalformed(ty, code) == ty = 3 \/ code >= 128 \/ IsOwnRequest(code)
\* RFC 7252 section 3: messages with unknown version numbers MUST be silently ignored; so must runts
SilentlyIgnored(w) == Len(w) < 4 \/ (w[1] < 256 /\ w[1] \div 64 # 1)
\* an application handler may run only for something that is a message
HandlerAllowed(v) == v # "bad"
=============================================================================
