----------------------------- MODULE Trace_Block -----------------------------
(***************************************************************************)
(* Trace specification for C09: executions of a real libcoap client and a   *)
(* real libcoap server doing block-wise transfers on the simulator           *)
(* (harness/drv_block.c), with a scripted verdict per datagram.              *)
(*   application layer: what the two handlers obtain (Block!IsWholeBody /    *)
(*     IsBlockOf / Tiles / Covers), tokens seen, release callbacks, how the   *)
(*     transfer ends;                                                        *)
(*   wire layer: every datagram fits the session maximum, every block        *)
(*     carries exactly the slice its Block option names, M iff more follows. *)
(***************************************************************************)
EXTENDS Block, TLC, Json, IOUtils
TraceLog == ndJsonDeserialize(IOEnv.TRACE)
OutFile  == IOEnv.OUT
KF(id) == id \in DOMAIN IOEnv
VARIABLES l, rej, cur, skip, s, known, nexec, ndeliv, ndisc
vars == <<l, rej, cur, skip, s, known, nexec, ndeliv, ndisc>>

EmptyFn == [x \in {} |-> 0]
Put(f, k, v) == [x \in (DOMAIN f) \cup {k} |-> IF x = k THEN v ELSE f[x]]
Get(f, k, d) == IF k \in DOMAIN f THEN f[k] ELSE d
SeqToSet(q) == {q[i] : i \in 1..Len(q)}
RECURSIVE SumCopies(_)
SumCopies(S) == IF S = {} THEN 0 ELSE LET w == CHOOSE w \in S : TRUE IN w.copies + SumCopies(S \ {w})

InitS(e) == [single |-> e.single, con |-> e.con, xf |-> EmptyFn, failed |-> {}, faults |-> FALSE, lossy |-> FALSE,
             cm |-> IF e.cmtu = 0 THEN 1152 ELSE e.cmtu, sm |-> IF e.smtu = 0 THEN 1152 ELSE e.smtu,
             mism |-> FALSE,      \* a datagram was larger than what its receiver is configured to accept: completion is not promised
             arr |-> {},          \* client datagrams that carried a block of a request body: [i, x, num, szx, copies]
             sent1 |-> {},        \* the same, as the sender saw it: [x, num, szx, mid, gen]
             sdel |-> EmptyFn,    \* x -> sequence of [off, n] the server handler obtained
             cdel |-> EmptyFn,    \* x -> sequence of [off, n] the client handler obtained (success responses)
             nsrv |-> EmptyFn,    \* x -> number of server handler invocations
             succ |-> EmptyFn, concl |-> {}, bw1 |-> {}, bw2 |-> {},
             bodies |-> EmptyFn,  \* serial -> [x, bid, len]
             lastCon |-> -1, lastAcked |-> TRUE,   \* message id of the client's latest Confirmable request and whether an ACK for it got through
             replayed |-> {},     \* transfers for which KF_C09_EVERY_BLOCK_ARRIVED_AGAIN fired (how they end is part of that finding)
             gen |-> 0,           \* number of times the client application was told (COAP_EVENT_PARTIAL_BLOCK) that a transfer starts over
             rel |-> << >>]
XOfTok(st, tok) == {x \in DOMAIN st.xf : st.xf[x].tok = tok}
XOfB1(st, bid)  == {x \in DOMAIN st.xf : st.xf[x].l1 >= 0 /\ st.xf[x].b1 = bid}
XOfB2(st, bid)  == {x \in DOMAIN st.xf : st.xf[x].l2 >= 0 /\ st.xf[x].b2 = bid}
Copies(v) == IF v = "d" THEN 0 ELSE IF v \in {"2", "b"} THEN 2 ELSE 1
LitOk(e) == e.lit = <<-1>> \/ e.bid < 0 \/ \A k \in 1..Len(e.lit) : e.lit[k] = Pat(e.bid, e.off + k - 1)
SuccessCode(t) == IF t.l1 < 0 THEN 69 ELSE 68
\* every block of x's request body reached the server at least k times
ArrivedTimes(st, x, k) ==
  LET mine == {w \in st.arr : w.x = x}
      keys == {<<w.num, w.szx>> : w \in mine}
  IN keys # {} /\ \A key \in keys : SumCopies({w \in mine : <<w.num, w.szx>> = key}) >= k

R(st, why) == [st |-> st, why |-> why, kf |-> "", disc |-> FALSE]
K(st, id)  == [st |-> st, why |-> "", kf |-> id, disc |-> FALSE]

OnWire(st, e) ==
  LET st0 == IF e.node = "c" /\ e.ty = 0 /\ e.code >= 1 /\ e.code <= 31 THEN [st EXCEPT !.lastCon = e.mid, !.lastAcked = FALSE]
             ELSE IF e.node = "s" /\ e.ty = 2 /\ e.mid = st.lastCon /\ e.v # "d" THEN [st EXCEPT !.lastAcked = TRUE]
             ELSE st
      st1 == [st0 EXCEPT !.faults = @ \/ e.v \in {"d", "2", "b", "l"}, !.lossy = @ \/ e.v \notin {"p", "2", "b"},
                        !.mism = @ \/ (e.node = "s" /\ e.len > st.cm) \/ (e.node = "c" /\ e.len > st.sm)]
      isReq == e.code >= 1 /\ e.code <= 31
      isOk  == e.code >= 64 /\ e.code <= 95
  IN
  IF e.len > e.mtu THEN R(st1, "C09:block-message-larger-than-the-session-maximum")
  ELSE IF isReq /\ e.pn > 0
  THEN IF e.pb < 0 \/ XOfB1(st1, e.pb) = {} THEN R(st1, "C09:request-payload-is-not-a-slice-of-the-senders-body")
       ELSE LET x == CHOOSE x \in XOfB1(st1, e.pb) : TRUE
                L == st1.xf[x].l1
                hasB == e.b1[1] >= 0
                B == IF hasB THEN BlockSize(e.b1[3]) ELSE L
                num == IF hasB THEN e.b1[1] ELSE 0
                m == IF hasB THEN e.b1[2] = 1 ELSE FALSE
                st2 == [st1 EXCEPT !.arr = @ \cup {[i |-> e.i, x |-> x, num |-> num, szx |-> IF hasB THEN e.b1[3] ELSE 7, copies |-> Copies(e.v)]},
                                   !.sent1 = @ \cup {[x |-> x, num |-> num, szx |-> IF hasB THEN e.b1[3] ELSE 7, mid |-> e.mid, gen |-> st.gen]},
                                   !.bw1 = IF m \/ num > 0 THEN @ \cup {x} ELSE @]
                \* the sender's side of "once": while nothing has been lost or delayed (duplication only), a block of the request body goes out under
                \* ONE message id - a duplicated 2.31 (Continue) is not a reason to send the next block again
                again == e.node = "c" /\ ~st1.lossy /\ ~st1.mism
                         /\ \E o \in st1.sent1 : o.x = x /\ o.num = num /\ o.szx = (IF hasB THEN e.b1[3] ELSE 7) /\ o.gen = st.gen /\ o.mid # e.mid
            IN IF e.pn # SliceLen(L, B, num) \/ m # More(L, B, num) THEN R(st2, "C09:block1-does-not-carry-the-slice-its-option-names")
               ELSE IF again THEN R(st2, "C09:request-block-sent-again-under-a-new-message-id-although-nothing-was-lost")
               ELSE IF e.s1 >= 0 /\ e.s1 # L THEN R(st2, "C09:size1-differs-from-the-body-length")
               ELSE R(st2, "")
  ELSE IF isOk /\ e.pn > 0
  THEN IF e.pb < 0 \/ XOfB2(st1, e.pb) = {} THEN R(st1, "C09:response-payload-is-not-a-slice-of-the-senders-body")
       ELSE LET x == CHOOSE x \in XOfB2(st1, e.pb) : TRUE
                L == st1.xf[x].l2
                hasB == e.b2[1] >= 0
                B == IF hasB THEN BlockSize(e.b2[3]) ELSE L
                num == IF hasB THEN e.b2[1] ELSE 0
                m == IF hasB THEN e.b2[2] = 1 ELSE FALSE
                st2 == [st1 EXCEPT !.bw2 = IF m \/ num > 0 THEN @ \cup {x} ELSE @]
            IN IF e.pn # SliceLen(L, B, num) \/ m # More(L, B, num) THEN R(st2, "C09:block2-does-not-carry-the-slice-its-option-names")
               ELSE IF e.s2 >= 0 /\ e.s2 # L THEN R(st2, "C09:size2-differs-from-the-body-length")
               ELSE R(st2, "")
  ELSE R(st1, "")

OnSrvReq(st, e) ==
  IF e.x \notin DOMAIN st.xf THEN R(st, "C09:server-handler-ran-for-a-request-nobody-made")
  ELSE IF e.b2 # << >> /\ e.b2[1] > 0 /\ e.n = 0
  THEN R([st EXCEPT !.nsrv = Put(@, e.x, Get(@, e.x, 0) + 1)], "")     \* a request for a LATER block of the response (it never carries the request body, RFC 7959 3.3)
                                                                        \* reaching the handler because the server's cached response has expired: not a body delivery
  ELSE
  LET t == st.xf[e.x]
      prev == Get(st.sdel, e.x, << >>)
      d == [off |-> e.off, n |-> e.n, total |-> e.total, bid |-> e.bid]
      st1 == [st EXCEPT !.nsrv = Put(@, e.x, Get(@, e.x, 0) + 1),
                        !.sdel = IF t.l1 >= 0 THEN Put(@, e.x, Append(prev, [off |-> e.off, n |-> e.n])) ELSE @]
  IN
  IF ~LitOk(e) THEN R(st1, "C09:server-got-bytes-that-are-not-the-senders")
  ELSE IF t.l1 < 0 THEN (IF e.n # 0 THEN R(st1, "C09:server-got-a-body-nobody-sent") ELSE R(st1, ""))
  ELSE IF st.single
  THEN IF ~IsWholeBody(d, t.b1, t.l1) THEN R(st1, "C09:server-got-something-other-than-the-senders-body")
       ELSE IF e.b1 # << >> /\ (e.b1[1] > 0 \/ e.b1[2] = 1) THEN R(st1, "C09:single-body-delivery-still-announces-more-blocks")
       ELSE IF Len(prev) >= 1 /\ e.x \in st.bw1
            THEN IF KF("KF_C09_EVERY_BLOCK_ARRIVED_AGAIN") /\ ArrivedTimes(st, e.x, Len(prev) + 1)
                 THEN K([st1 EXCEPT !.replayed = @ \cup {e.x}], "KF_C09_EVERY_BLOCK_ARRIVED_AGAIN")
                 ELSE R(st1, "C09:request-body-delivered-more-than-once")
            ELSE R(st1, "")
  ELSE \* per-block mode
       LET B == IF e.b1 # << >> THEN BlockSize(e.b1[3]) ELSE IF t.l1 = 0 THEN 16 ELSE t.l1
           repeat == \E k \in 1..Len(prev) : prev[k].off = e.off
       IN IF e.b1 = << >> /\ ~(e.off = 0 /\ e.n = t.l1) THEN R(st1, "C09:server-got-something-other-than-the-senders-body")
          ELSE IF e.b1 # << >> /\ ~IsBlockOf([d EXCEPT !.total = IF e.total = 0 THEN t.l1 ELSE e.total], t.b1, t.l1, B)
               THEN R(st1, "C09:server-got-a-block-that-is-no-aligned-slice-of-the-body")
          ELSE IF repeat /\ ~st.faults /\ ~st.mism THEN R(st1, "C09:block-delivered-twice-without-any-loss-or-duplication")
          ELSE R(st1, "")

OnResp(st, e) ==
  LET xs == XOfTok(st, e.tok) IN
  IF xs = {}
  THEN \* KF_C09_STATE_EXPIRED_WHILE_ITS_NEXT_BLOCK_WAITED: the client's state of a Block1 transfer was dropped (its body released) although the application
       \* has been told nothing yet, and the answer to a follow-up block that libcoap sent all the same is handed over under libcoap's token
       LET X == {x \in DOMAIN st.xf : st.xf[x].l1 >= 0 /\ [side |-> "c", serial |-> x] \in SeqToSet(st.rel) /\ x \notin (st.concl \cup st.failed)} IN
       IF KF("KF_C09_STATE_EXPIRED_WHILE_ITS_NEXT_BLOCK_WAITED") /\ e.stok = e.tok /\ X # {} /\ st.lossy
       THEN K([st EXCEPT !.replayed = @ \cup X, !.failed = @ \cup X], "KF_C09_STATE_EXPIRED_WHILE_ITS_NEXT_BLOCK_WAITED")
       ELSE
       IF KF("KF_C09_LEFTOVER_RESPONSE_KEEPS_STATE_TOKEN") /\ (e.stok = <<-1>> \/ DOMAIN st.xf \subseteq (st.concl \cup st.failed))
       THEN K(st, "KF_C09_LEFTOVER_RESPONSE_KEEPS_STATE_TOKEN")     \* unsolicited, or answer to a follow-up request of a transfer that is over
       ELSE R(st, "C09:response-handler-saw-a-token-the-application-never-used")
  ELSE IF e.stok # <<-1>> /\ e.stok # e.tok THEN R(st, "C09:response-handler-saw-a-sent-pdu-with-a-substituted-token")
  ELSE
  LET x == CHOOSE x \in xs : TRUE
      t == st.xf[x]
      d == [off |-> e.off, n |-> e.n, total |-> e.total, bid |-> e.bid]
      prev == Get(st.cdel, x, << >>)
  IN
  IF e.code >= 128 THEN R([st EXCEPT !.concl = @ \cup {x}], "")
  ELSE IF e.code # SuccessCode(t) THEN R(st, "")                    \* 2.31 and the like: not a conclusion
  ELSE IF ~LitOk(e) THEN R(st, "C09:client-got-bytes-that-are-not-the-senders")
  ELSE
  LET nsucc == Get(st.succ, x, 0) + 1
      last == st.single \/ t.l2 < 0 \/ e.b2 = << >> \/ e.b2[2] = 0
      st1 == [st EXCEPT !.succ = Put(@, x, nsucc), !.cdel = Put(@, x, Append(prev, [off |-> e.off, n |-> e.n, gen |-> st.gen])),
                        !.concl = IF last THEN @ \cup {x} ELSE @]
      srvGot == Get(st.sdel, x, << >>)
  IN
  IF t.l1 >= 0 /\ last /\ ~(IF st.single THEN Len(srvGot) >= 1 ELSE Covers(srvGot, t.l1))
  THEN R(st1, "C09:success-reported-although-the-server-never-got-the-whole-body")
  ELSE IF t.l2 < 0 THEN (IF e.n # 0 THEN R(st1, "C09:client-got-a-body-nobody-sent") ELSE R(st1, ""))
  ELSE IF st.single
  THEN IF ~IsWholeBody(d, t.b2, t.l2) THEN R(st1, "C09:client-got-something-other-than-the-senders-body")
       ELSE IF e.b2 # << >> /\ (e.b2[1] > 0 \/ e.b2[2] = 1) THEN R(st1, "C09:single-body-delivery-still-announces-more-blocks")
       ELSE IF nsucc > 1 /\ x \in st.bw2 THEN R(st1, "C09:response-body-delivered-more-than-once")
       ELSE R(st1, "")
  ELSE LET B == IF e.b2 # << >> THEN BlockSize(e.b2[3]) ELSE IF t.l2 = 0 THEN 16 ELSE t.l2
           repeat == \E k \in 1..Len(prev) : prev[k].off = e.off /\ prev[k].gen = st.gen     \* not across an announced restart (the body changed)
       IN IF e.b2 = << >> /\ ~(e.off = 0 /\ e.n = t.l2) THEN R(st1, "C09:client-got-something-other-than-the-senders-body")
          ELSE IF e.b2 # << >> /\ ~IsBlockOf([d EXCEPT !.total = IF e.total = 0 THEN t.l2 ELSE e.total], t.b2, t.l2, B)
               THEN R(st1, "C09:client-got-a-block-that-is-no-aligned-slice-of-the-body")
          ELSE IF repeat /\ ~st.mism /\ x \notin st.concl
               THEN R(st1, "C09:response-block-delivered-twice")      \* the client keeps the set of blocks it has (rec_blocks): a duplicate is not news
          ELSE R(st1, "")

OnNack(st, e) ==
  LET xs == XOfTok(st, e.tok) IN
  IF e.tok = <<-1>> THEN R(st, "")                           \* a Reset that matched nothing queued (C06's subject)
  ELSE IF xs = {} THEN R(st, "C09:nack-handler-saw-a-token-the-application-never-used")
  ELSE R([st EXCEPT !.concl = @ \cup xs], "")

OnRelease(st, e) ==
  LET key == [side |-> e.side, serial |-> e.serial] IN
  IF key \in SeqToSet(st.rel) THEN R(st, "C09:release-callback-ran-twice-for-one-body")
  ELSE R([st EXCEPT !.rel = Append(@, key)], "")

OnEnd(st) ==
  LET live == DOMAIN st.xf
      relset == SeqToSet(st.rel)
      unrelC == {x \in live : st.xf[x].l1 >= 0 /\ [side |-> "c", serial |-> x] \notin relset}
      unrelS == {b \in DOMAIN st.bodies : [side |-> "s", serial |-> b] \notin relset}
      ok(x) == LET t == st.xf[x] IN
               /\ Get(st.nsrv, x, 0) >= 1
               /\ IF st.single THEN /\ (t.l1 < 0 \/ Len(Get(st.sdel, x, << >>)) = 1)
                                    /\ Get(st.nsrv, x, 0) = 1
                                    /\ Get(st.succ, x, 0) = 1
                  ELSE /\ (t.l1 < 0 \/ Tiles(Get(st.sdel, x, << >>), t.l1))
                       /\ IF t.l2 < 0 THEN Get(st.succ, x, 0) = 1 ELSE Tiles(Get(st.cdel, x, << >>), t.l2)
  IN
  IF unrelC # {} THEN R(st, "C09:request-body-never-released")
  ELSE IF unrelS # {} THEN R(st, "C09:response-body-never-released")
  ELSE IF st.mism THEN [st |-> st, why |-> "", kf |-> "", disc |-> TRUE]
  ELSE IF ~st.faults /\ \E x \in live \ st.failed : ~ok(x) THEN R(st, "C09:undisturbed-transfer-did-not-complete-exactly-once")
  ELSE IF st.con /\ ~st.lastAcked /\ \E x \in live \ (st.failed \cup st.replayed) : x \notin st.concl
       THEN R(st, "C09:abandoned-confirmable-transfer-never-reported-to-the-requester")    \* an acknowledged request whose separate (NON) answer is lost is not an abandoned exchange
  ELSE R(st, "")

Step(st, e) ==
  CASE e.e = "Submit" -> R([st EXCEPT !.xf = Put(@, e.x, [l1 |-> e.l1, b1 |-> e.b1, l2 |-> e.l2, b2 |-> e.b2, tok |-> e.tok])], "")
    [] e.e = "SubmitFailed" -> R([st EXCEPT !.failed = @ \cup {e.x}], "")
    [] e.e = "Wire" -> OnWire(st, e)
    [] e.e = "SrvReq" -> OnSrvReq(st, e)
    [] e.e = "SrvBody" -> R([st EXCEPT !.bodies = Put(@, e.serial, [x |-> e.x, bid |-> e.bid, len |-> e.len])], "")
    [] e.e = "SrvBodyFailed" -> R([st EXCEPT !.failed = @ \cup (IF e.serial \in DOMAIN st.bodies THEN {st.bodies[e.serial].x} ELSE {})], "")   \* refused explicitly
    [] e.e = "Resp" -> OnResp(st, e)
    [] e.e = "Nack" -> OnNack(st, e)
    [] e.e = "Release" -> OnRelease(st, e)
    [] e.e = "Partial" -> R([st EXCEPT !.gen = @ + 1], "")
    [] e.e = "End" -> OnEnd(st)
    [] e.e = "Hang" -> R(st, "C09:endpoints-never-became-quiet")
    [] e.e = "Crash" -> R(st, "C09:run-aborted-or-sanitizer-report")
    [] OTHER -> R(st, "")

Init == /\ l = 1 /\ rej = << >> /\ cur = -1 /\ skip = TRUE /\ s = [single |-> TRUE] /\ known = {} /\ nexec = 0 /\ ndeliv = 0 /\ ndisc = 0
Consume ==
  /\ l <= Len(TraceLog)
  /\ LET e == TraceLog[l] IN
     IF e.e = "Reset"
     THEN /\ cur' = e.id /\ skip' = FALSE /\ s' = InitS(e) /\ nexec' = nexec + 1 /\ UNCHANGED <<rej, known, ndeliv, ndisc>>
     ELSE IF skip /\ e.e # "Crash" THEN UNCHANGED <<rej, cur, skip, s, known, nexec, ndeliv, ndisc>>
     ELSE LET r == Step(s, e) IN
          /\ s' = r.st
          /\ rej' = IF r.why = "" THEN rej ELSE Append(rej, [id |-> cur, line |-> l, why |-> r.why])
          /\ skip' = (r.why # "")
          /\ known' = IF r.kf = "" THEN known ELSE known \cup {r.kf}
          /\ ndeliv' = ndeliv + (IF e.e \in {"SrvReq", "Resp"} THEN 1 ELSE 0)
          /\ ndisc' = ndisc + (IF r.disc THEN 1 ELSE 0)
          /\ UNCHANGED <<cur, nexec>>
  /\ l' = l + 1
Finish == /\ l = Len(TraceLog) + 1
          /\ JsonSerialize(OutFile, [rejected |-> rej, executions |-> nexec, discarded |-> ndisc, known |-> known, lines |-> Len(TraceLog), deliveries |-> ndeliv])
          /\ l' = l + 1 /\ UNCHANGED <<rej, cur, skip, s, known, nexec, ndeliv, ndisc>>
Next == Consume \/ Finish
Spec == Init /\ [][Next]_vars
=============================================================================
