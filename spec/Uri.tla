--------------------------------- MODULE Uri ---------------------------------
(***************************************************************************)
(* URI text <-> CoAP options, as pure operators over byte sequences        *)
(* (RFC 3986 §3, §5.2.4, §6.2.2; RFC 7252 §6.1-6.5).  Property C16.        *)
(***************************************************************************)
EXTENDS Naturals, Integers, Sequences, FiniteSets, TLC

Ch(c) == CASE c = "/" -> 47 [] c = "%" -> 37 [] c = "." -> 46 [] c = "&" -> 38 [] c = "?" -> 63 [] c = "#" -> 35
           [] c = ":" -> 58 [] c = "[" -> 91 [] c = "]" -> 93

IsHex(b)  == (b >= 48 /\ b <= 57) \/ (b >= 65 /\ b <= 70) \/ (b >= 97 /\ b <= 102)
HexVal(b) == IF b <= 57 THEN b - 48 ELSE IF b <= 70 THEN b - 55 ELSE b - 87
IsDigit(b) == b >= 48 /\ b <= 57

\* positions of byte c in s
Pos(s, c) == {i \in 1..Len(s) : s[i] = c}
\* split s on byte c: sequence of (possibly empty) pieces; "" gives <<"">>
RECURSIVE SplitFrom(_, _, _)
SplitFrom(s, c, from) ==
  LET P == {i \in Pos(s, c) : i >= from} IN
  IF P = {} THEN <<SubSeq(s, from, Len(s))>>
  ELSE LET i == CHOOSE x \in P : \A y \in P : x <= y
       IN <<SubSeq(s, from, i - 1)>> \o SplitFrom(s, c, i + 1)
Split(s, c) == SplitFrom(s, c, 1)

\* percent-decoding, exactly once.  Valid iff every % is followed by two hex digits.
ValidPct(s) == \A i \in 1..Len(s) : s[i] = 37 => (i + 2 <= Len(s) /\ IsHex(s[i + 1]) /\ IsHex(s[i + 2]))
RECURSIVE DecFrom(_, _)
DecFrom(s, i) ==
  IF i > Len(s) THEN << >>
  ELSE IF s[i] = 37 /\ i + 2 <= Len(s) /\ IsHex(s[i + 1]) /\ IsHex(s[i + 2])
       THEN <<HexVal(s[i + 1]) * 16 + HexVal(s[i + 2])>> \o DecFrom(s, i + 3)
  ELSE <<s[i]>> \o DecFrom(s, i + 1)
PctDecode(s) == DecFrom(s, 1)

\* "." and ".." written literally or with %2e / %2E (RFC 3986 6.2.2.2: %2E is an unreserved '.')
IsDot(s)    == PctDecode(s) = <<46>> /\ ValidPct(s)
IsDotDot(s) == PctDecode(s) = <<46, 46>> /\ ValidPct(s)

RECURSIVE Resolve(_, _, _)
\* RFC 3986 5.2.4 on the list of raw segments: "." dropped, ".." removes the previous output segment
Resolve(raw, i, acc) ==
  IF i > Len(raw) THEN acc
  ELSE IF IsDot(raw[i]) THEN Resolve(raw, i + 1, acc)
  ELSE IF IsDotDot(raw[i]) THEN Resolve(raw, i + 1, IF acc = << >> THEN acc ELSE SubSeq(acc, 1, Len(acc) - 1))
  ELSE Resolve(raw, i + 1, Append(acc, PctDecode(raw[i])))

\* the part of a path / query string that counts: up to the first '?' or '#' (path), '#' (query)
UpTo(s, stops) == LET P == {i \in 1..Len(s) : s[i] \in stops} IN
                  IF P = {} THEN s ELSE SubSeq(s, 1, (CHOOSE x \in P : \A y \in P : x <= y) - 1)

\* RFC 7252 6.4 steps 8-9: path (without the leading "/") and query into option values
PathToSegs(s)  == Resolve(Split(UpTo(s, {63, 35}), 47), 1, << >>)
QueryToSegs(s) == LET q == Split(UpTo(s, {35}), 38) IN [i \in 1..Len(q) |-> PctDecode(q[i])]
\* splitting and decoding only (no dot-segment removal): the left inverse that proves injectivity
RawPathSplit(s) == LET q == Split(s, 47) IN [i \in 1..Len(q) |-> PctDecode(q[i])]

\* "a single empty segment counts as no segment"
NormSegs(segs) == IF segs = << << >> >> THEN << >> ELSE segs

\* which inputs have an RFC-defined answer (DESIGN.md 7.1, C16 row)
PathClear(s) ==
  LET raw == Split(UpTo(s, {63, 35}), 47) IN
  /\ s # << >>
  /\ \A i \in 1..Len(raw) : ValidPct(raw[i])
  /\ ~IsDot(raw[Len(raw)]) /\ ~IsDotDot(raw[Len(raw)])       \* a path ENDING in a dot segment: RFC leaves a trailing empty segment
QueryClear(s) == LET q == Split(UpTo(s, {35}), 38) IN s # << >> /\ \A i \in 1..Len(q) : ValidPct(q[i])
NoDotValue(segs) == \A i \in 1..Len(segs) : segs[i] # <<46>> /\ segs[i] # <<46, 46>>

(* ------------------------------------------------------------------------ *)
(* coap / coaps / coap+tcp / coaps+tcp / coap+ws / coaps+ws URIs            *)
(* ------------------------------------------------------------------------ *)
Schemes == << <<99, 111, 97, 112>>, <<99, 111, 97, 112, 115>>,
              <<99, 111, 97, 112, 43, 116, 99, 112>>, <<99, 111, 97, 112, 115, 43, 116, 99, 112>>,
              <<99, 111, 97, 112, 43, 119, 115>>, <<99, 111, 97, 112, 115, 43, 119, 115>> >>
DefaultPort == <<5683, 5684, 5683, 5684, 80, 443>>

RECURSIVE NumFrom(_, _, _)
NumFrom(s, i, acc) == IF i > Len(s) \/ acc > 65535 THEN acc ELSE NumFrom(s, i + 1, acc * 10 + (s[i] - 48))

Bad == [ok |-> FALSE, scheme |-> -1, host |-> << >>, port |-> 0, path |-> << >>, query |-> << >>]
\* s is the text after "scheme://"
SplitAuthority(rest, k) ==
  LET v6 == rest # << >> /\ rest[1] = 91
      close == {i \in 1..Len(rest) : rest[i] = 93}
      hostEnd == IF v6 THEN (IF close = {} THEN 0 ELSE (CHOOSE x \in close : \A y \in close : x <= y))
                 ELSE LET P == {i \in 1..Len(rest) : rest[i] \in {58, 47, 63}} IN
                      IF P = {} THEN Len(rest) ELSE (CHOOSE x \in P : \A y \in P : x <= y) - 1
      host == IF v6 THEN SubSeq(rest, 2, hostEnd - 1) ELSE SubSeq(rest, 1, hostEnd)
      after == SubSeq(rest, hostEnd + 1, Len(rest))
  IN IF (v6 /\ hostEnd = 0) \/ host = << >> THEN Bad
     ELSE LET hasPort == after # << >> /\ after[1] = 58
              D == {i \in 2..Len(after) : ~IsDigit(after[i])}
              pEnd == IF ~hasPort THEN 0 ELSE IF D = {} THEN Len(after) ELSE (CHOOSE x \in D : \A y \in D : x <= y) - 1
              digits == IF hasPort THEN SubSeq(after, 2, pEnd) ELSE << >>
              port == IF digits = << >> THEN DefaultPort[k] ELSE NumFrom(digits, 1, 0)
              tail == SubSeq(after, pEnd + 1, Len(after))
          IN IF port > 65535 THEN Bad
             ELSE IF tail # << >> /\ tail[1] \notin {47, 63} THEN Bad
             ELSE LET pq == IF tail # << >> /\ tail[1] = 47 THEN SubSeq(tail, 2, Len(tail)) ELSE tail
                      Q == {i \in 1..Len(pq) : pq[i] = 63}
                      qi == IF Q = {} THEN Len(pq) + 1 ELSE CHOOSE x \in Q : \A y \in Q : x <= y
                  IN [ok |-> TRUE, scheme |-> k - 1, host |-> host, port |-> port,
                      path |-> SubSeq(pq, 1, qi - 1), query |-> SubSeq(pq, qi + 1, Len(pq))]

SplitUri(s) ==
  LET K == {k \in 1..Len(Schemes) : Len(s) >= Len(Schemes[k]) + 3 /\ SubSeq(s, 1, Len(Schemes[k])) = Schemes[k]
                                    /\ SubSeq(s, Len(Schemes[k]) + 1, Len(Schemes[k]) + 3) = <<58, 47, 47>>}
  IN IF K = {} THEN Bad
     ELSE LET k == CHOOSE x \in K : TRUE IN SplitAuthority(SubSeq(s, Len(Schemes[k]) + 4, Len(s)), k)

\* inputs for which the answer is RFC-clear: lower-case scheme, no fragment, no userinfo '@'
UriClear(s) == /\ 35 \notin {s[i] : i \in 1..Len(s)} /\ 64 \notin {s[i] : i \in 1..Len(s)}
               /\ (s # << >> => s[1] # 47)                          \* relative references ("/path") are a libcoap extension
               /\ ~(\E k \in 1..Len(s) : k + 5 <= Len(s) /\ SubSeq(s, k, k + 5) \in {<<58, 47, 47, 37, 50, 70>>, <<58, 47, 47, 37, 50, 102>>})  \* "://%2F" Unix domain
=============================================================================
