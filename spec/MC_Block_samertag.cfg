SPECIFICATION Spec
CONSTANTS
  NB = 3
  NXfer = 2
  MaxLoss = 1
  MaxDup = 1
  MaxRtx = 1
  FreshRtag = FALSE
  StaleAckIgnored = TRUE
INVARIANTS ExactBodyI
CHECK_DEADLOCK FALSE
