SPECIFICATION Spec
CONSTANTS
  Alpha = {97, 47, 37, 46, 38, 63, 35, 0, 255, 50, 101}
  MaxSegs = 2
  MaxSegLen = 2
INVARIANT LeftInverse
CHECK_DEADLOCK FALSE
