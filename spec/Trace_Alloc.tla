----------------------------- MODULE Trace_Alloc -----------------------------
(* Trace specification for C18: one execution per (scenario, k): the k-th allocation of the scenario fails
   (harness/drv_alloc.c).  A / F are the wrapped allocator's events, Inject the forced failure, Send the result of
   coap_send() with the PDU's object number, Canary the follow-up exchange, End the balance after teardown. *)
EXTENDS AllocFault, TLC, Json, IOUtils
TraceLog == ndJsonDeserialize(IOEnv.TRACE)
OutFile  == IOEnv.OUT
VARIABLES l, rej, cur, skip, s, nexec, ninj, nev
vars == <<l, rej, cur, skip, s, nexec, ninj, nev>>

Why(st, e) ==
  CASE e.e = "A" -> IF Alloc_ok(st, e.id) THEN "" ELSE "C18:allocator-handed-out-a-live-object-number"
    [] e.e = "F" -> IF Free_ok(st, e.id) THEN "" ELSE "C18:object-released-twice"
    [] e.e = "Send" -> IF e.ok = 0 /\ ~SendFailed_ok(st, e.id) THEN "C18:pdu-given-to-coap-send-not-consumed-on-failure" ELSE ""
    [] e.e = "Canary" -> IF e.ok = 1 THEN "" ELSE "C18:next-operation-with-memory-available-did-not-succeed"
    [] e.e = "End" -> IF ~End_ok(st, e) THEN "C18:objects-leaked"
                      ELSE IF ~Released_ok(e) THEN "C18:release-callback-not-run-exactly-once-per-body"
                      ELSE IF st.canary # "ok" THEN "C18:no-canary-exchange-was-run"
                      ELSE ""
    [] e.e = "Hang" -> "C18:endpoints-never-became-quiet"
    [] e.e = "Crash" -> "C18:crash-or-invalid-access"
    [] OTHER -> ""
Eff(st, e) ==
  CASE e.e = "A" -> Alloc_do(st, e.id)
    [] e.e = "F" -> Free_do(st, e.id)
    [] e.e = "Inject" -> [st EXCEPT !.injected = TRUE]
    [] e.e = "Canary" -> [st EXCEPT !.canary = IF e.ok = 1 THEN "ok" ELSE "failed"]
    [] OTHER -> st

Init == /\ l = 1 /\ rej = << >> /\ cur = -1 /\ skip = TRUE /\ s = InitLedger /\ nexec = 0 /\ ninj = 0 /\ nev = 0
Consume ==
  /\ l <= Len(TraceLog)
  /\ LET e == TraceLog[l] IN
     IF e.e = "Reset"
     THEN /\ cur' = e.id /\ skip' = FALSE /\ s' = InitLedger /\ nexec' = nexec + 1 /\ UNCHANGED <<rej, ninj, nev>>
     ELSE IF skip /\ e.e # "Crash" THEN UNCHANGED <<rej, cur, skip, s, nexec, ninj, nev>>
     ELSE LET why == Why(s, e) IN
          /\ s' = Eff(s, e)
          /\ rej' = IF why = "" THEN rej ELSE Append(rej, [id |-> cur, line |-> l, why |-> why])
          /\ skip' = (why # "")
          /\ ninj' = ninj + (IF e.e = "Inject" THEN 1 ELSE 0)
          /\ nev' = nev + (IF e.e \in {"A", "F"} THEN 1 ELSE 0)
          /\ UNCHANGED <<cur, nexec>>
  /\ l' = l + 1
Finish == /\ l = Len(TraceLog) + 1
          /\ JsonSerialize(OutFile, [rejected |-> rej, executions |-> nexec, discarded |-> 0, known |-> {}, lines |-> Len(TraceLog), injections |-> ninj, ledger_events |-> nev])
          /\ l' = l + 1 /\ UNCHANGED <<rej, cur, skip, s, nexec, ninj, nev>>
Next == Consume \/ Finish
Spec == Init /\ [][Next]_vars
=============================================================================
