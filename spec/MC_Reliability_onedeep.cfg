SPECIFICATION Spec
CONSTANTS
  NSess = 1
  NMsg = 2
  MaxRtx = 1
  Nstart = 1
  AckMin = 2
  AckMax = 3
  MaxTime = 10
  MaxDup = 1
  SubmitUntil = 1
  OneDeepMemory = TRUE
  MaxPings = 0
INVARIANTS ConcludeOnceI
CONSTRAINT NotBrokenI
CHECK_DEADLOCK FALSE
