---------------------------- MODULE MC_StreamHttp ----------------------------
(***************************************************************************)
(* The reader of the WebSocket handshake lines as libcoap runs it           *)
(* (coap_ws_rd_http_header): one 160-byte line buffer, reads of at most 14  *)
(* bytes (so that nothing but the beginning of the first frame is taken in   *)
(* behind the empty line), complete lines consumed as soon as their LF is    *)
(* in - fed with EVERY way the handshake bytes can arrive and checked        *)
(* against the functional description Stream!HttpScan:                       *)
(*   - the handshake is complete exactly when HttpScan says so, and the      *)
(*     bytes behind the empty line are handed to the frame reader;           *)
(*   - a line with more than MaxHttpLine bytes in front of its LF ends the   *)
(*     session - whatever the arrival pattern (C05);                         *)
(*   - nothing is ever written beyond the buffer.                            *)
(* Variant "fixed" is the reader as it is now.  "asitwas" lets a read fill   *)
(* the buffer completely (before 6c84629: the terminating NUL then lands one *)
(* past the buffer, BoundedI), "early" refuses as soon as the buffer is      *)
(* within 14 bytes of full (seeded change C05-d: whether a 147..158-byte     *)
(* line is accepted then depends on where reads end, AtRestI).               *)
(***************************************************************************)
EXTENDS Stream
CONSTANTS Streams, MaxChunk, Variant
VARIABLES w, pos, rd
vars == <<w, pos, rd>>
BufSize == 160
ReadMax == 14
Min2(a, b) == IF a < b THEN a ELSE b
InitRd == [kpos |-> 0, buf |-> << >>, up |-> FALSE, failed |-> FALSE, left |-> 0, maxbuf |-> 0]

\* consume every complete line that is in the buffer; an empty line completes the handshake (what follows it goes to the frame reader)
RECURSIVE Lines(_)
Lines(r) ==
  LET S == {j \in 1..Len(r.buf) : r.buf[j] = 10} IN
  IF S = {} THEN r
  ELSE LET j == MinOf(S)
           empty == j = 1 \/ (j = 2 /\ r.buf[1] = 13)
           rest == SubSeq(r.buf, j + 1, Len(r.buf))
       IN IF empty THEN [r EXCEPT !.up = TRUE, !.left = Len(rest), !.buf = << >>]
          ELSE Lines([r EXCEPT !.buf = rest])

\* one call of coap_ws_rd_http_header(): read and consume until nothing more can be read
RECURSIVE Rd(_, _)
Rd(r, fuel) ==
  IF r.up \/ r.failed \/ fuel = 0 THEN r
  ELSE LET n == Len(r.buf)
           rem == CASE Variant = "fixed"   -> IF n > BufSize - 1 - ReadMax THEN BufSize - 1 - n ELSE ReadMax
                    [] Variant = "asitwas" -> IF n > BufSize - 1 - ReadMax THEN BufSize - n ELSE ReadMax
                    [] Variant = "early"   -> ReadMax
           refuse == CASE Variant = "early" -> n > BufSize - 1 - ReadMax
                       [] OTHER -> rem = 0        \* "asitwas": a zero-length read is taken for the peer's shutdown - the same outcome
       IN IF refuse THEN [r EXCEPT !.failed = TRUE]
          ELSE LET take == Min2(rem, pos - r.kpos) IN
               IF take = 0 THEN r
               ELSE LET b == r.buf \o SubSeq(w, r.kpos + 1, r.kpos + take)
                        r1 == [r EXCEPT !.buf = b, !.kpos = r.kpos + take, !.maxbuf = IF Len(b) > @ THEN Len(b) ELSE @]
                    IN Rd(Lines(r1), fuel - 1)

Init == w \in Streams /\ pos = 0 /\ rd = InitRd
Arrive(n) == pos + n <= Len(w) /\ pos' = pos + n /\ UNCHANGED <<w, rd>>
ReadEvent == rd.kpos < pos /\ ~rd.up /\ ~rd.failed /\ rd' = Rd(rd, 400) /\ UNCHANGED <<w, pos>>
AArrive == \E n \in 1..MaxChunk : Arrive(n)
AReadEvent == ReadEvent
Next == AArrive \/ AReadEvent
Spec == Init /\ [][Next]_vars

\* at rest: the socket is drained, or the reader has finished one way or the other
AtRest == rd.kpos = pos \/ rd.up \/ rd.failed
Scan(n) == HttpScan(SubSeq(w, 1, n), 1)
AtRestI == AtRest =>
             LET h == Scan(pos) IN
             /\ rd.up => Scan(rd.kpos).st = "ok" /\ Scan(rd.kpos).end = rd.kpos - rd.left
             /\ rd.failed => Scan(Len(w)).st = "long"                                    \* refused only what is over-long
             /\ (rd.kpos = pos /\ ~rd.up /\ ~rd.failed) => h.st = "incomplete"            \* nothing decidable is left undecided
\* the reader never takes in more than the beginning of the first frame behind the empty line
LeftoverI == rd.left < ReadMax
\* the line buffer has room for the terminating NUL
BoundedI == rd.maxbuf <= BufSize - 1

\* ---- the handshakes explored: one long header line of k bytes (CR included) in front of its LF, between ordinary lines ----
X(n) == [i \in 1..n |-> 120]
Hs(k, crlf) == <<71, 69, 84>> \o (IF crlf THEN <<13, 10>> ELSE <<10>>) \o X(k - 1) \o <<13, 10>> \o <<72, 58, 120>> \o (IF crlf THEN <<13, 10, 13, 10>> ELSE <<10, 10>>) \o <<130, 2, 0>>
LineLengths == {20, 144, 145, 146, 147, 148, 157, 158, 159, 160, 161, 175}
HsSet == {Hs(k, TRUE) : k \in LineLengths} \cup {Hs(20, FALSE), Hs(158, FALSE), Hs(159, FALSE)}
=============================================================================
