SPECIFICATION Spec
CONSTANTS
  NB = 3
  MaxVersion = 4
  MaxDup = 2
  FreshEtag = TRUE
  CacheMayExpire = TRUE
  RestartKeepsLineage = TRUE
  NoEtagFails = TRUE
  MaxChains = 3
  MaxSent = 9
INVARIANTS NoRawBlockI OneLiveChainI
CONSTRAINT Bound
CHECK_DEADLOCK FALSE
