SPECIFICATION Spec
INVARIANTS Tiles FilterSane
CHECK_DEADLOCK FALSE
