-------------------------------- MODULE Stream --------------------------------
(***************************************************************************)
(* CoAP over reliable transports (RFC 8323 §3.2-3.3, §5): the byte stream  *)
(* is a concatenation of length-prefixed messages.  Two descriptions:      *)
(*   Messages(w)    the sequence of messages as a FUNCTION of the bytes    *)
(*   Reader         the incremental three-state reader (first byte, rest   *)
(*                  of header incl. extended token length, body) fed with  *)
(*                  arbitrary chunks                                       *)
(* Property C05 is their equality for every chunking (MC_Stream checks it  *)
(* on the model; Trace_Stream checks the real reader against Messages).    *)
(* Byte strings are atom sequences as in CoapWire.                         *)
(***************************************************************************)
EXTENDS CoapWire, Bitwise

\* header geometry from the first byte
LenBytes(b0) == LET ln == b0 \div 16 IN IF ln < 13 THEN 0 ELSE IF ln = 13 THEN 1 ELSE IF ln = 14 THEN 2 ELSE 4
TokExtBytes(b0) == LET t == b0 % 16 IN IF t = 13 THEN 1 ELSE IF t = 14 THEN 2 ELSE 0
\* number of bytes the reader must have before it knows the message size: Len|TKL, Len ext, Code, token-length ext
PrefixLen(b0) == 2 + LenBytes(b0) + TokExtBytes(b0)

\* index j such that atoms i..j hold exactly n bytes; 0 if the bytes are not there, -1 if a run straddles the boundary
RECURSIVE EndOf(_, _, _)
EndOf(w, i, n) == IF n = 0 THEN i - 1 ELSE IF i > Len(w) THEN 0
                  ELSE IF ALen(w[i]) > n THEN -1 ELSE EndOf(w, i + 1, n - ALen(w[i]))

\* total size in bytes of the message whose first PrefixLen bytes are the literals p
TotalSize(p) ==
  LET b0 == p[1]
      ln == b0 \div 16
      lb == LenBytes(b0)
      L == IF ln < 13 THEN ln ELSE IF ln = 13 THEN p[2] + 13 ELSE IF ln = 14 THEN p[2] * 256 + p[3] + 269
           ELSE IF p[2] >= 64 THEN 1073741824 ELSE ((p[2] * 256 + p[3]) * 256 + p[4]) * 256 + p[5] + 65805
      t == b0 % 16
      te == 2 + lb      \* index of the last fixed byte (code); token ext follows
      tl == IF t < 13 THEN t ELSE IF t = 13 THEN p[te + 1] + 13 ELSE IF t = 14 THEN p[te + 1] * 256 + p[te + 2] + 269 ELSE 0
  IN PrefixLen(b0) + tl + L

\* items: <<"msg", m>> (well formed), <<"bad">> (delimited but malformed: dropped), <<"close">> (declared size > max), <<"undecidable">>
RECURSIVE MessagesFrom(_, _, _, _)
MessagesFrom(w, i, max, acc) ==
  IF i > Len(w) THEN acc
  ELSE IF IsRun(w[i]) THEN Append(acc, <<"undecidable">>)
  ELSE LET pl == PrefixLen(w[i]) IN
       IF i + pl - 1 > Len(w) THEN acc                                         \* incomplete header: nothing more to deliver
       ELSE IF ~Lits(w, i, pl) THEN Append(acc, <<"undecidable">>)
       ELSE LET p == SubSeq(w, i, i + pl - 1)
                total == TotalSize(p)
            IN IF total - (2 + LenBytes(w[i])) > max THEN Append(acc, <<"close">>)   \* size without the fixed header, as the reader counts it
               ELSE LET j == EndOf(w, i, total) IN
                    IF j = 0 THEN acc                                            \* incomplete body
                    ELSE IF j = -1 THEN Append(acc, <<"undecidable">>)
                    ELSE LET d == DecTCP(SubSeq(w, i, j)) IN
                         MessagesFrom(w, j + 1, max,
                                      Append(acc, IF d.ok = "ok" THEN <<"msg", d.m>> ELSE IF d.ok = "bad" THEN <<"bad">> ELSE <<d.ok>>))
Messages(w, max) == MessagesFrom(w, 1, max, << >>)

(* ---- what the protocol layer of a server makes of the messages ---------- *)
\* observations: <<"req", code, tok, pl>>, <<"pong", tok>>, <<"closed">>
RECURSIVE ObsFrom(_, _, _)
ObsFrom(items, i, acc) ==
  IF i > Len(items) THEN acc
  ELSE LET it == items[i] IN
       IF it[1] = "close" THEN Append(acc, <<"closed">>)
       ELSE IF it[1] \in {"bad"} THEN ObsFrom(items, i + 1, acc)
       ELSE IF it[1] # "msg" THEN Append(acc, <<it[1]>>)
       ELSE LET m == it[2] IN
            IF m.code >= 1 /\ m.code <= 31 THEN ObsFrom(items, i + 1, Append(acc, <<"req", m.code, m.tok, m.pl>>))
            ELSE IF m.code = 226 THEN ObsFrom(items, i + 1, Append(acc, <<"pong", m.tok>>))    \* 7.02 Ping is answered by 7.03 Pong
            ELSE IF m.code \in {228, 229} THEN Append(acc, <<"closed">>)                        \* 7.04 Release / 7.05 Abort end the session
            ELSE ObsFrom(items, i + 1, acc)                                                     \* CSM, Pong, Empty, responses: nothing to observe
Obs(w, max) == ObsFrom(Messages(w, max), 1, << >>)

(* ---- CoAP over WebSockets (RFC 8323 section 8, framing of RFC 6455 section 5.2) ------------------------------- *)
(* After the HTTP upgrade request (its length hl is given) the stream is a sequence of frames:                     *)
(*   b0 = FIN|opcode, b1 = MASK|len7, [2 or 8 bytes extended length], [4 bytes masking key], payload               *)
(* A client must mask; the only opcodes a CoAP endpoint takes are binary (2) and close (8); each binary frame      *)
(* carries exactly one CoAP message (Len nibble 0); a frame longer than the receive buffer ends the session.       *)
WsFrameMax == 1472
Unmask(w, at, n, key) == [k \in 1..n |-> w[at + k - 1] ^^ key[((k - 1) % 4) + 1]]
RECURSIVE WsFromR(_, _, _, _)
\* srv: the reader is the server side (frames come from a client and must be masked); otherwise the reader is a client and the
\* frames come from a server, which must not mask (RFC 6455 section 5.1) - what libcoap makes of a masked frame then is not judged
WsFromR(w, i, acc, srv) ==
  IF i + 1 > Len(w) THEN acc                                                   \* fewer than two header bytes
  ELSE IF ~Lits(w, i, 2) THEN Append(acc, <<"undecidable">>)
  ELSE LET b0 == w[i]
           b1 == w[i + 1]
           op == b0 % 16
           masked == b1 >= 128
           l7 == b1 % 128
           ext == IF l7 = 126 THEN 2 ELSE IF l7 = 127 THEN 8 ELSE 0
           hl == 2 + ext + (IF srv THEN 4 ELSE 0)
       IN IF srv /\ ~masked THEN Append(acc, <<"close">>)                      \* 1002
          ELSE IF ~srv /\ masked THEN Append(acc, <<"undecidable">>)
          ELSE IF i + hl - 1 > Len(w) THEN acc                                   \* header incomplete
          ELSE IF ~Lits(w, i, hl) THEN Append(acc, <<"undecidable">>)
          ELSE IF op # 2 THEN Append(acc, <<"close">>)                           \* close frame, or an opcode a CoAP endpoint does not take (1003)
          ELSE LET big == l7 = 127 /\ \E k \in 2..7 : w[i + k] # 0            \* more than 16 bits of length
                   n == IF l7 < 126 THEN l7 ELSE IF l7 = 126 THEN w[i + 2] * 256 + w[i + 3] ELSE w[i + 8] * 256 + w[i + 9]
               IN IF big \/ n > WsFrameMax THEN Append(acc, <<"close">>)        \* 1009
                  ELSE IF i + hl + n - 1 > Len(w) THEN acc                        \* payload incomplete
                  ELSE IF ~Lits(w, i + hl, n) THEN Append(acc, <<"undecidable">>)
                  ELSE LET d == IF srv THEN DecWS(Unmask(w, i + hl, n, SubSeq(w, i + hl - 4, i + hl - 1)))
                                       ELSE DecWS(SubSeq(w, i + hl, i + hl + n - 1))
                       IN WsFromR(w, i + hl + n,
                                  Append(acc, IF d.ok = "ok" THEN <<"msg", d.m>> ELSE IF d.ok = "bad" THEN <<"bad">> ELSE <<d.ok>>), srv)
WsFrom(w, i, acc) == WsFromR(w, i, acc, TRUE)

\* What a SERVER writes after its handshake response (the write side, C01): complete, unmasked binary frames with the minimal length form
\* (RFC 6455 section 5.2: 7 bits up to 125, 16 bits up to 65535), each carrying exactly one well-formed CoAP message; a close frame may end it.
\* Returns the number of messages, or -1 where the bytes stop being that.
RECURSIVE WsWritten(_, _, _)
WsWritten(w, i, n) ==
  IF i > Len(w) THEN n
  ELSE IF i + 1 > Len(w) THEN -1
  ELSE LET b0 == w[i]
           b1 == w[i + 1]
           l7 == b1 % 128
           hl == 2 + (IF l7 = 126 THEN 2 ELSE IF l7 = 127 THEN 8 ELSE 0)
       IN IF b0 % 16 = 8 THEN n
          ELSE IF b0 # 130 \/ b1 >= 128 THEN -1
          ELSE IF i + hl - 1 > Len(w) THEN -1
          ELSE LET len == IF l7 < 126 THEN l7 ELSE IF l7 = 126 THEN w[i + 2] * 256 + w[i + 3] ELSE w[i + 8] * 256 + w[i + 9]
               IN IF (l7 = 126 /\ len < 126) \/ (l7 = 127 /\ len < 65536) THEN -1
                  ELSE IF i + hl + len - 1 > Len(w) THEN -1
                  ELSE IF DecWS(SubSeq(w, i + hl, i + hl + len - 1)).ok # "ok" THEN -1
                  ELSE WsWritten(w, i + hl + len, n + 1)

WsMessagesR(w, hl, srv) == IF Len(w) < hl THEN << >> ELSE WsFromR(w, hl + 1, << >>, srv)
WsMessages(w, hl) == WsMessagesR(w, hl, TRUE)
ObsWS(w, hl) == ObsFrom(WsMessages(w, hl), 1, << >>)
ObsWSR(w, hl, srv) == ObsFrom(WsMessagesR(w, hl, srv), 1, << >>)

(* ---- the HTTP upgrade exchange in front of the frames (RFC 8323 section 8.1, RFC 6455 section 4) --------------- *)
(* Header lines end with LF (a CR in front of it is dropped); an empty line ends the handshake.  The reader keeps    *)
(* one line at a time in a fixed buffer: a line with more than MaxHttpLine bytes in front of its LF ends the         *)
(* session instead of being buffered (C05) - however the bytes arrive.  Whether the lines make a valid upgrade       *)
(* request / response is not modelled here: the generator of C05 produces valid ones, C02 judges only robustness.    *)
MaxHttpLine == 158
MinOf(S) == CHOOSE x \in S : \A y \in S : x <= y
NextLF(w, from) == LET S == {j \in from..Len(w) : w[j] = 10} IN IF S = {} THEN 0 ELSE MinOf(S)
\* returns [st |-> "ok", end |-> index of the LF of the empty line] | [st |-> "long"] | [st |-> "incomplete"] | [st |-> "undecidable"]
RECURSIVE HttpScan(_, _)
HttpScan(w, from) ==
  LET j == NextLF(w, from) IN
  IF \E k \in from..(IF j = 0 THEN Len(w) ELSE j) : w[k] >= 256 \/ w[k] = 0 THEN [st |-> "undecidable", end |-> 0]
  ELSE IF j = 0 THEN (IF Len(w) - from + 1 > MaxHttpLine THEN [st |-> "long", end |-> 0] ELSE [st |-> "incomplete", end |-> 0])
  ELSE IF j - from > MaxHttpLine THEN [st |-> "long", end |-> 0]
  ELSE IF j = from \/ (j = from + 1 /\ w[from] = 13) THEN [st |-> "ok", end |-> j]
  ELSE HttpScan(w, j + 1)
\* what is observed on a WebSocket session whose stream starts with the handshake
ObsWSH(w, srv) == LET h == HttpScan(w, 1) IN
                  IF h.st = "ok" THEN ObsWSR(w, h.end, srv)
                  ELSE IF h.st = "long" THEN <<<<"closed">>>>
                  ELSE IF h.st = "incomplete" THEN << >>
                  ELSE <<<<"undecidable">>>>
=============================================================================
