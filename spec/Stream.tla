-------------------------------- MODULE Stream --------------------------------
(***************************************************************************)
(* CoAP over reliable transports (RFC 8323 §3.2-3.3, §5): the byte stream  *)
(* is a concatenation of length-prefixed messages.  Two descriptions:      *)
(*   Messages(w)    the sequence of messages as a FUNCTION of the bytes    *)
(*   Reader         the incremental three-state reader (first byte, rest   *)
(*                  of header incl. extended token length, body) fed with  *)
(*                  arbitrary chunks                                       *)
(* Property C05 is their equality for every chunking (MC_Stream checks it  *)
(* on the model; Trace_Stream checks the real reader against Messages).    *)
(* Byte strings are atom sequences as in CoapWire.                         *)
(***************************************************************************)
EXTENDS CoapWire, Bitwise

\* header geometry from the first byte
LenBytes(b0) == LET ln == b0 \div 16 IN IF ln < 13 THEN 0 ELSE IF ln = 13 THEN 1 ELSE IF ln = 14 THEN 2 ELSE 4
TokExtBytes(b0) == LET t == b0 % 16 IN IF t = 13 THEN 1 ELSE IF t = 14 THEN 2 ELSE 0
\* number of bytes the reader must have before it knows the message size: Len|TKL, Len ext, Code, token-length ext
PrefixLen(b0) == 2 + LenBytes(b0) + TokExtBytes(b0)

\* index j such that atoms i..j hold exactly n bytes; 0 if the bytes are not there, -1 if a run straddles the boundary
RECURSIVE EndOf(_, _, _)
EndOf(w, i, n) == IF n = 0 THEN i - 1 ELSE IF i > Len(w) THEN 0
                  ELSE IF ALen(w[i]) > n THEN -1 ELSE EndOf(w, i + 1, n - ALen(w[i]))

\* total size in bytes of the message whose first PrefixLen bytes are the literals p
TotalSize(p) ==
  LET b0 == p[1]
      ln == b0 \div 16
      lb == LenBytes(b0)
      L == IF ln < 13 THEN ln ELSE IF ln = 13 THEN p[2] + 13 ELSE IF ln = 14 THEN p[2] * 256 + p[3] + 269
           ELSE IF p[2] >= 64 THEN 1073741824 ELSE ((p[2] * 256 + p[3]) * 256 + p[4]) * 256 + p[5] + 65805
      t == b0 % 16
      te == 2 + lb      \* index of the last fixed byte (code); token ext follows
      tl == IF t < 13 THEN t ELSE IF t = 13 THEN p[te + 1] + 13 ELSE IF t = 14 THEN p[te + 1] * 256 + p[te + 2] + 269 ELSE 0
  IN PrefixLen(b0) + tl + L

\* items: <<"msg", m>> (well formed), <<"bad">> (delimited but malformed: dropped), <<"close">> (declared size > max), <<"undecidable">>
RECURSIVE MessagesFrom(_, _, _, _)
MessagesFrom(w, i, max, acc) ==
  IF i > Len(w) THEN acc
  ELSE IF IsRun(w[i]) THEN Append(acc, <<"undecidable">>)
  ELSE LET pl == PrefixLen(w[i]) IN
       IF i + pl - 1 > Len(w) THEN acc                                         \* incomplete header: nothing more to deliver
       ELSE IF ~Lits(w, i, pl) THEN Append(acc, <<"undecidable">>)
       ELSE LET p == SubSeq(w, i, i + pl - 1)
                total == TotalSize(p)
            IN IF total - (2 + LenBytes(w[i])) > max THEN Append(acc, <<"close">>)   \* size without the fixed header, as the reader counts it
               ELSE LET j == EndOf(w, i, total) IN
                    IF j = 0 THEN acc                                            \* incomplete body
                    ELSE IF j = -1 THEN Append(acc, <<"undecidable">>)
                    ELSE LET d == DecTCP(SubSeq(w, i, j)) IN
                         MessagesFrom(w, j + 1, max,
                                      Append(acc, IF d.ok = "ok" THEN <<"msg", d.m>> ELSE IF d.ok = "bad" THEN <<"bad">> ELSE <<d.ok>>))
Messages(w, max) == MessagesFrom(w, 1, max, << >>)

(* ---- what the protocol layer of a server makes of the messages ---------- *)
\* observations: <<"req", code, tok, pl>>, <<"pong", tok>>, <<"closed">>
RECURSIVE ObsFrom(_, _, _)
ObsFrom(items, i, acc) ==
  IF i > Len(items) THEN acc
  ELSE LET it == items[i] IN
       IF it[1] = "close" THEN Append(acc, <<"closed">>)
       ELSE IF it[1] \in {"bad"} THEN ObsFrom(items, i + 1, acc)
       ELSE IF it[1] # "msg" THEN Append(acc, <<it[1]>>)
       ELSE LET m == it[2] IN
            IF m.code >= 1 /\ m.code <= 31 THEN ObsFrom(items, i + 1, Append(acc, <<"req", m.code, m.tok, m.pl>>))
            ELSE IF m.code = 226 THEN ObsFrom(items, i + 1, Append(acc, <<"pong", m.tok>>))    \* 7.02 Ping is answered by 7.03 Pong
            ELSE IF m.code \in {228, 229} THEN Append(acc, <<"closed">>)                        \* 7.04 Release / 7.05 Abort end the session
            ELSE ObsFrom(items, i + 1, acc)                                                     \* CSM, Pong, Empty, responses: nothing to observe
Obs(w, max) == ObsFrom(Messages(w, max), 1, << >>)

(* ---- CoAP over WebSockets (RFC 8323 section 8, framing of RFC 6455 section 5.2) ------------------------------- *)
(* After the HTTP upgrade request (its length hl is given) the stream is a sequence of frames:                     *)
(*   b0 = FIN|opcode, b1 = MASK|len7, [2 or 8 bytes extended length], [4 bytes masking key], payload               *)
(* A client must mask; the only opcodes a CoAP endpoint takes are binary (2) and close (8); each binary frame      *)
(* carries exactly one CoAP message (Len nibble 0); a frame longer than the receive buffer ends the session.       *)
WsFrameMax == 1472
Unmask(w, at, n, key) == [k \in 1..n |-> w[at + k - 1] ^^ key[((k - 1) % 4) + 1]]
RECURSIVE WsFrom(_, _, _)
WsFrom(w, i, acc) ==
  IF i + 1 > Len(w) THEN acc                                                   \* fewer than two header bytes
  ELSE IF ~Lits(w, i, 2) THEN Append(acc, <<"undecidable">>)
  ELSE LET b0 == w[i]
           b1 == w[i + 1]
           op == b0 % 16
           masked == b1 >= 128
           l7 == b1 % 128
           ext == IF l7 = 126 THEN 2 ELSE IF l7 = 127 THEN 8 ELSE 0
           hl == 2 + ext + 4
       IN IF ~masked THEN Append(acc, <<"close">>)                              \* 1002
          ELSE IF i + hl - 1 > Len(w) THEN acc                                   \* header incomplete
          ELSE IF ~Lits(w, i, hl) THEN Append(acc, <<"undecidable">>)
          ELSE IF op # 2 THEN Append(acc, <<"close">>)                           \* close frame, or an opcode a CoAP endpoint does not take (1003)
          ELSE LET big == l7 = 127 /\ \E k \in 2..7 : w[i + k] # 0            \* more than 16 bits of length
                   n == IF l7 < 126 THEN l7 ELSE IF l7 = 126 THEN w[i + 2] * 256 + w[i + 3] ELSE w[i + 8] * 256 + w[i + 9]
               IN IF big \/ n > WsFrameMax THEN Append(acc, <<"close">>)        \* 1009
                  ELSE IF i + hl + n - 1 > Len(w) THEN acc                        \* payload incomplete
                  ELSE IF ~Lits(w, i + hl, n) THEN Append(acc, <<"undecidable">>)
                  ELSE LET key == SubSeq(w, i + hl - 4, i + hl - 1)
                           d == DecWS(Unmask(w, i + hl, n, key))
                       IN WsFrom(w, i + hl + n,
                                 Append(acc, IF d.ok = "ok" THEN <<"msg", d.m>> ELSE IF d.ok = "bad" THEN <<"bad">> ELSE <<d.ok>>))
WsMessages(w, hl) == IF Len(w) < hl THEN << >> ELSE WsFrom(w, hl + 1, << >>)
ObsWS(w, hl) == ObsFrom(WsMessages(w, hl), 1, << >>)
=============================================================================
