--------------------------- MODULE MC_BlockExpiry ---------------------------
(***************************************************************************)
(* Expiry of block-wise transfer state (lg_xmit, lg_srcv, lg_crcv): the     *)
(* state of a transfer that has not been touched for Timeout                *)
(* (MAX_TRANSMIT_WAIT) is thrown away.  "Touched" has to mean progress: on   *)
(* a network that takes Delay < Timeout per exchange and loses nothing, a    *)
(* transfer of any length must get through.  With ByProgress = FALSE the     *)
(* clock runs from the start of the transfer - as libcoap had it for all     *)
(* three kinds of state before 06003de, 6e36ebf, bc377f2 - and TLC shows the *)
(* transfer of NB blocks dying in the middle as soon as NB * Delay exceeds   *)
(* Timeout (MC_BlockExpiry_bystart.cfg).  Lost blocks are part of the model  *)
(* (MaxLoss): then expiry is how the state goes away, and it must.           *)
(***************************************************************************)
EXTENDS Naturals
CONSTANTS NB, Timeout, Delay, MaxLoss, ByProgress, MaxTime
VARIABLES now, alive, have, started, touched, due, lost, gaveUp
vars == <<now, alive, have, started, touched, due, lost, gaveUp>>
\* due: time at which the next block arrives (0 = the sender has stopped: a block was lost and nothing is retransmitted in this model)

Init == now = 0 /\ alive = TRUE /\ have = 1 /\ started = 0 /\ touched = 0 /\ due = Delay /\ lost = 0 /\ gaveUp = FALSE

Ref == IF ByProgress THEN touched ELSE started
\* the expiry check runs before anything else at an instant
Expire == alive /\ now - Ref >= Timeout /\ alive' = FALSE /\ UNCHANGED <<now, have, started, touched, due, lost, gaveUp>>
Arrive == /\ alive /\ due # 0 /\ now = due /\ now - Ref < Timeout /\ have < NB
          /\ have' = have + 1 /\ touched' = now
          /\ due' = IF have + 1 < NB THEN now + Delay ELSE 0
          /\ UNCHANGED <<now, alive, started, lost, gaveUp>>
\* the block that was due is lost: the sender hears nothing and (here) stops
Lose == /\ alive /\ due # 0 /\ now = due /\ lost < MaxLoss /\ have < NB
        /\ lost' = lost + 1 /\ due' = 0 /\ gaveUp' = TRUE /\ UNCHANGED <<now, alive, have, started, touched>>
Tick == /\ now < MaxTime /\ ~(alive /\ now - Ref >= Timeout) /\ ~(alive /\ due # 0 /\ now = due /\ have < NB)
        /\ now' = now + 1 /\ UNCHANGED <<alive, have, started, touched, due, lost, gaveUp>>
Next == Expire \/ Arrive \/ Lose \/ Tick
Spec == Init /\ [][Next]_vars

\* nothing lost, every exchange prompt: the state is there until the body is complete
ProgressNeverExpiresI == (lost = 0 /\ have < NB) => alive
\* an abandoned transfer does not stay for ever: Timeout after its last progress (or start) it is gone
AbandonedGoesI == (gaveUp /\ alive) => now - Ref <= Timeout
CompletesI == (lost = 0 /\ now >= NB * Delay) => have = NB
=============================================================================
