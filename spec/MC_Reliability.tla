--------------------------- MODULE MC_Reliability ---------------------------
(***************************************************************************)
(* Closed model: the message + request/response layers of Reliability and  *)
(* Exchange composed with an explicit environment (applications, a lossy,  *)
(* duplicating, delaying network, and a de-duplicating peer that answers   *)
(* only what it received).  TLC checks C06/C07/C08 as invariants of every  *)
(* reachable state, for all schedules within the constants.                *)
(***************************************************************************)
EXTENDS Exchange, Bags

CONSTANTS NSess, NMsg, MaxRtx, Nstart, AckMin, AckMax, MaxTime, MaxDup, SubmitUntil, OneDeepMemory, MaxPings

VARIABLES st, chan, nsub, decided, dups
vars == <<st, chan, nsub, decided, dups>>

Cfg == [ackMin |-> AckMin, ackMax |-> AckMax, tol |-> 0, maxRtx |-> MaxRtx, nstart |-> Nstart, sess |-> 1..NSess, oneDeep |-> OneDeepMemory]

Dg(dir, s, ty, code, mid, tok) == [dir |-> dir, s |-> s, ty |-> ty, code |-> code, mid |-> mid, tok |-> tok]

Init == /\ st = InitState(Cfg, 0) /\ chan = EmptyBag /\ nsub = 0 /\ decided = EmptyFn /\ dups = 0

Emit(d) == chan' = chan (+) SetToBag({d})
Take(d) == chan (-) SetToBag({d})
InChan(d) == BagIn(d, chan)

(* ---------------- application ------------------------------------------- *)
\* coap_send(): submit, then transmit inside the call or hold (one critical section)
Send(s, ty) ==
  /\ nsub < NMsg /\ st.now <= SubmitUntil /\ st.owed = {}
  /\ LET mid == nsub + 1
         m == [s |-> s, mid |-> mid, ty |-> ty, tok |-> mid, req |-> TRUE]
         s1 == Submit_do(st, m)
     IN /\ Submit_ok(st, m)
        /\ IF ty = NON THEN st' = NonTx_do(s1) /\ Emit(Dg("c2p", s, NON, 1, mid, mid))
           ELSE IF FirstTx_ok(s1, s, mid) /\ FirstTx_nstart(s1, s)
                THEN st' = FirstTx_do(s1, s, mid, mid) /\ Emit(Dg("c2p", s, CON, 1, mid, mid))
                ELSE Hold_ok(s1) /\ st' = Hold_do(s1, mid) /\ UNCHANGED chan
  /\ nsub' = nsub + 1
  /\ UNCHANGED <<decided, dups>>

(* ---------------- library ------------------------------------------------ *)
Release(s) ==
  /\ Releasable(st, s)
  /\ LET h == Head(st.held[s]) IN
       st' = ReleaseHeld_do(st, s, h.sig) /\ Emit(Dg("c2p", s, CON, 1, h.mid, h.tok))
  /\ UNCHANGED <<nsub, decided, dups>>

\* keepalive: the library sends an Empty Confirmable message of its own accord (here: whenever a slot is free; libcoap: when the session is idle)
Ping(s) ==
  /\ Cardinality(st.pings) < MaxPings /\ st.owed = {} /\ st.now <= SubmitUntil
  /\ LET mid == 50 + Cardinality(st.pings) IN
       /\ Ping_ok(st, s, mid) /\ Ping_nstart(st, s)
       /\ st' = Ping_do(st, s, mid, 0, mid)
       /\ Emit(Dg("c2p", s, CON, 0, mid, 0))
  /\ UNCHANGED <<nsub, decided, dups>>

Retransmit(k) ==
  /\ k \in DOMAIN st.fl /\ Retransmit_count(st, k) /\ Retransmit_time(st, k) /\ st.owed = {}
  /\ st' = Retransmit_do(st, k)
  /\ Emit(Dg("c2p", k[1], CON, IF k \in st.pings THEN 0 ELSE 1, k[2], st.fl[k].tok))
  /\ UNCHANGED <<nsub, decided, dups>>

GiveUp(k) ==
  /\ GiveUp_ok(st, k) /\ st.now = DueHi(st, st.fl[k])
  /\ st' = Owe(GiveUp_do(st, k), ONack(k[1], k[2], NackTooManyRetries))
  /\ UNCHANGED <<chan, nsub, decided, dups>>

NackCb(o) ==
  /\ o \in st.owed /\ o.k = "nack"
  /\ st' = Nack_do(st, o.s, o.mid, o.x)
  /\ UNCHANGED <<chan, nsub, decided, dups>>

DeliverCb(o, verdict) ==
  /\ o \in st.owed /\ o.k = "deliver"
  /\ st' = Deliver_do(st, o.s, o.mid, o.x[1], o.x[2], verdict)
  /\ UNCHANGED <<chan, nsub, decided, dups>>

SendAck(o) ==
  /\ o \in st.owed /\ o.k \in {"ack", "reply"}
  /\ st' = TxAck_do(st, o.s, o.mid)
  /\ Emit(Dg("c2p", o.s, ACK, 0, o.mid, 0))
  /\ UNCHANGED <<nsub, decided, dups>>

SendRst(o) ==
  /\ o \in st.owed /\ o.k \in {"rst", "reply"}
  /\ st' = TxRst_do(st, o.s, o.mid)
  /\ Emit(Dg("c2p", o.s, RST, 0, o.mid, 0))
  /\ UNCHANGED <<nsub, decided, dups>>

ClientRx(d) ==
  /\ InChan(d) /\ d.dir = "p2c" /\ st.owed = {}
  /\ st' = CASE d.ty = ACK /\ d.code = 0 -> RxAck_do(st, d.s, d.mid)
             [] d.ty = RST               -> RxRst_do(st, d.s, d.mid)
             [] d.ty = ACK /\ d.code # 0 -> RxPiggy_do(st, d.s, d.mid, d.tok)
             [] d.ty = CON               -> RxSepCon_do(st, d.s, d.mid, d.tok)
             [] d.ty = NON               -> RxSepNon_do(st, d.s, d.mid, d.tok)
  /\ chan' = Take(d)
  /\ UNCHANGED <<nsub, decided, dups>>

(* ---------------- environment -------------------------------------------- *)
Lose(d) == InChan(d) /\ chan' = Take(d) /\ UNCHANGED <<st, nsub, decided, dups>>
Dup(d)  == /\ InChan(d) /\ dups < MaxDup
           /\ Emit(d) /\ dups' = dups + 1
           /\ UNCHANGED <<st, nsub, decided>>

Styles(ty) == IF ty = CON THEN {"ack", "rst", "pig", "ack+sepcon", "sepcon", "ack+sepnon"} ELSE {"sepnon", "sepcon", "none"}

\* The peer answers only what it received, and answers every copy of a request the same way (one logical response).
PeerRx(d, style) ==
  /\ InChan(d) /\ d.dir = "c2p"
  /\ LET key == <<d.s, d.mid>> IN
     IF d.code = 0 /\ d.ty = CON THEN chan' = Take(d) (+) SetToBag({Dg("p2c", d.s, RST, 0, d.mid, 0)}) /\ UNCHANGED decided   \* a ping: pong
     ELSE IF d.code = 0 THEN chan' = Take(d) /\ UNCHANGED decided      \* ACK / RST from the client
     ELSE /\ style \in Styles(d.ty)
          /\ (key \in DOMAIN decided => style = decided[key])
          /\ decided' = Put(decided, key, style)
          /\ LET new == CASE style = "ack"  -> {Dg("p2c", d.s, ACK, 0, d.mid, 0)}
                          [] style = "rst"  -> {Dg("p2c", d.s, RST, 0, d.mid, 0)}
                          [] style = "pig"  -> {Dg("p2c", d.s, ACK, 69, d.mid, d.tok)}
                          [] style = "ack+sepcon" -> {Dg("p2c", d.s, ACK, 0, d.mid, 0),
                                                      Dg("p2c", d.s, CON, 69, 100 + d.mid, d.tok)}
                          [] style = "sepcon" -> {Dg("p2c", d.s, CON, 69, 100 + d.mid, d.tok)}
                          [] style = "ack+sepnon" -> {Dg("p2c", d.s, ACK, 0, d.mid, 0),
                                                      Dg("p2c", d.s, NON, 69, 100 + d.mid, d.tok)}
                          [] style = "sepnon" -> {Dg("p2c", d.s, NON, 69, 100 + d.mid, d.tok)}
                          [] style = "none" -> {}
             IN chan' = Take(d) (+) SetToBag(new)
  /\ UNCHANGED <<st, nsub, dups>>

Tick ==
  /\ st.now < MaxTime
  /\ Tick_ok(st, st.now + 1) /\ Tick_noheld(st)
  /\ st' = Tick_do(st, st.now + 1)
  /\ UNCHANGED <<chan, nsub, decided, dups>>

ALL_STYLES == {"ack", "rst", "pig", "ack+sepcon", "sepcon", "ack+sepnon", "sepnon", "none"}
\* one named action per disjunct, so that TLC's coverage report counts each of them
ASend       == \E s \in 1..NSess, ty \in {CON, NON} : Send(s, ty)
ARelease    == \E s \in 1..NSess : Release(s)
APing       == \E s \in 1..NSess : Ping(s)
ARetransmit == \E k \in DOMAIN st.fl : Retransmit(k)
AGiveUp     == \E k \in DOMAIN st.fl : GiveUp(k)
ANackCb     == \E o \in st.owed : NackCb(o)
ASendAck    == \E o \in st.owed : SendAck(o)
ASendRst    == \E o \in st.owed : SendRst(o)
ADeliverCb  == \E o \in st.owed, v \in {"OK", "FAIL"} : DeliverCb(o, v)
AClientRx   == \E d \in BagToSet(chan) : ClientRx(d)
ALose       == \E d \in BagToSet(chan) : Lose(d)
ADup        == \E d \in BagToSet(chan) : Dup(d)
APeerRx     == \E d \in BagToSet(chan), style \in ALL_STYLES : PeerRx(d, style)
ATick       == Tick

Next == \/ ASend \/ ARelease \/ APing \/ ARetransmit \/ AGiveUp \/ ANackCb \/ ASendAck \/ ASendRst \/ ADeliverCb
        \/ AClientRx \/ ALose \/ ADup \/ APeerRx \/ ATick

Spec == Init /\ [][Next]_vars
LibFair == /\ WF_vars(Tick)
           /\ \A s \in 1..NSess : WF_vars(Release(s))
           /\ WF_vars(\E k \in DOMAIN st.fl : Retransmit(k) \/ GiveUp(k))
           /\ WF_vars(\E o \in st.owed : NackCb(o) \/ SendAck(o) \/ SendRst(o) \/ DeliverCb(o, "OK"))
           /\ WF_vars(\E d \in BagToSet(chan) : Lose(d))
FairSpec == Spec /\ LibFair

(* ---------------- properties ---------------------------------------------- *)
NstartBoundI  == NstartBoundS(st)      \* C08
OneOutcomeI   == OneOutcomeS(st)       \* C06
NeverLateI    == NeverLateS(st)        \* C06
OneNackI      == OneNackS(st)          \* C06
CountBoundI   == CountBoundS(st)       \* C06
ConcludeOnceI == ConcludeOnceS(st)     \* C07
NotBrokenI    == ~st.broken            \* the environment stays inside the statement's assumptions
\* C08: a held message is never behind a free slot once the library has acted (checked at Tick via guard);
\* held FIFO order: mids in held[s] are increasing (submission order)
HeldFifoI == \A s \in 1..NSess : \A i, j \in 1..Len(st.held[s]) : i < j => st.held[s][i].mid < st.held[s][j].mid
\* never both a response delivery and a NACK for one exchange, never twice: ConcludeOnceI
\* C06/C07 liveness: every Confirmable ends; every exchange of a Confirmable that got an outcome other than a bare ACK concludes
AllEnd == <>[](DOMAIN st.fl = {} /\ \A s \in 1..NSess : st.held[s] = << >>)

TimeBound == st.now <= MaxTime
=============================================================================
