------------------------------- MODULE MC_Wkc -------------------------------
(***************************************************************************)
(* Design-level check of the window algebra of Wkc: for every listing of a *)
(* small table and every (offset, length), consecutive windows tile the    *)
(* listing, and the truncation flag is exactly "more remains".             *)
(***************************************************************************)
EXTENDS Wkc
VARIABLES off, n, tbl
vars == <<off, n, tbl>>
A == <<97>>  B == <<98>>
Tables == { << [path |-> A, attrs |-> << >>, obs |-> FALSE, osc |-> FALSE] >>,
            << [path |-> A, attrs |-> << [name |-> <<114, 116>>, val |-> B, hasval |-> TRUE] >>, obs |-> TRUE, osc |-> FALSE],
               [path |-> A \o B, attrs |-> << [name |-> B, val |-> << >>, hasval |-> FALSE] >>, obs |-> FALSE, osc |-> TRUE] >>,
            << [path |-> WellKnown, attrs |-> << >>, obs |-> FALSE, osc |-> FALSE], [path |-> B, attrs |-> << >>, obs |-> FALSE, osc |-> FALSE] >> }
Id(k) == [i \in 1..k |-> i]
Links(t) == [i \in 1..Len(t) |-> IF Listed(t[i]) THEN Link(t[i], Id(Len(t[i].attrs))) ELSE << >>]
Full(t) == Listing(t, Links(t), FALSE, << >>)
Init == tbl \in Tables /\ off \in 0..(Len(Full(tbl)) + 2) /\ n \in 0..(Len(Full(tbl)) + 2)
Next == UNCHANGED vars
Spec == Init /\ [][Next]_vars
Tiles == LET L == Full(tbl) IN
         /\ Window(L, off, n) \o Window(L, off + n, Len(L)) = Window(L, off, Len(L) + n)
         /\ (Trunc(L, off, n) <=> Window(L, off + n, 1) # << >>)
         /\ Render(tbl, 1, L, 1, << >>) = Links(tbl)
FilterSane == LET L == Listing(tbl, Links(tbl), TRUE, <<104, 114, 101, 102, 61, 47, 97, 42>>) IN Len(L) <= Len(Full(tbl))
=============================================================================
