SPECIFICATION FairSpec
CONSTANTS
  Peers = {1, 2}
  Streams = {2}
  MaxTime = 4
  Timeout = 2
  MaxIdle = 0
  MaxSess = 2
  HolderKinds = {"app"}
PROPERTY EventuallyReclaimedP
VIEW View
CHECK_DEADLOCK FALSE
