SPECIFICATION Spec
INVARIANTS Sane NoMix NoAckForNon McastCon
CHECK_DEADLOCK FALSE
