SPECIFICATION Spec
CONSTANTS
  NSess = 1
  NMsg = 1
  MaxRtx = 1
  Nstart = 1
  AckMin = 2
  AckMax = 3
  MaxTime = 10
  MaxDup = 0
  SubmitUntil = 1
  OneDeepMemory = FALSE
  MaxPings = 1
INVARIANTS NstartBoundI OneOutcomeI NeverLateI OneNackI CountBoundI ConcludeOnceI HeldFifoI
CONSTRAINT NotBrokenI
CHECK_DEADLOCK FALSE
