SPECIFICATION Spec
CONSTANTS
  Nums = {10, 13, 26, 282, 552}
  Lens = {0, 1, 13}
  TokLens = {0, 2, 13}
  PlLens = {0, 1}
  MaxOps = 3
  MaxSizes = {0, 24}
INVARIANTS OrderedI RoundTripI FitsI
VIEW View
CHECK_DEADLOCK FALSE
