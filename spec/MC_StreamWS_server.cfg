SPECIFICATION Spec
CONSTANTS
  Streams <- ServerStreams
  Srv = TRUE
  MaxChunk = 17
  Drain = TRUE
  KeepPartial = TRUE
INVARIANTS PrefixI AtRestI BoundedI
CHECK_DEADLOCK FALSE
