SPECIFICATION Spec
CONSTANTS
  Clients = {1, 2}
  Start = 16777214
  MaxChanges = 4
INVARIANTS Monotone StrictAfterChange OneEntry DirtyRegistered
CONSTRAINT Bound
CHECK_DEADLOCK FALSE
