SPECIFICATION Spec
CONSTANTS
  Streams <- ServerStreams
  Srv = TRUE
  MaxChunk = 17
  Drain = TRUE
  KeepPartial = FALSE
INVARIANTS PrefixI
CHECK_DEADLOCK FALSE
