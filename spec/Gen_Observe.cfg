SPECIFICATION Spec
CONSTANTS
  Clients = {0, 1, 2}
  Resources = {0, 1}
  Depth = 12
INVARIANTS OneEntry OnlyAlive Emit
CHECK_DEADLOCK FALSE
