SPECIFICATION Spec
CONSTANTS
  NReq = 3
  Matching = TRUE
INVARIANTS GateI NoCleartextI OrderI OneOutcomeI MismatchNeverEstablishedI
CHECK_DEADLOCK FALSE
