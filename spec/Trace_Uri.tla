------------------------------ MODULE Trace_Uri ------------------------------
(***************************************************************************)
(* Trace specification for C16: every conversion the real libcoap made     *)
(* (harness/drv_uri.c) is judged with the RFC operators of module Uri.     *)
(***************************************************************************)
EXTENDS Uri, Json, IOUtils

TraceLog == ndJsonDeserialize(IOEnv.TRACE)
OutFile  == IOEnv.OUT
VARIABLES l, rej, cur, ncase, nclear, nunclear
vars == <<l, rej, cur, ncase, nclear, nunclear>>

HasDotSeg(segs) == \E i \in 1..Len(segs) : segs[i] = <<46>> \/ segs[i] = <<46, 46>>

\* verdict: "" accepted, "-" accepted but outside the RFC-clear domain, otherwise the reason
JudgeP2O(e) ==
  IF PathClear(e.s)
  THEN (IF e.segs = PathToSegs(e.s) /\ e.ret = (IF e.api = "split" THEN Len(e.segs) ELSE 1) THEN ""
        ELSE "C16:path-to-options-differs-from-rfc")
  ELSE "-"
JudgeQ2O(e) ==
  IF QueryClear(e.s)
  THEN (IF e.segs = QueryToSegs(e.s) /\ e.ret = (IF e.api = "split" THEN Len(e.segs) ELSE 1) THEN ""
        ELSE "C16:query-to-options-differs-from-rfc")
  ELSE "-"
JudgeO2P(e) ==
  IF e.null = 1 THEN "C16:no-path-string"
  ELSE IF RawPathSplit(e.s) # e.segs /\ ~(e.s = << >> /\ NormSegs(e.segs) = << >>) THEN "C16:path-string-not-injective"
  ELSE IF NoDotValue(e.segs) /\ NormSegs(e.back) # NormSegs(e.segs) THEN "C16:path-string-does-not-feed-back"
  ELSE ""
JudgeO2Q(e) ==
  LET raw == IF e.null = 1 THEN << >> ELSE LET q == Split(e.s, 38) IN [i \in 1..Len(q) |-> PctDecode(q[i])] IN
  IF e.null = 1 THEN (IF \A i \in 1..Len(e.segs) : e.segs[i] = << >> THEN (IF Len(e.segs) <= 1 THEN "" ELSE "C16:query-string-not-injective")
                      ELSE "C16:no-query-string")
  ELSE IF raw # e.segs THEN "C16:query-string-not-injective"
  ELSE IF e.back # e.segs THEN "C16:query-string-does-not-feed-back"
  ELSE ""
JudgeUri(e) ==
  LET m == SplitUri(e.s)
      clear == UriClear(e.s) /\ (m.ok => (m.path = << >> \/ TRUE))
  IN IF ~UriClear(e.s) THEN "-"
     ELSE IF ~m.ok THEN (IF e.ret # 0 THEN "" ELSE "C16:malformed-uri-accepted")
     ELSE IF e.ret # 0 THEN "C16:well-formed-uri-rejected"
     ELSE IF e.scheme # m.scheme THEN "C16:scheme-differs"
     ELSE IF e.host # m.host THEN "C16:host-differs"
     ELSE IF e.port # m.port THEN "C16:port-differs"
     ELSE IF e.path # m.path \/ e.query # m.query THEN "C16:path-or-query-substring-differs"
     ELSE IF e.ol = 1 /\ m.path # << >> /\ PathClear(m.path) /\ e.opath # PathToSegs(m.path) THEN "C16:uri-path-options-differ-from-rfc"
     ELSE IF e.ol = 1 /\ m.query # << >> /\ QueryClear(m.query) /\ e.oquery # QueryToSegs(m.query) THEN "C16:uri-query-options-differ-from-rfc"
     ELSE ""

Judge(e) ==
  CASE e.e = "P2O" -> JudgeP2O(e)
    [] e.e = "Q2O" -> JudgeQ2O(e)
    [] e.e = "O2P" -> JudgeO2P(e)
    [] e.e = "O2Q" -> JudgeO2Q(e)
    [] e.e = "Uri" -> JudgeUri(e)
    [] e.e = "BufSweep" -> "C16:output-buffer-bound-not-respected"
    [] e.e = "Crash" -> "C16:driver-crashed"
    [] OTHER -> ""

Init == l = 1 /\ rej = << >> /\ cur = 0 /\ ncase = 0 /\ nclear = 0 /\ nunclear = 0
Consume ==
  /\ l <= Len(TraceLog)
  /\ LET e == TraceLog[l] IN
     IF e.e = "Case" THEN cur' = e.ln /\ ncase' = ncase + 1 /\ UNCHANGED <<rej, nclear, nunclear>>
     ELSE LET v == Judge(e) IN
          /\ rej' = IF v \in {"", "-"} THEN rej ELSE Append(rej, [id |-> cur, line |-> l, why |-> v])
          /\ nclear' = IF v = "" THEN nclear + 1 ELSE nclear
          /\ nunclear' = IF v = "-" THEN nunclear + 1 ELSE nunclear
          /\ UNCHANGED <<cur, ncase>>
  /\ l' = l + 1
Finish ==
  /\ l = Len(TraceLog) + 1
  /\ JsonSerialize(OutFile, [rejected |-> rej, executions |-> ncase, discarded |-> 0, known |-> {},
                             lines |-> Len(TraceLog), judged |-> nclear, outside_rfc_clear_domain |-> nunclear])
  /\ l' = l + 1 /\ UNCHANGED <<rej, cur, ncase, nclear, nunclear>>
Next == Consume \/ Finish
Spec == Init /\ [][Next]_vars
=============================================================================
