SPECIFICATION Spec
CONSTANTS
  Streams <- HsSet
  MaxChunk = 16
  Variant = "fixed"
INVARIANTS AtRestI LeftoverI BoundedI
CHECK_DEADLOCK FALSE
