SPECIFICATION Spec
CONSTANTS
  NB = 3
  MaxVersion = 4
  MaxDup = 2
  FreshEtag = TRUE
  CacheMayExpire = FALSE
  RestartKeepsLineage = TRUE
  NoEtagFails = TRUE
  MaxChains = 3
  MaxSent = 9
INVARIANTS ExactBodyI NoRawBlockI OneLiveChainI
CONSTRAINT Bound
CHECK_DEADLOCK FALSE
