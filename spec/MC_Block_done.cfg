SPECIFICATION Spec
CONSTANTS
  NB = 3
  NXfer = 2
  MaxLoss = 1
  MaxDup = 1
  MaxRtx = 1
  FreshRtag = TRUE
  StaleAckIgnored = TRUE
INVARIANTS NotAllDone
CHECK_DEADLOCK FALSE
