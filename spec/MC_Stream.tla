------------------------------ MODULE MC_Stream ------------------------------
(***************************************************************************)
(* The three-state stream reader as a state machine fed with arbitrary     *)
(* chunks, checked against the functional description Stream!Messages:     *)
(* for every stream of the catalogue and EVERY way of cutting it into      *)
(* chunks (TLC explores all chunk sizes at every step), the messages the   *)
(* reader has emitted are a prefix of Messages(stream), equal to it once   *)
(* the stream is consumed, and the reader never buffers more than the      *)
(* configured maximum.  (C05 at design level.)                             *)
(***************************************************************************)
EXTENDS Stream, StreamData
CONSTANTS Streams, MaxSize, MaxChunk
VARIABLES w, pos, st, buf, need, out, closed
vars == <<w, pos, st, buf, need, out, closed>>
\* st: "first" (no byte of the next message yet) | "hdr" (collecting the size-determining prefix) | "body"

Init == /\ w \in Streams /\ pos = 0 /\ st = "first" /\ buf = << >> /\ need = 0 /\ out = << >> /\ closed = FALSE

Emit(s, bytes) == LET d == DecTCP(bytes) IN
                  [s EXCEPT !.st = "first", !.buf = << >>, !.need = 0,
                            !.out = Append(@, IF d.ok = "ok" THEN <<"msg", d.m>> ELSE <<"bad">>)]
Min(a, b) == IF a < b THEN a ELSE b

\* one pass of the reader's loop over what is left of a chunk c (from index i); mirrors the three branches of the code:
\* body being collected / header prefix being collected / first byte.  Whole sub-ranges are copied at once.
RECURSIVE Feed(_, _, _)
Feed(s, c, i) ==
  IF i > Len(c) \/ s.closed THEN s
  ELSE LET avail == Len(c) - i + 1 IN
  IF s.st = "body"
  THEN LET n == Min(s.need - Len(s.buf), avail)
           nb == s.buf \o SubSeq(c, i, i + n - 1)
       IN IF Len(nb) = s.need THEN Feed(Emit(s, nb), c, i + n) ELSE Feed([s EXCEPT !.buf = nb], c, i + n)
  ELSE IF s.st = "hdr"
  THEN LET n == Min(s.need - Len(s.buf), avail)
           nb == s.buf \o SubSeq(c, i, i + n - 1)
       IN IF Len(nb) < s.need THEN Feed([s EXCEPT !.buf = nb], c, i + n)
          ELSE LET total == TotalSize(nb) IN
               IF total - (2 + LenBytes(nb[1])) > MaxSize
               THEN [s EXCEPT !.closed = TRUE, !.out = Append(@, <<"close">>), !.buf = << >>]     \* closed, nothing buffered
               ELSE IF total = Len(nb) THEN Feed(Emit(s, nb), c, i + n)
               ELSE Feed([s EXCEPT !.st = "body", !.buf = nb, !.need = total], c, i + n)
  ELSE \* first byte of a message: fixes how many more bytes determine the size
       Feed([s EXCEPT !.st = "hdr", !.buf = <<c[i]>>, !.need = PrefixLen(c[i])], c, i + 1)

AFeed == \E n \in 0..MaxChunk :
           /\ pos + n <= Len(w) /\ (n > 0 \/ pos < Len(w))
           /\ LET s == Feed([st |-> st, buf |-> buf, need |-> need, out |-> out, closed |-> closed], SubSeq(w, pos + 1, pos + n), 1)
              IN st' = s.st /\ buf' = s.buf /\ need' = s.need /\ out' = s.out /\ closed' = s.closed
           /\ pos' = pos + n /\ UNCHANGED w
Next == AFeed
Spec == Init /\ [][Next]_vars

Prefix(a, b) == Len(a) <= Len(b) /\ a = SubSeq(b, 1, Len(a))
EmittedIsPrefix == Prefix(out, Messages(w, MaxSize))
CompleteAtEnd == (pos = Len(w)) => out = Messages(w, MaxSize)
Bounded == Len(buf) <= MaxSize + 8
DependsOnlyOnBytes == out = Messages(SubSeq(w, 1, pos), MaxSize) \/ closed
=============================================================================
