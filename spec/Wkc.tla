--------------------------------- MODULE Wkc ---------------------------------
(***************************************************************************)
(* /.well-known/core: the RFC 6690 link-format listing of the registered   *)
(* resources, query filtering (RFC 6690 §4.1: href / rt / if / rel, exact, *)
(* trailing-'*' prefix, space separated tokens), and windows of it.  C20.  *)
(*                                                                         *)
(* A resource is [path, attrs, obs, osc]; attrs is a sequence of           *)
(* [name, val, hasval].  Byte strings are sequences of 0..255.             *)
(***************************************************************************)
EXTENDS Naturals, Integers, Sequences, FiniteSets, TLC

LT == 60  GT == 62  SL == 47  SEMI == 59  EQ == 61  COMMA == 44  QUOTE == 34  STAR == 42  SP == 32
WellKnown == <<46, 119, 101, 108, 108, 45, 107, 110, 111, 119, 110, 47, 99, 111, 114, 101>>   \* ".well-known/core"

AttrText(a) == <<SEMI>> \o a.name \o (IF a.hasval THEN <<EQ>> \o a.val ELSE << >>)
RECURSIVE AttrsText(_, _)
AttrsText(as, i) == IF i > Len(as) THEN << >> ELSE AttrText(as[i]) \o AttrsText(as, i + 1)
\* one link with its attributes in the given order
Link(r, order) == <<LT, SL>> \o r.path \o <<GT>> \o AttrsText([i \in 1..Len(order) |-> r.attrs[order[i]]], 1)
                  \o (IF r.obs THEN <<SEMI, 111, 98, 115>> ELSE << >>)      \* ;obs
                  \o (IF r.osc THEN <<SEMI, 111, 115, 99>> ELSE << >>)      \* ;osc

Perms(n) == {f \in [1..n -> 1..n] : \A i, j \in 1..n : i # j => f[i] # f[j]}
Listed(r) == r.path # WellKnown      \* an application-defined .well-known/core resource is not listed

RECURSIVE Join(_, _)
Join(links, i) == IF i > Len(links) THEN << >> ELSE (IF i > 1 THEN <<COMMA>> ELSE << >>) \o links[i] \o Join(links, i + 1)

\* Does `full` render exactly the listed resources in registration order?  Returns the chosen links or << <<-1>> >>.
RECURSIVE Render(_, _, _, _, _)
Render(table, i, full, pos, acc) ==
  IF i > Len(table) THEN (IF pos = Len(full) + 1 THEN acc ELSE << <<-1>> >>)
  ELSE IF ~Listed(table[i]) THEN Render(table, i + 1, full, pos, Append(acc, << >>))
  ELSE LET sep == IF \E j \in 1..(i - 1) : Listed(table[j]) THEN 1 ELSE 0
           C == {Link(table[i], p) : p \in Perms(Len(table[i].attrs))}
           n == Len(CHOOSE c \in C : TRUE)
           piece == IF pos + sep + n - 1 <= Len(full) THEN SubSeq(full, pos + sep, pos + sep + n - 1) ELSE << >>
       IN IF piece \in C /\ (sep = 0 \/ full[pos] = COMMA)
          THEN Render(table, i + 1, full, pos + sep + n, Append(acc, piece))
          ELSE << <<-1>> >>

(* ---- query filter ------------------------------------------------------- *)
IndexOf(s, c) == LET P == {i \in 1..Len(s) : s[i] = c} IN IF P = {} THEN 0 ELSE CHOOSE x \in P : \A y \in P : x <= y
IsPrefix(p, s) == Len(p) <= Len(s) /\ SubSeq(s, 1, Len(p)) = p
Unquote(v) == IF Len(v) >= 2 /\ v[1] = QUOTE /\ v[Len(v)] = QUOTE THEN SubSeq(v, 2, Len(v) - 1) ELSE v
RECURSIVE Tokens(_, _)
Tokens(s, from) == IF s = << >> THEN {} ELSE      \* an empty value has no tokens
                   LET P == {i \in from..Len(s) : s[i] = SP} IN
                   IF P = {} THEN {SubSeq(s, from, Len(s))}
                   ELSE LET i == CHOOSE x \in P : \A y \in P : x <= y IN {SubSeq(s, from, i - 1)} \cup Tokens(s, i + 1)
Hit(text, pat, prefix) == IF prefix THEN IsPrefix(pat, text) ELSE pat = text
Href == <<104, 114, 101, 102>>
TokenAttrs == {<<114, 116>>, <<105, 102>>, <<114, 101, 108>>}      \* rt, if, rel

\* filter = name "=" pattern ; pattern may end in '*' (prefix match); href patterns may start with '/'
Match(r, filter) ==
  LET e == IndexOf(filter, EQ)
      name == SubSeq(filter, 1, e - 1)
      pat0 == SubSeq(filter, e + 1, Len(filter))
      pat1 == IF name = Href /\ pat0 # << >> /\ pat0[1] = SL THEN Tail(pat0) ELSE pat0
      prefix == pat1 # << >> /\ pat1[Len(pat1)] = STAR
      pat == IF prefix THEN SubSeq(pat1, 1, Len(pat1) - 1) ELSE pat1
  IN IF name = Href THEN Hit(r.path, pat, prefix)
     ELSE \E i \in 1..Len(r.attrs) :
            /\ r.attrs[i].name = name /\ r.attrs[i].hasval
            /\ LET v == Unquote(r.attrs[i].val) IN
               IF name \in TokenAttrs THEN \E t \in Tokens(v, 1) : Hit(t, pat, prefix) ELSE Hit(v, pat, prefix)

\* filters the statement defines (DESIGN.md 7.1 C20): name=value with a non-empty value
FilterClear(filter) == LET e == IndexOf(filter, EQ) IN e > 1 /\ e < Len(filter) /\ 38 \notin {filter[i] : i \in 1..Len(filter)}

\* listing for a filter, given the links chosen by Render (empty link = not listed)
Listing(table, links, hasFilter, filter) ==
  LET keep == SelectSeq([i \in 1..Len(table) |-> i],
                        LAMBDA i : Listed(table[i]) /\ (~hasFilter \/ Match(table[i], filter)))
  IN Join([k \in 1..Len(keep) |-> links[keep[k]]], 1)

Window(L, off, n) == IF off >= Len(L) \/ n = 0 THEN << >> ELSE SubSeq(L, off + 1, IF off + n <= Len(L) THEN off + n ELSE Len(L))
Trunc(L, off, n)  == off + n < Len(L)
=============================================================================
