----------------------------- MODULE MC_Sessions -----------------------------
(***************************************************************************)
(* Closed model for C12: peers send datagrams, the application and the     *)
(* library take and drop references, time passes, the I/O step reclaims.   *)
(* Uses the guards and effects of module Sessions as they are used for the *)
(* real traces; the environment is as libcoap is built:                     *)
(*   Rx:  lookup by peer; else, at the idle limit, evict the oldest idle    *)
(*        session; then create                                              *)
(*   Io:  every idle session whose timeout has passed is deleted            *)
(***************************************************************************)
EXTENDS Sessions, TLC
CONSTANTS Peers, Streams, MaxTime, Timeout, MaxIdle, MaxSess, HolderKinds
VARIABLES st, now, nextId, hist
vars == <<st, now, nextId, hist>>

Init == st = [InitSess(Timeout, MaxIdle) EXCEPT !.streamPeers = Streams] /\ now = 0 /\ nextId = 1 /\ hist = << >>

Free(s0, s) == [Del_do(s0, s) EXCEPT !.objs = @ \ {s}]
Rx(p) ==
  /\ IF p \in DOMAIN st.map
     THEN st.map[p] \notin st.closed /\ st' = Touch_do(st, st.map[p], now) /\ UNCHANGED <<nextId, hist>>      \* nothing arrives on a closed connection
     ELSE /\ nextId <= MaxSess
          /\ LET idle == {x \in IdleSet(st) : (st.peer[x] \in Streams) = (p \in Streams)}     \* the idle sessions of the endpoint p talks to
                 evict == st.maxidle > 0 /\ Cardinality(idle) >= st.maxidle
                 victim == CHOOSE v \in idle : OldestIdle(st, v)
                 s1 == IF evict THEN Free(st, victim) ELSE st
                 s2 == [s1 EXCEPT !.objs = @ \cup {nextId}]
             IN /\ (evict => Del_ok(st, victim, now))
                /\ New_ok(s2, nextId, p)
                /\ st' = New_do(s2, nextId, p, now)
                /\ hist' = IF evict THEN Append(hist, [del |-> victim, cause |-> DelCause(st, victim, now)]) ELSE hist
          /\ nextId' = nextId + 1
  /\ UNCHANGED now
Hold(s, h) == s \in Live(st) /\ h \notin Holders(st, s) /\ st' = Hold_do(st, s, h) /\ UNCHANGED <<now, nextId, hist>>
Unhold(s, h) == s \in Live(st) /\ h \in Holders(st, s) /\ st' = Unhold_do(st, s, h) /\ UNCHANGED <<now, nextId, hist>>
Tick == now < MaxTime /\ now' = now + 1 /\ UNCHANGED <<st, nextId, hist>>
\* one reclamation inside the I/O step (the step repeats it until nothing is overdue)
\* the peer of a stream session goes away (Streams: the peers that use a stream transport)
Disconnect(p) == /\ p \in Streams /\ p \in DOMAIN st.map /\ st.map[p] \notin st.closed
                 /\ st' = Disc_do(st, st.map[p]) /\ UNCHANGED <<now, nextId, hist>>
Reclaim(s) == /\ Idle(st, s) /\ (Overdue(st, s, now) \/ s \in st.closed)
              /\ Del_ok(st, s, now)
              /\ st' = Free(st, s)
              /\ hist' = Append(hist, [del |-> s, cause |-> DelCause(st, s, now)])
              /\ UNCHANGED <<now, nextId>>
ARx == \E p \in Peers : Rx(p)
AHold == \E s \in Live(st), h \in HolderKinds : Hold(s, h)
AUnhold == \E s \in Live(st), h \in HolderKinds : Unhold(s, h)
ATick == Tick
AReclaim == \E s \in Live(st) : Reclaim(s)
ADisconnect == \E p \in Peers : Disconnect(p)
Next == ARx \/ AHold \/ AUnhold \/ ATick \/ AReclaim \/ ADisconnect
Spec == Init /\ [][Next]_vars
FairSpec == Spec /\ WF_vars(AReclaim) /\ WF_vars(ATick)

OneToOneI == OneToOne(st)
HeldAreLiveI == HeldAreLive(st)
LiveAreObjectsI == LiveAreObjects(st)
DeadOnceI == DeadOnce(st) /\ \A s \in st.dead : s \notin Live(st) /\ s \notin st.objs
\* nothing that is held ever goes away: every deletion so far had a permitted cause
CausesI == \A i \in 1..Len(hist) : hist[i].cause \in {"timeout", "evicted", "closed"}
\* a closed session is live (until reclaimed) and no dead one is closed
ClosedAreLiveI == st.closed \subseteq Live(st)
\* a session is never deleted twice and sessions of different peers differ
NoReuseI == \A p \in DOMAIN st.map : st.map[p] \notin st.dead
\* an idle session whose timeout has passed does not stay that way (the I/O step is the fair agent)
EventuallyReclaimedP == \A s \in 1..MaxSess : [](s \in IdleSet(st) /\ (Overdue(st, s, now) \/ s \in st.closed) => <>(s \notin IdleSet(st) \/ (~Overdue(st, s, now) /\ s \notin st.closed)))
View == <<st, now, nextId>>
=============================================================================
