SPECIFICATION Spec
CONSTANTS
  Streams <- StreamSet
  MaxSize = 24
  MaxChunk = 2
INVARIANTS EmittedIsPrefix CompleteAtEnd Bounded DependsOnlyOnBytes
CHECK_DEADLOCK FALSE
