---------------------------- MODULE Trace_Persist ----------------------------
(***************************************************************************)
(* Trace specification for C17.  One execution = a history of operations   *)
(* run by the real server (harness/drv_persist.c), killed before/after one *)
(* stdio call of the persistence code, the three files as found after the  *)
(* kill, and a restarted process that is asked which resources exist and   *)
(* who is notified.  The Reset line carries the operations and the file    *)
(* contents after each operation of an UNCRASHED reference run.            *)
(***************************************************************************)
EXTENDS Persist, Json, IOUtils
TraceLog == ndJsonDeserialize(IOEnv.TRACE)
OutFile  == IOEnv.OUT
VARIABLES l, rej, cur, ops, snaps, opj, phase, exists, probes, curProbe, preMax, tokName, nexec, judged
vars == <<l, rej, cur, ops, snaps, opj, phase, exists, probes, curProbe, preMax, tokName, nexec, judged>>
\* phase: "run" (first process) | "dead" (killed) | "restart"

Put(f, k, v) == [x \in (DOMAIN f) \cup {k} |-> IF x = k THEN v ELSE f[x]]
EmptyFn == [x \in {} |-> 0]
Max(a, b) == IF a > b THEN a ELSE b

Allowed(j) == IF j = 0 THEN {After(ops, 0)} ELSE {After(ops, j - 1), After(ops, j)}
\* snaps: the file contents after every completed update (rename) of the uncrashed reference run, tagged with the
\* operation during which it happened, plus one snapshot at the end of each operation.  While operation j is in
\* progress a file may hold the last content of an earlier operation or any content produced during operation j.
SnapSet(j, f) == LET before == {i \in 1..Len(snaps) : snaps[i].j < j}
                     last == IF before = {} THEN {} ELSE {CHOOSE i \in before : \A k \in before : k <= i}
                 IN {snaps[i][f] : i \in last \cup {i \in 1..Len(snaps) : snaps[i].j = j}} \cup (IF j = 0 THEN {"-"} ELSE {})

\* an absent file and an empty file hold the same (empty) state
Norm(x) == IF x = "-" THEN "" ELSE x
NSnapSet(j, f) == {Norm(x) : x \in SnapSet(j, f)}
FilesWhy(e0) ==
  LET e == [dyn |-> Norm(e0.dyn), obs |-> Norm(e0.obs), cnt |-> Norm(e0.cnt)] IN
  IF e.dyn \notin NSnapSet(opj, "dyn") THEN "C17:dynamic-resource-file-is-neither-the-old-nor-the-new-state"
  ELSE IF e.obs \notin NSnapSet(opj, "obs") THEN "C17:observation-file-is-neither-the-old-nor-the-new-state"
  ELSE IF e.cnt \notin NSnapSet(opj, "cnt") THEN "C17:observe-counter-file-is-neither-the-old-nor-the-new-state"
  ELSE ""

RestartWhy ==
  LET E == {n \in DOMAIN exists : exists[n]}
      okRes == \E a \in Allowed(opj) : E = a.res
      okObs == \A n \in E : n \in DOMAIN probes =>
                 \E a \in Allowed(opj) : probes[n] = {<<o[1], o[3]>> : o \in {x \in a.obs : x[2] = n}}
  IN IF ~okRes THEN "C17:dynamic-resources-after-restart-differ-from-before-the-crash"
     ELSE IF ~okObs THEN "C17:observations-not-re-established-after-restart"
     ELSE ""

Init == /\ l = 1 /\ rej = << >> /\ cur = -1 /\ ops = << >> /\ snaps = << >> /\ opj = 0 /\ phase = "run" /\ exists = EmptyFn /\ probes = EmptyFn
        /\ curProbe = "" /\ preMax = EmptyFn /\ tokName = EmptyFn /\ nexec = 0 /\ judged = FALSE

Reject(why) == rej' = IF why = "" THEN rej ELSE Append(rej, [id |-> cur, line |-> l, why |-> why])

Consume ==
  /\ l <= Len(TraceLog)
  /\ LET e == TraceLog[l] IN
     CASE e.e = "Reset" ->
            /\ cur' = e.id /\ ops' = e.ops /\ snaps' = e.snaps /\ opj' = 0 /\ phase' = "run" /\ exists' = EmptyFn /\ probes' = EmptyFn /\ curProbe' = ""
            /\ preMax' = EmptyFn /\ nexec' = nexec + 1 /\ judged' = FALSE
            /\ tokName' = [t \in {e.ops[i].tok : i \in {x \in 1..Len(e.ops) : e.ops[x].k = "register"}} |->
                             (CHOOSE i \in 1..Len(e.ops) : e.ops[i].k = "register" /\ e.ops[i].tok = t) ]
            /\ UNCHANGED rej
       [] e.e = "Op" /\ phase = "run" -> opj' = e.j /\ UNCHANGED <<rej, cur, ops, snaps, phase, exists, probes, curProbe, preMax, tokName, nexec, judged>>
       [] e.e = "Killed" -> phase' = "dead" /\ UNCHANGED <<rej, cur, ops, snaps, opj, exists, probes, curProbe, preMax, tokName, nexec, judged>>
       [] e.e = "Files" -> Reject(FilesWhy(e)) /\ UNCHANGED <<cur, ops, snaps, opj, phase, exists, probes, curProbe, preMax, tokName, nexec, judged>>
       [] e.e = "Start" /\ phase = "dead" -> phase' = "restart" /\ UNCHANGED <<rej, cur, ops, snaps, opj, exists, probes, curProbe, preMax, tokName, nexec, judged>>
       [] e.e = "Sent" /\ phase = "run" /\ e.tok \in DOMAIN tokName ->          \* handed to the network: sent, whether or not the process lives to see it arrive
            LET nm == ops[tokName[e.tok]].name IN
            /\ preMax' = Put(preMax, nm, IF nm \in DOMAIN preMax THEN Max(preMax[nm], e.obs) ELSE e.obs)
            /\ UNCHANGED <<rej, cur, ops, snaps, opj, phase, exists, probes, curProbe, tokName, nexec, judged>>
       [] e.e \in {"Notif", "Reply"} /\ e.obs >= 0 /\ e.tok \in DOMAIN tokName ->
            LET nm == ops[tokName[e.tok]].name IN
            IF phase = "run"
            THEN /\ preMax' = Put(preMax, nm, IF nm \in DOMAIN preMax THEN Max(preMax[nm], e.obs) ELSE e.obs)
                 /\ UNCHANGED <<rej, cur, ops, snaps, opj, phase, exists, probes, curProbe, tokName, nexec, judged>>
            ELSE /\ Reject(IF e.e = "Notif" /\ nm \in DOMAIN preMax /\ e.obs <= preMax[nm] THEN "C17:observe-value-after-restart-not-greater-than-before-the-crash" ELSE "")
                 /\ probes' = (IF e.e = "Notif" /\ curProbe # "" THEN Put(probes, curProbe, (IF curProbe \in DOMAIN probes THEN probes[curProbe] ELSE {}) \cup {<<e.c, e.tok>>}) ELSE probes)
                 /\ UNCHANGED <<cur, ops, snaps, opj, phase, exists, curProbe, preMax, tokName, nexec, judged>>
       [] e.e = "Exists" /\ phase = "restart" -> exists' = Put(exists, e.name, e.code = 69) /\ UNCHANGED <<rej, cur, ops, snaps, opj, phase, probes, curProbe, preMax, tokName, nexec, judged>>
       [] e.e = "Probe" /\ phase = "restart" -> /\ curProbe' = e.name /\ probes' = (IF e.found THEN Put(probes, e.name, {}) ELSE probes)
                                                 /\ UNCHANGED <<rej, cur, ops, snaps, opj, phase, exists, preMax, tokName, nexec, judged>>
       [] e.e = "ProbeEnd" /\ phase = "restart" -> curProbe' = "" /\ UNCHANGED <<rej, cur, ops, snaps, opj, phase, exists, probes, preMax, tokName, nexec, judged>>
       [] e.e = "Finished" /\ phase = "restart" /\ ~judged ->
            /\ Reject(RestartWhy) /\ judged' = TRUE /\ UNCHANGED <<cur, ops, snaps, opj, phase, exists, probes, curProbe, preMax, tokName, nexec>>
       [] e.e = "Crash" -> Reject("C17:driver-crashed") /\ UNCHANGED <<cur, ops, snaps, opj, phase, exists, probes, curProbe, preMax, tokName, nexec, judged>>
       [] OTHER -> UNCHANGED <<rej, cur, ops, snaps, opj, phase, exists, probes, curProbe, preMax, tokName, nexec, judged>>
  /\ l' = l + 1
Finish == /\ l = Len(TraceLog) + 1
          /\ JsonSerialize(OutFile, [rejected |-> rej, executions |-> nexec, discarded |-> 0, known |-> {}, lines |-> Len(TraceLog)])
          /\ l' = l + 1 /\ UNCHANGED <<rej, cur, ops, snaps, opj, phase, exists, probes, curProbe, preMax, tokName, nexec, judged>>
Next == Consume \/ Finish
Spec == Init /\ [][Next]_vars
=============================================================================
