SPECIFICATION Spec
CONSTANTS
  W = 3
  MaxPiv = 9
  Freq = 2
  MaxSteps = 8
INVARIANTS AtMostOnce NoNonceReuse SavedAhead FreshAccepted
CHECK_DEADLOCK FALSE
