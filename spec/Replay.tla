-------------------------------- MODULE Replay --------------------------------
(***************************************************************************)
(* OSCORE replay protection (RFC 8613 §7.4, Appendix B.1) and sender       *)
(* sequence number persistence (Appendix B.1.1).  Property C15.            *)
(*                                                                         *)
(* Recipient: a sliding window [last, bitmap of the W numbers below last]. *)
(* Sender: seq is used then incremented; every `freq` numbers the value    *)
(* `next` (a number no message has used yet) is handed to the application  *)
(* to persist BEFORE the message using a number >= the previous saved      *)
(* value leaves; after a crash the sender resumes from the saved value.    *)
(***************************************************************************)
EXTENDS Naturals, Integers, FiniteSets, Sequences, TLC
CONSTANTS W, MaxPiv, Freq, MaxSteps

VARIABLES armed, last, seen,       \* recipient: window armed?, highest accepted number, accepted numbers still in the window
          accepted,                \* ghost: multiset (as function n -> count) of numbers whose request reached the application
          seq, next, saved, used,  \* sender: next number to use, next save threshold, value persisted, ghost set of numbers used
          steps
vars == <<armed, last, seen, accepted, seq, next, saved, used, steps>>

Init == /\ armed = FALSE /\ last = 0 /\ seen = {} /\ accepted = [n \in 0..MaxPiv |-> 0]
        /\ seq = 0 /\ next = 0 /\ saved = 0 /\ used = {} /\ steps = 0

InWindow(n) == armed /\ n <= last /\ last - n <= W
\* the window's verdict on number n
Verdict(n) == IF ~armed THEN "accept"
              ELSE IF n > last THEN "accept"
              ELSE IF last - n > W THEN "too-old"
              ELSE IF n \in seen THEN "replay" ELSE "accept"

\* a message that authenticates: window check, then update
RxGenuine(n) ==
  /\ steps < MaxSteps /\ n \in used                      \* only numbers some genuine message carries
  /\ IF Verdict(n) = "accept"
     THEN /\ accepted' = [accepted EXCEPT ![n] = @ + 1]
          /\ armed' = TRUE
          /\ last' = IF ~armed \/ n > last THEN n ELSE last
          /\ seen' = {m \in seen \cup {n} : (IF ~armed \/ n > last THEN n ELSE last) - m <= W}
     ELSE UNCHANGED <<accepted, armed, last, seen>>
  /\ steps' = steps + 1 /\ UNCHANGED <<seq, next, saved, used>>

\* a message that does not authenticate, whatever number it claims: the window is updated tentatively and rolled back
RxForged(n) == /\ steps < MaxSteps /\ n \in 0..MaxPiv
               /\ steps' = steps + 1 /\ UNCHANGED <<armed, last, seen, accepted, seq, next, saved, used>>

\* sender protects a message with number seq
Protect == /\ steps < MaxSteps /\ seq <= MaxPiv
           /\ used' = used \cup {seq}
           /\ seq' = seq + 1
           /\ IF seq + 1 > next THEN next' = next + Freq /\ saved' = next + Freq ELSE UNCHANGED <<next, saved>>
           /\ steps' = steps + 1 /\ UNCHANGED <<armed, last, seen, accepted>>
\* the sender skips ahead (gap)
Skip(k) == /\ steps < MaxSteps /\ seq + k <= MaxPiv /\ seq' = seq + k
           /\ IF seq + k > next THEN next' = (seq + k) - ((seq + k) % Freq) + Freq /\ saved' = (seq + k) - ((seq + k) % Freq) + Freq
              ELSE UNCHANGED <<next, saved>>
           /\ steps' = steps + 1 /\ UNCHANGED <<armed, last, seen, accepted, used>>
\* process crash and restart from the persisted value
CrashRestart == /\ steps < MaxSteps /\ seq' = saved /\ next' = saved - (saved % Freq)
                /\ steps' = steps + 1 /\ UNCHANGED <<armed, last, seen, accepted, saved, used>>

ARxGenuine == \E n \in 0..MaxPiv : RxGenuine(n)
ARxForged  == \E n \in 0..MaxPiv : RxForged(n)
ASkip      == \E k \in {1, 2, W, W + 1, W + 2} : Skip(k)
Next == ARxGenuine \/ ARxForged \/ Protect \/ ASkip \/ CrashRestart
Spec == Init /\ [][Next]_vars

AtMostOnce   == \A n \in 0..MaxPiv : accepted[n] <= 1            \* a protected request is accepted at most once
NoNonceReuse == seq \notin used                                   \* the number about to be used was never used, also after restarts
SavedAhead   == \A n \in used : n < saved
FreshAccepted == \A n \in used : (armed /\ n > last) => Verdict(n) = "accept"   \* a genuine higher number is always acceptable
=============================================================================
