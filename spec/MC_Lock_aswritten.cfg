SPECIFICATION Spec
CONSTANTS
  Threads = {1, 2, 3}
  MaxCalls = 2
  MaxDepth = 3
  AsWritten = TRUE
INVARIANTS NoLeak
CHECK_DEADLOCK FALSE
