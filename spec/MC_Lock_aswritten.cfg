SPECIFICATION Spec
CONSTANTS
  Threads = {1, 2, 3}
  MaxCalls = 2
  MaxDepth = 3
  AsWritten = TRUE
INVARIANTS MutualExclusion NoLeak CountsConsistent NoDeadlock
CHECK_DEADLOCK FALSE
