SPECIFICATION Spec
CONSTANTS
  W = 4
  MaxPiv = 12
  Freq = 2
  MaxSteps = 10
INVARIANTS AtMostOnce NoNonceReuse SavedAhead FreshAccepted
CHECK_DEADLOCK FALSE
