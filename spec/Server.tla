-------------------------------- MODULE Server --------------------------------
(***************************************************************************)
(* What a CoAP server endpoint does with ONE request datagram: the         *)
(* decision table of RFC 7252 §4.2/4.3 (reply type), §5.4.1 (critical and  *)
(* repeated options), §5.8 (methods), §5.10.8.2 (If-None-Match), §5.7.2    *)
(* (proxying), §8.1 (multicast); RFC 7967 (No-Response); RFC 8132 (FETCH); *)
(* RFC 8768 (Hop-Limit).  Property C10.                                    *)
(*                                                                         *)
(* Decide(m, tb, mcast) is the SET of outcomes the statement allows for    *)
(* request m (an abstract message as decoded by CoapWire) on resource      *)
(* table tb.  The statement lists rules without a priority among them, so  *)
(* every rule whose condition holds contributes its outcome; the handler   *)
(* outcome is allowed only when no rule applies.                           *)
(*   outcome = [h |-> << >> or <<resource index>>, r |-> reply]            *)
(*   reply   = <<"none">> | <<"rst">> | <<"emptyack">> | <<"msg", code>>    *)
(***************************************************************************)
EXTENDS CoapWire

CON == 0  NON == 1  ACK == 2  RST == 3
Class(code) == code \div 32
IsReqCode(code) == code >= 1 /\ code <= 31
GET == 1  POST == 2  PUT == 3  DELETE == 4  FETCH == 5  PATCH == 6  IPATCH == 7

\* options libcoap knows as critical without the application registering them
KnownCritical == {1, 3, 5, 7, 11, 15, 17, 23, 27, 35, 39}
NonRepeatableOpt == {3, 5, 6, 7, 9, 12, 14, 16, 17, 23, 27, 28, 35, 39, 60, 252, 258}

Opts(m, num) == SelectSeq(m.opts, LAMBDA o : o.num = num)
HasOpt(m, num) == Opts(m, num) # << >>
RECURSIVE UIntFrom(_, _, _)
UIntFrom(v, i, acc) == IF i > Len(v) THEN acc ELSE UIntFrom(v, i + 1, acc * 256 + v[i])
UInt(v) == UIntFrom(v, 1, 0)

UnknownCritical(m, tb) == \E i \in 1..Len(m.opts) : m.opts[i].num % 2 = 1 /\ m.opts[i].num \notin KnownCritical \cup tb.known
IllegalRepeat(m) == \E i \in 1..(Len(m.opts) - 1) : m.opts[i].num = m.opts[i + 1].num /\ m.opts[i].num \in NonRepeatableOpt
BadOption(m, tb) == UnknownCritical(m, tb) \/ IllegalRepeat(m)

\* Uri-Path values of the request; "a single empty segment is no segment"
PathSegs(m) == LET p == Opts(m, 11) IN
               IF Len(p) = 1 /\ p[1].val = << >> THEN << >> ELSE [i \in 1..Len(p) |-> p[i].val]
WKSegs == << <<46, 119, 101, 108, 108, 45, 107, 110, 111, 119, 110>>, <<99, 111, 114, 101>> >>

Matching(m, tb) == {i \in 1..Len(tb.res) : tb.res[i].segs = PathSegs(m)}
HandlerCode(r, method) == LET H == {j \in 1..Len(r.methods) : r.methods[j][1] = method} IN
                          IF H = {} THEN -1 ELSE r.methods[CHOOSE j \in H : TRUE][2]
UnknownHandles(m, tb) == tb.unknown.present /\ HandlerCode(tb.unknown, m.code) >= 0

\* No-Response (RFC 7967): bit (class - 1) set => not interested in that class
Suppressed(m, code) == HasOpt(m, 258) /\ Class(code) >= 1 /\ Class(code) <= 5
                       /\ (UInt(Opts(m, 258)[1].val) \div (2 ^ (Class(code) - 1))) % 2 = 1

\* how a response with `code` (0 = the handler set nothing) leaves the endpoint
Sent(m, code, mcast) ==
  IF code = 0 THEN (IF m.ty = CON THEN {<<"emptyack">>} ELSE {<<"none">>})
  ELSE IF Suppressed(m, code) THEN (IF m.ty = CON THEN {<<"emptyack">>} ELSE {<<"none">>})
  ELSE IF mcast /\ Class(code) > 2 /\ ~HasOpt(m, 258) THEN {<<"none">>}        \* RFC 7252 8.1: no error replies to multicast
  ELSE {<<"msg", code>>}
\* a reply the library generates itself: the statement attaches the suppression rules to handler responses only,
\* so for library-made error replies a suppressed and an unsuppressed form are both accepted
ErrSent(m, code, mcast) == Sent(m, code, mcast) \cup (IF mcast THEN {<<"none">>} ELSE {<<"msg", code>>})

Out(h, r) == [h |-> h, r |-> r]
Outs(h, RR) == {Out(h, r) : r \in RR}

Decide(m, tb, mcast) ==
  IF ~IsReqCode(m.code) /\ Class(m.code) \in {1, 6, 7} THEN {Out(<< >>, IF m.ty = CON /\ ~mcast THEN <<"rst">> ELSE <<"none">>)}
  ELSE IF ~IsReqCode(m.code) THEN {}                                              \* Empty messages and responses are not requests: outside C10
  ELSE IF m.ty \in {ACK, RST} THEN {Out(<< >>, <<"none">>)}                      \* a request code in an ACK / RST: ignored
  ELSE IF mcast /\ m.ty # NON THEN {Out(<< >>, <<"none">>)}                       \* RFC 7252 8.1
  ELSE
  LET M == Matching(m, tb)
      found == M # {}
      ri == CHOOSE i \in M : TRUE
      isWK == PathSegs(m) = WKSegs
      proxyOpt == HasOpt(m, 35) \/ HasOpt(m, 39)
      hop == IF HasOpt(m, 16) THEN UInt(Opts(m, 16)[1].val) ELSE -1
      \* ---- rules ------------------------------------------------------------------------------
      rBadOpt == IF BadOption(m, tb)
                 THEN (IF m.ty = NON THEN Outs(<< >>, IF mcast THEN {<<"none">>} ELSE {<<"rst">>})
                       ELSE Outs(<< >>, ErrSent(m, 130, mcast))) ELSE {}                       \* 4.02
      rProxy  == IF proxyOpt /\ ~tb.proxy THEN Outs(<< >>, ErrSent(m, 165, mcast))              \* 5.05
                                              \cup (IF HasOpt(m, 39) /\ ~HasOpt(m, 3) THEN Outs(<< >>, ErrSent(m, 130, mcast)) ELSE {})
                 ELSE {}
      rHop    == IF hop = 1 THEN Outs(<< >>, ErrSent(m, 168, mcast))                             \* 5.08
                 ELSE IF hop = 0 THEN Outs(<< >>, ErrSent(m, 128, mcast)) ELSE {}                \* 4.00
      rNoRes  == IF ~found /\ ~(isWK /\ m.code = GET) /\ ~UnknownHandles(m, tb) /\ ~proxyOpt
                 THEN (IF isWK THEN Outs(<< >>, ErrSent(m, 133, mcast))                          \* .well-known/core has only GET: 4.05
                       ELSE IF m.code = DELETE THEN Outs(<< >>, ErrSent(m, 66, mcast))            \* 2.02
                       ELSE Outs(<< >>, ErrSent(m, 132, mcast))) ELSE {}                          \* 4.04
      wkLib   == isWK /\ ~(tb.unknown.present /\ tb.unknown.wk /\ UnknownHandles(m, tb))   \* .well-known/core served by the library: it exists
      rINM    == IF (found \/ wkLib) /\ HasOpt(m, 5) THEN Outs(<< >>, ErrSent(m, 140, mcast)) ELSE {}       \* 4.12
      rNoHnd  == IF found /\ HandlerCode(tb.res[ri], m.code) < 0 THEN Outs(<< >>, ErrSent(m, 133, mcast)) ELSE {}   \* 4.05
      rFetch  == IF m.code = FETCH /\ ~HasOpt(m, 12) /\ ((found /\ HandlerCode(tb.res[ri], m.code) >= 0) \/ (~found /\ UnknownHandles(m, tb)))
                 THEN Outs(<< >>, ErrSent(m, 143, mcast)) ELSE {}                                 \* 4.15
      errors == rBadOpt \cup rProxy \cup rHop \cup rNoRes \cup rINM \cup rNoHnd \cup rFetch
      \* ---- otherwise: exactly the registered handler, once ------------------------------------
      handled == IF found THEN Outs(<<ri>>, Sent(m, HandlerCode(tb.res[ri], m.code), mcast))
                 ELSE IF isWK /\ m.code = GET /\ ~(tb.unknown.present /\ tb.unknown.wk /\ UnknownHandles(m, tb))
                      THEN Outs(<< >>, Sent(m, 69, mcast))                                        \* the library's own listing, 2.05
                 ELSE IF UnknownHandles(m, tb)
                      THEN Outs(<<0>>, Sent(m, HandlerCode(tb.unknown, m.code), mcast))
                           \* a method other than GET on .well-known/core: "4.05" and "the unknown-resource handler" are both defensible
                           \cup (IF isWK THEN Outs(<< >>, ErrSent(m, 133, mcast)) ELSE {})
                 ELSE {}
  IN IF proxyOpt /\ tb.proxy THEN {}            \* proxying itself is outside C10: not generated
     ELSE IF errors # {} THEN errors ELSE handled
=============================================================================
