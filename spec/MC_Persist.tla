------------------------------ MODULE MC_Persist ------------------------------
(* The file update protocol on a model file system.  disk[f] is what a reader after a kill would see; an open handle
   buffers writes until flush/close; Crash may strike between any two calls.  Invariant: the named file always holds
   the complete old or the complete new content; the new content only ever appears through the atomic rename. *)
EXTENDS Naturals, Sequences, FiniteSets, TLC
CONSTANTS NewRec, InPlace
Old == <<1, 2, 3>>
VARIABLES pc, disk, buf, crashed
vars == <<pc, disk, buf, crashed>>
New == SelectSeq(Old, LAMBDA r : r # NewRec) \o <<NewRec>>      \* records that stay, then the new record
Init == pc = "start" /\ disk = [f \in {"file", "tmp"} |-> IF f = "file" THEN Old ELSE << >>] /\ buf = << >> /\ crashed = FALSE
Target == IF InPlace THEN "file" ELSE "tmp"                     \* InPlace = TRUE: the wrong protocol (rewrite the file itself)
OpenNew  == pc = "start"   /\ pc' = "copy"    /\ disk' = [disk EXCEPT ![Target] = << >>] /\ buf' = << >> /\ UNCHANGED crashed
Copy     == pc = "copy"    /\ pc' = "append"  /\ buf' = SelectSeq(Old, LAMBDA r : r # NewRec) /\ UNCHANGED <<disk, crashed>>
PartialFlush == pc \in {"append", "flush"} /\ Len(buf) > 0 /\ \E n \in 1..Len(buf) :      \* stdio may write its buffer out at any time
                  disk' = [disk EXCEPT ![Target] = SubSeq(buf, 1, n)] /\ UNCHANGED <<pc, buf, crashed>>
AppendRec == pc = "append" /\ pc' = "flush"   /\ buf' = Append(buf, NewRec) /\ UNCHANGED <<disk, crashed>>
Flush    == pc = "flush"   /\ pc' = "close"   /\ disk' = [disk EXCEPT ![Target] = buf] /\ UNCHANGED <<buf, crashed>>
Close    == pc = "close"   /\ pc' = "rename"  /\ UNCHANGED <<disk, buf, crashed>>
Rename   == pc = "rename"  /\ pc' = "done"    /\ disk' = (IF InPlace THEN disk ELSE [disk EXCEPT !["file"] = disk["tmp"]]) /\ UNCHANGED <<buf, crashed>>
Crash    == ~crashed /\ pc # "done" /\ crashed' = TRUE /\ pc' = "dead" /\ UNCHANGED <<disk, buf>>
Next == OpenNew \/ Copy \/ PartialFlush \/ AppendRec \/ Flush \/ Close \/ Rename \/ Crash
Spec == Init /\ [][Next]_vars
OldOrNew == disk["file"] = Old \/ disk["file"] = New
DoneIsNew == pc = "done" => disk["file"] = New
=============================================================================
