-------------------------------- MODULE Persist --------------------------------
(***************************************************************************)
(* Observe persistence (libcoap "persist" support): three files (dynamic   *)
(* resources, observations, observe counters) updated by the protocol      *)
(*   open original (read) - open <file>.tmp (write) - copy the records     *)
(*   that stay - append the new record - flush - close both - rename       *)
(* A process kill loses user-space buffers but not what reached the file   *)
(* system; rename is atomic.  Property C17.                                *)
(*                                                                         *)
(* Part 1: abstract server state after a history of operations (what must  *)
(* exist again after a restart).  Part 2 (MC_Persist): the update protocol *)
(* on a model file system with a crash between any two calls.              *)
(***************************************************************************)
EXTENDS Naturals, Integers, Sequences, FiniteSets, TLC

\* ---- Part 1: histories --------------------------------------------------------------------------------------------
\* op = [k |-> "create"|"delete"|"register"|"cancel"|"change", name, c, tok]
Apply(st, op) ==
  CASE op.k = "create"   -> [st EXCEPT !.res = @ \cup {op.name}]
    [] op.k = "delete"   -> [st EXCEPT !.res = @ \ {op.name}, !.obs = {o \in @ : o[2] # op.name}]
    [] op.k = "register" -> IF op.name \in st.res
                            THEN [st EXCEPT !.obs = {o \in @ : ~(o[1] = op.c /\ o[2] = op.name)} \cup {<<op.c, op.name, op.tok>>}]
                            ELSE st
    [] op.k = "cancel"   -> [st EXCEPT !.obs = {o \in @ : ~(o[1] = op.c /\ o[2] = op.name /\ o[3] = op.tok)}]
    [] OTHER -> st
RECURSIVE After(_, _)
After(ops, j) == IF j = 0 THEN [res |-> {}, obs |-> {}] ELSE Apply(After(ops, j - 1), ops[j])
=============================================================================
