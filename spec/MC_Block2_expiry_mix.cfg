SPECIFICATION Spec
CONSTANTS
  NB = 3
  MaxVersion = 5
  MaxDup = 2
  FreshEtag = TRUE
  CacheMayExpire = TRUE
  RestartKeepsLineage = TRUE
  NoEtagFails = TRUE
  MaxChains = 3
  MaxSent = 11
INVARIANTS ExactBodyI
CONSTRAINT Bound
CHECK_DEADLOCK FALSE
