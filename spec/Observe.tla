-------------------------------- MODULE Observe --------------------------------
(***************************************************************************)
(* RFC 7641 server side as libcoap offers it to applications: observer     *)
(* registration keyed by (client, token / request key), notifications with *)
(* a strictly increasing 24-bit Observe value, at least every sixth one    *)
(* Confirmable, and the ways an observation ends.  Property C11.           *)
(* State is one record; actions are guard + effect so that the trace       *)
(* specification applies them to recorded events.                          *)
(***************************************************************************)
EXTENDS Naturals, Integers, Sequences, FiniteSets, TLC

MaxNon == 5                         \* COAP_OBS_MAX_NON: after five NON the next notification is CON
Half == 8388608                     \* 2^23
Mod == 16777216                     \* 2^24
\* RFC 7641 3.4 serial number arithmetic: b is fresher than a
Fresher(a, b) == (a < b /\ b - a < Half) \/ (a > b /\ a - b > Half)

Put(f, k, v) == [x \in (DOMAIN f) \cup {k} |-> IF x = k THEN v ELSE f[x]]
Drop(f, k) == [x \in (DOMAIN f) \ {k} |-> f[x]]
EmptyFn == [x \in {} |-> 0]

\* key = <<client, resource, query>> ; obs[key] = [tok, last (last Observe value sent, -1 none), non (NON in a row), state (last state sent)]
InitObs(mode) == [obs |-> EmptyFn, mode |-> mode, state |-> EmptyFn, gone |-> {}, maybe |-> {}]
\* maybe: observations whose fate the statement leaves open (a Confirmable notification sent under a token that a re-registration has since
\* replaced was never acknowledged): neither a further notification nor its absence is judged until the client registers or cancels again

Registered(s, k) == k \in DOMAIN s.obs
\* registration (also re-registration: replaces, never duplicates)
Register_do(s, k, tok, val, st) == [s EXCEPT !.obs = Put(@, k, [tok |-> tok, last |-> val, non |-> 0, state |-> st, reg |-> TRUE]), !.maybe = @ \ {k}]     \* reg: 'last' is still the value of the registration response
Deregister_do(s, k) == [s EXCEPT !.obs = Drop(@, k), !.maybe = @ \ {k}]
KeysOfTok(s, c, tok) == {k \in DOMAIN s.obs : k[1] = c /\ s.obs[k].tok = tok}
KeysOfRes(s, r) == {k \in DOMAIN s.obs : k[2] = r}

\* a notification of type ty with Observe value val for key k
Notify_registered(s, k) == Registered(s, k)
Notify_fresh(s, k, val) == s.obs[k].last < 0 \/ Fresher(s.obs[k].last, val)
Notify_type(s, k, con)  == s.mode = 2 \/ con \/ s.obs[k].non < MaxNon        \* the sixth in a row must be Confirmable (unless NON_ALWAYS)
Notify_do(s, k, val, con, st) == [s EXCEPT !.obs[k].last = val, !.obs[k].non = IF con THEN 0 ELSE @ + 1, !.obs[k].state = st, !.obs[k].reg = FALSE]
=============================================================================
