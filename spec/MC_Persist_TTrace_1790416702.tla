---- MODULE MC_Persist_TTrace_1790416702 ----
EXTENDS Sequences, TLCExt, MC_Persist, Toolbox, Naturals, TLC

_expression ==
    LET MC_Persist_TEExpression == INSTANCE MC_Persist_TEExpression
    IN MC_Persist_TEExpression!expression
----

_trace ==
    LET MC_Persist_TETrace == INSTANCE MC_Persist_TETrace
    IN MC_Persist_TETrace!trace
----

_inv ==
    ~(
        TLCGet("level") = Len(_TETrace)
        /\
        buf = (<<>>)
        /\
        disk = ([file |-> <<>>, tmp |-> <<>>])
        /\
        pc = ("copy")
        /\
        crashed = (FALSE)
    )
----

_init ==
    /\ crashed = _TETrace[1].crashed
    /\ buf = _TETrace[1].buf
    /\ pc = _TETrace[1].pc
    /\ disk = _TETrace[1].disk
----

_next ==
    /\ \E i,j \in DOMAIN _TETrace:
        /\ \/ /\ j = i + 1
              /\ i = TLCGet("level")
        /\ crashed  = _TETrace[i].crashed
        /\ crashed' = _TETrace[j].crashed
        /\ buf  = _TETrace[i].buf
        /\ buf' = _TETrace[j].buf
        /\ pc  = _TETrace[i].pc
        /\ pc' = _TETrace[j].pc
        /\ disk  = _TETrace[i].disk
        /\ disk' = _TETrace[j].disk

\* Uncomment the ASSUME below to write the states of the error trace
\* to the given file in Json format. Note that you can pass any tuple
\* to `JsonSerialize`. For example, a sub-sequence of _TETrace.
    \* ASSUME
    \*     LET J == INSTANCE Json
    \*         IN J!JsonSerialize("MC_Persist_TTrace_1790416702.json", _TETrace)

=============================================================================

 Note that you can extract this module `MC_Persist_TEExpression`
  to a dedicated file to reuse `expression` (the module in the 
  dedicated `MC_Persist_TEExpression.tla` file takes precedence 
  over the module `MC_Persist_TEExpression` below).

---- MODULE MC_Persist_TEExpression ----
EXTENDS Sequences, TLCExt, MC_Persist, Toolbox, Naturals, TLC

expression == 
    [
        \* To hide variables of the `MC_Persist` spec from the error trace,
        \* remove the variables below.  The trace will be written in the order
        \* of the fields of this record.
        crashed |-> crashed
        ,buf |-> buf
        ,pc |-> pc
        ,disk |-> disk
        
        \* Put additional constant-, state-, and action-level expressions here:
        \* ,_stateNumber |-> _TEPosition
        \* ,_crashedUnchanged |-> crashed = crashed'
        
        \* Format the `crashed` variable as Json value.
        \* ,_crashedJson |->
        \*     LET J == INSTANCE Json
        \*     IN J!ToJson(crashed)
        
        \* Lastly, you may build expressions over arbitrary sets of states by
        \* leveraging the _TETrace operator.  For example, this is how to
        \* count the number of times a spec variable changed up to the current
        \* state in the trace.
        \* ,_crashedModCount |->
        \*     LET F[s \in DOMAIN _TETrace] ==
        \*         IF s = 1 THEN 0
        \*         ELSE IF _TETrace[s].crashed # _TETrace[s-1].crashed
        \*             THEN 1 + F[s-1] ELSE F[s-1]
        \*     IN F[_TEPosition - 1]
    ]

=============================================================================



Parsing and semantic processing can take forever if the trace below is long.
 In this case, it is advised to uncomment the module below to deserialize the
 trace from a generated binary file.

\*
\*---- MODULE MC_Persist_TETrace ----
\*EXTENDS IOUtils, MC_Persist, TLC
\*
\*trace == IODeserialize("MC_Persist_TTrace_1790416702.bin", TRUE)
\*
\*=============================================================================
\*

---- MODULE MC_Persist_TETrace ----
EXTENDS MC_Persist, TLC

trace == 
    <<
    ([buf |-> <<>>,disk |-> [file |-> <<1, 2, 3>>, tmp |-> <<>>],pc |-> "start",crashed |-> FALSE]),
    ([buf |-> <<>>,disk |-> [file |-> <<>>, tmp |-> <<>>],pc |-> "copy",crashed |-> FALSE])
    >>
----


=============================================================================

---- CONFIG MC_Persist_TTrace_1790416702 ----
CONSTANTS
    NewRec = 2
    InPlace = TRUE

INVARIANT
    _inv

CHECK_DEADLOCK
    \* CHECK_DEADLOCK off because of PROPERTY or INVARIANT above.
    FALSE

INIT
    _init

NEXT
    _next

CONSTANT
    _TETrace <- _trace

ALIAS
    _expression
=============================================================================
\* Generated on Sat Sep 26 09:58:22 UTC 2026