------------------------------- MODULE Oscore -------------------------------
(***************************************************************************)
(* RFC 8613 (OSCORE), transcribed from the RFC, not from libcoap:          *)
(*   section 4.1   which options are encrypted (class E) and which stay    *)
(*                 outside (class U)                                        *)
(*   section 5.2   nonce          section 5.3 plaintext    5.4 AAD          *)
(*   section 6.1   the compressed COSE object in the OSCORE option          *)
(*   section 4.2   outer code                                               *)
(* Byte strings are sequences of 0..255; options are records [num, val].    *)
(* The AEAD primitive (AES-CCM-16-64-128) and HKDF are not transcribed:     *)
(* the primitive's inputs are compared at the seam, keys come from an       *)
(* independent HKDF (the check's Python).                                   *)
(***************************************************************************)
EXTENDS CoapWire, Bitwise

\* ---- section 4.1, Figure 5 ------------------------------------------------
ClassU == {3, 7, 16, 39}             \* Uri-Host, Uri-Port, Hop-Limit (RFC 8768), Proxy-Scheme: outer only
OscoreOpt == 9
BothEU == {6}                        \* Observe: inner and outer
MayAlsoBeOuter == {14, 23, 27, 28, 60, 258}   \* Max-Age, Block2, Block1, Size2, Size1, No-Response: inner; an outer instance is a matter of the sender
IsInner(num) == num \notin ClassU /\ num # OscoreOpt
InnerOpts(opts) == SelectSeq(opts, LAMBDA o : IsInner(o.num))
HasObserve(opts) == \E i \in 1..Len(opts) : opts[i].num = 6

\* ---- section 5.3 ------------------------------------------------------------
Plaintext(code, opts, pl) == <<code>> \o EncOpts(InnerOpts(opts)) \o (IF pl = << >> THEN << >> ELSE <<255>> \o pl)

\* section 4.1.3.5.2: in a response the inner Observe option is empty, the sequence value travels in the outer one
EmptyObserve(opts) == [i \in 1..Len(opts) |-> IF opts[i].num = 6 THEN [num |-> 6, val |-> << >>] ELSE opts[i]]
PlaintextResponse(code, opts, pl) == <<code>> \o EncOpts(EmptyObserve(InnerOpts(opts))) \o (IF pl = << >> THEN << >> ELSE <<255>> \o pl)
\* the option list with an Observe option put where it belongs (the library adds it to registration responses and notifications)
WithObserve(opts) == LET k == Cardinality({i \in 1..Len(opts) : opts[i].num <= 6})
                     IN IF HasObserve(opts) THEN opts
                        ELSE SubSeq(opts, 1, k) \o <<[num |-> 6, val |-> << >>]>> \o SubSeq(opts, k + 1, Len(opts))
WithoutObserve(opts) == SelectSeq(opts, LAMBDA o : o.num # 6)

\* ---- CBOR (RFC 8949), as far as needed ----------------------------------------
Bstr(b) == IF Len(b) < 24 THEN <<64 + Len(b)>> \o b
           ELSE IF Len(b) < 256 THEN <<88, Len(b)>> \o b
           ELSE <<89, Len(b) \div 256, Len(b) % 256>> \o b
\* ---- section 5.4: external_aad = bstr .cbor [1, [alg_aead = 10], request_kid, request_piv, options = h''] ----
ExternalAad(kid, piv) == <<133, 1, 129, 10>> \o Bstr(kid) \o Bstr(piv) \o <<64>>
\* Enc_structure = ["Encrypt0", h'', external_aad]
Aad(kid, piv) == <<131, 104, 69, 110, 99, 114, 121, 112, 116, 48, 64>> \o Bstr(ExternalAad(kid, piv))

\* ---- section 5.2 (nonce length 13) ----------------------------------------------
PadLeft(b, n) == [i \in 1..n |-> IF i <= n - Len(b) THEN 0 ELSE b[i - (n - Len(b))]]
XorSeq(a, b) == [i \in 1..Len(a) |-> a[i] ^^ b[i]]
Nonce(idPiv, piv, commonIv) == XorSeq(<<Len(idPiv)>> \o PadLeft(idPiv, 7) \o PadLeft(piv, 5), commonIv)

\* ---- section 6.1: flag byte 0 0 0 h k n n n, Partial IV, [s, kid context], kid ----
OptionValueRequest(piv, kid, idctx, hasIdctx) ==
  <<Len(piv) + 8 + (IF hasIdctx THEN 16 ELSE 0)>> \o piv \o (IF hasIdctx THEN <<Len(idctx)>> \o idctx ELSE << >>) \o kid
\* a response that uses the request's nonce carries an empty option value
OptionValueResponse == << >>
\* a response with its own Partial IV (notifications, section 8.3): flag byte, Partial IV, optionally the responder's kid
OptionValueResponsePiv(piv, kid, withKid) == <<Len(piv) + (IF withKid THEN 8 ELSE 0)>> \o piv \o (IF withKid THEN kid ELSE << >>)
\* decompose a received option value (for reading the Partial IV off the wire)
PivOf(v) == IF v = << >> THEN << >> ELSE SubSeq(v, 2, 1 + (v[1] % 8))

\* ---- section 4.2 -----------------------------------------------------------------
OuterCodeRequest(opts) == IF HasObserve(opts) THEN 5 ELSE 2
OuterCodeResponse(opts) == IF HasObserve(opts) THEN 69 ELSE 68

\* ---- what may be seen outside -----------------------------------------------------
\* every outer option other than the OSCORE option is a class U option of the original, Observe, or one of the options that may
\* be repeated outside; every class U option of the original is outside
OuterOk(outer, orig) ==
  /\ \A i \in 1..Len(outer) : outer[i].num = OscoreOpt \/ outer[i].num \in MayAlsoBeOuter
        \/ (outer[i].num \in ClassU \cup BothEU /\ \E j \in 1..Len(orig) : orig[j].num = outer[i].num)
  /\ \A j \in 1..Len(orig) : orig[j].num \in ClassU => \E i \in 1..Len(outer) : outer[i] = orig[j]
  /\ Cardinality({i \in 1..Len(outer) : outer[i].num = OscoreOpt}) = 1
OscoreValue(outer) == LET i == CHOOSE i \in 1..Len(outer) : outer[i].num = OscoreOpt IN outer[i].val
=============================================================================
