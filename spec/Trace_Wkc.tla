------------------------------ MODULE Trace_Wkc ------------------------------
(***************************************************************************)
(* Trace specification for C20: the listings, windows and block-wise GETs  *)
(* produced by the real libcoap (harness/drv_wkc.c) judged with Wkc.       *)
(***************************************************************************)
EXTENDS Wkc, Json, IOUtils

TraceLog == ndJsonDeserialize(IOEnv.TRACE)
OutFile  == IOEnv.OUT
VARIABLES l, rej, cur, skip, table, links, L, nexec, nwin, nfilt, nunclear
vars == <<l, rej, cur, skip, table, links, L, nexec, nwin, nfilt, nunclear>>

NoLinks == << <<-1>> >>

JudgeFull(e) ==
  IF e.err # 0 THEN [why |-> "C20:print-reported-error", links |-> links, L |-> L]
  ELSE IF ~e.hasf
  THEN LET r == Render(table, 1, e.out, 1, << >>) IN
       IF r = NoLinks THEN [why |-> "C20:listing-is-not-exactly-the-registered-resources", links |-> r, L |-> e.out]
       ELSE IF e.total # Len(e.out) \/ e.trunc THEN [why |-> "C20:total-or-flag-wrong-for-full-listing", links |-> r, L |-> e.out]
       ELSE [why |-> "", links |-> r, L |-> e.out]
  ELSE IF links = NoLinks THEN [why |-> "HARNESS:filter-before-full-listing", links |-> links, L |-> e.out]
  ELSE IF ~FilterClear(e.filter) THEN [why |-> "-", links |-> links, L |-> e.out]
  ELSE LET x == Listing(table, links, TRUE, e.filter) IN
       IF e.out # x THEN [why |-> "C20:filtered-listing-differs", links |-> links, L |-> x]
       ELSE IF e.total # Len(x) \/ e.trunc THEN [why |-> "C20:total-or-flag-wrong-for-full-listing", links |-> links, L |-> x]
       ELSE [why |-> "", links |-> links, L |-> x]

JudgeWin(e) ==
  IF e.err # 0 THEN "C20:print-reported-error"
  ELSE IF e.out # Window(L, e.off, e.n) \/ e.len # Len(Window(L, e.off, e.n)) THEN "C20:window-bytes-differ"
  ELSE IF e.total # Len(L) THEN "C20:reported-total-length-wrong"
  ELSE IF e.n > 0 /\ e.trunc # Trunc(L, e.off, e.n) THEN "C20:truncation-flag-wrong"
  ELSE ""

JudgeGet(e) ==
  IF links = NoLinks THEN "HARNESS:get-before-full-listing"
  ELSE IF e.hasf /\ ~FilterClear(e.filter) THEN "-"
  ELSE LET x == Listing(table, links, e.hasf, e.filter) IN
       IF e.ok # 1 THEN "C20:blockwise-get-failed"
       ELSE IF e.body # x THEN "C20:blockwise-get-body-differs-from-listing"
       ELSE ""

Init == /\ l = 1 /\ rej = << >> /\ cur = -1 /\ skip = TRUE /\ table = << >> /\ links = NoLinks /\ L = << >>
        /\ nexec = 0 /\ nwin = 0 /\ nfilt = 0 /\ nunclear = 0

Consume ==
  /\ l <= Len(TraceLog)
  /\ LET e == TraceLog[l] IN
     CASE e.e = "Reset" ->
            /\ cur' = e.id /\ skip' = FALSE /\ table' = << >> /\ links' = NoLinks /\ L' = << >> /\ nexec' = nexec + 1
            /\ UNCHANGED <<rej, nwin, nfilt, nunclear>>
       [] e.e = "Table" /\ ~skip ->
            /\ table' = e.res /\ UNCHANGED <<rej, cur, skip, links, L, nexec, nwin, nfilt, nunclear>>
       [] e.e = "Full" /\ ~skip ->
            LET j == JudgeFull(e) IN
            /\ links' = j.links /\ L' = j.L
            /\ rej' = IF j.why \in {"", "-"} THEN rej ELSE Append(rej, [id |-> cur, line |-> l, why |-> j.why])
            /\ skip' = (j.why \notin {"", "-"})
            /\ nfilt' = nfilt + 1 /\ nunclear' = IF j.why = "-" THEN nunclear + 1 ELSE nunclear
            /\ UNCHANGED <<cur, table, nexec, nwin>>
       [] e.e = "Win" /\ ~skip ->
            LET w == JudgeWin(e) IN
            /\ rej' = IF w = "" THEN rej ELSE Append(rej, [id |-> cur, line |-> l, why |-> w])
            /\ skip' = (w # "") /\ nwin' = nwin + 1
            /\ UNCHANGED <<cur, table, links, L, nexec, nfilt, nunclear>>
       [] e.e = "Get" /\ ~skip ->
            LET g == JudgeGet(e) IN
            /\ rej' = IF g \in {"", "-"} THEN rej ELSE Append(rej, [id |-> cur, line |-> l, why |-> g])
            /\ nunclear' = IF g = "-" THEN nunclear + 1 ELSE nunclear
            /\ UNCHANGED <<cur, skip, table, links, L, nexec, nwin, nfilt>>
       [] e.e = "Crash" ->
            /\ rej' = Append(rej, [id |-> cur, line |-> l, why |-> "C20:driver-crashed"]) /\ skip' = TRUE
            /\ UNCHANGED <<cur, table, links, L, nexec, nwin, nfilt, nunclear>>
       [] OTHER -> UNCHANGED <<rej, cur, skip, table, links, L, nexec, nwin, nfilt, nunclear>>
  /\ l' = l + 1

Finish ==
  /\ l = Len(TraceLog) + 1
  /\ JsonSerialize(OutFile, [rejected |-> rej, executions |-> nexec, discarded |-> 0, known |-> {}, lines |-> Len(TraceLog),
                             windows |-> nwin, listings |-> nfilt, outside_defined_filters |-> nunclear])
  /\ l' = l + 1 /\ UNCHANGED <<rej, cur, skip, table, links, L, nexec, nwin, nfilt, nunclear>>
Next == Consume \/ Finish
Spec == Init /\ [][Next]_vars
=============================================================================
