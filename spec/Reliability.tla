------------------------------ MODULE Reliability ------------------------------
(***************************************************************************)
(* Message layer of a CoAP endpoint on a datagram transport (RFC 7252 §4)  *)
(* as libcoap implements it on the sending side: Confirmable transmission, *)
(* retransmission with binary exponential back-off, NSTART and the per     *)
(* session FIFO of held messages, the four ways a Confirmable ends, and    *)
(* (fields ex/seen*, used by module Exchange) the request/response layer.  *)
(*                                                                         *)
(* Style (DESIGN.md §2.5/§2.7): the state is ONE record; every critical    *)
(* section of the code is one action given as a guard  X_ok(st, args)  and *)
(* a pure effect  X_do(st, args).  The closed model (MC_Reliability) turns *)
(* them into TLA+ actions  X_ok(st,a) /\ st' = X_do(st,a)  with an         *)
(* explicit lossy/duplicating environment; the trace specification         *)
(* (Trace_Msg) applies the SAME guards and effects to the events recorded  *)
(* from the real code.  Properties C06 / C07 / C08 are the guards (what    *)
(* may happen) plus obligations (`owed`: what must happen before time      *)
(* passes) plus the invariants at the end of this module.                  *)
(***************************************************************************)
EXTENDS Naturals, Integers, Sequences, FiniteSets, TLC

CON == 0
NON == 1
ACK == 2
RST == 3

NackTooManyRetries == 0
NackNotDeliverable == 1
NackRst            == 2

EmptyFn == [x \in {} |-> 0]
Drop(f, k) == [x \in (DOMAIN f) \ {k} |-> f[x]]
Put(f, k, v) == [x \in (DOMAIN f) \cup {k} |-> IF x = k THEN v ELSE f[x]]
Pow2(n) == 2 ^ n
Max(a, b) == IF a > b THEN a ELSE b

(***************************************************************************)
(* cfg = [ackMin, ackMax, tol, maxRtx, nstart, sess]                        *)
(*   T is drawn once per message from [ackMin, ackMax] (ms); tol is the    *)
(*   fixed-point rounding tolerance of the implementation's Q6 arithmetic. *)
(***************************************************************************)
InitState(cfg, t0) ==
  [ now   |-> t0,
    cfg   |-> cfg,
    fl    |-> EmptyFn,   \* in flight:  <<s,mid>> -> [tok, sig, t0, last, T, cnt]
    held  |-> [s \in cfg.sess |-> << >>],  \* FIFO of [mid, ty, tok, sig] not yet transmitted
    out   |-> EmptyFn,   \* concluded:  <<s,mid>> -> "acked" | "rst" | "giveup" | "resp"
    owed  |-> {},        \* obligations to be discharged before time passes
    pend  |-> << >>,     \* message inside an application send call: <<[s,mid,ty,tok]>> or <<>>
    ex    |-> EmptyFn,   \* exchanges:  <<s,tok>> -> [st, mid]   st \in {"open","resp","nack"}
    seenCon |-> [s \in cfg.sess |-> {}],   \* mids of Confirmable responses already received
    seenAck |-> [s \in cfg.sess |-> {}],   \* mids of piggybacked responses already received
    failCon |-> [s \in cfg.sess |-> {}],   \* mids of Confirmable responses the handler rejected (FAIL)
    c07     |-> TRUE,    \* the preconditions of C07 held so far (one exchange outstanding per session, ...)
    broken  |-> FALSE,   \* an assumption of the property statement was violated by the environment
    nConcl  |-> EmptyFn, \* ghost: <<s,tok>> -> number of conclusions (handler call or NACK)
    nNack   |-> EmptyFn, \* ghost: <<s,mid>> -> number of NACK handler calls
    pings   |-> {}       \* <<s,mid>> of the keepalive pings (Empty Confirmable messages) the library sent of its own accord
  ]

InFl(st, s)   == {k \in DOMAIN st.fl : k[1] = s}
SlotFree(st, s) == Cardinality(InFl(st, s)) < st.cfg.nstart

\* Earliest and latest instant at which the next transmission of e may happen.
DueLo(st, e) == IF e.T = 0 THEN e.t0 + st.cfg.ackMin - st.cfg.tol ELSE e.last + e.T * Pow2(e.cnt)
DueHi(st, e) == IF e.T = 0 THEN e.t0 + st.cfg.ackMax + st.cfg.tol ELSE e.last + e.T * Pow2(e.cnt)
MinDueHi(st)  == LET D == {DueHi(st, st.fl[k]) : k \in DOMAIN st.fl}
                 IN  CHOOSE d \in D : \A x \in D : d <= x

Owe(st, o)      == [st EXCEPT !.owed = @ \cup {o}]
Discharge(st, o) == [st EXCEPT !.owed = @ \ {o}]
ONack(s, mid, r) == [k |-> "nack", s |-> s, mid |-> mid, x |-> r]
OAck(s, mid)     == [k |-> "ack",  s |-> s, mid |-> mid, x |-> 0]
ORst(s, mid)     == [k |-> "rst",  s |-> s, mid |-> mid, x |-> 0]
ODeliver(s, mid, ty) == [k |-> "deliver", s |-> s, mid |-> mid, x |-> ty]

Bump(f, k) == Put(f, k, IF k \in DOMAIN f THEN f[k] + 1 ELSE 1)

----------------------------------------------------------------------------
(* Application submits a message: coap_send()                               *)
Submit_ok(st, m) ==
  /\ st.pend = << >>
  /\ <<m.s, m.mid>> \notin DOMAIN st.fl
  /\ <<m.s, m.mid>> \notin DOMAIN st.out
Submit_do(st, m) ==
  LET busy == \E x \in DOMAIN st.ex : x[1] = m.s /\ st.ex[x].st = "open"
      s1 == [st EXCEPT !.pend = <<m>>, !.c07 = @ /\ ~busy]
  IN  IF m.req
      THEN [s1 EXCEPT !.ex = Put(@, <<m.s, m.tok>>,
                 [st |-> "open", mid |-> m.mid, con |-> (m.ty = CON), seq |-> Cardinality(DOMAIN st.ex)])]
      ELSE s1

(* First transmission of a Confirmable: coap_send_pdu() + coap_wait_ack().  *)
(* C08: only while fewer than NSTART Confirmables are in flight.            *)
StartTx(st, s, mid, tok, sig) ==
  [st EXCEPT !.fl = Put(@, <<s, mid>>,
       [tok |-> tok, sig |-> sig, t0 |-> st.now, last |-> st.now, T |-> 0, cnt |-> 0])]

FirstTx_ok(st, s, mid) ==
  /\ st.pend # << >> /\ st.pend[1].s = s /\ st.pend[1].mid = mid /\ st.pend[1].ty = CON
  /\ st.held[s] = << >>
FirstTx_nstart(st, s) == SlotFree(st, s)          \* C08
FirstTx_do(st, s, mid, sig) ==
  [StartTx(st, s, mid, st.pend[1].tok, sig) EXCEPT !.pend = << >>]

(* Keepalive (coap_context_set_keepalive): an idle client session sends an  *)
(* Empty Confirmable message of its own accord: coap_session_send_ping().   *)
(* It is a Confirmable like any other - retransmitted, and it occupies one  *)
(* of the session's NSTART slots (C08) - except that the Reset that answers *)
(* it (the "pong") is its regular end: no NACK.                             *)
Ping_ok(st, s, mid) == st.pend = << >> /\ <<s, mid>> \notin DOMAIN st.fl /\ <<s, mid>> \notin DOMAIN st.out /\ st.held[s] = << >>
Ping_nstart(st, s) == SlotFree(st, s)             \* C08
Ping_do(st, s, mid, tok, sig) == [StartTx(st, s, mid, tok, sig) EXCEPT !.pings = @ \cup {<<s, mid>>}]

(* A Non-confirmable is transmitted inside the call, never held for NSTART. *)
NonTx_ok(st, s, mid) ==
  st.pend # << >> /\ st.pend[1].s = s /\ st.pend[1].mid = mid /\ st.pend[1].ty = NON
NonTx_do(st) == [st EXCEPT !.pend = << >>]

(* The send call returns without having transmitted: coap_session_delay_pdu *)
(* C08: allowed only for a Confirmable beyond the NSTART limit.             *)
Hold_ok(st) == st.pend # << >> /\ st.pend[1].ty = CON
               /\ (~SlotFree(st, st.pend[1].s) \/ st.held[st.pend[1].s] # << >>)
Hold_do(st, sig) ==
  LET m == st.pend[1]
  IN [st EXCEPT !.held[m.s] = Append(@, [mid |-> m.mid, ty |-> m.ty, tok |-> m.tok, sig |-> sig]),
                !.pend = << >>]

(* A held Confirmable goes out: coap_session_connected(); FIFO, head only.  *)
ReleaseHeld_ok(st, s, mid) ==
  /\ st.held[s] # << >> /\ Head(st.held[s]).mid = mid
ReleaseHeld_nstart(st, s) == SlotFree(st, s)      \* C08
ReleaseHeld_do(st, s, sig) ==
  LET h == Head(st.held[s])
  IN [StartTx(st, s, h.mid, h.tok, sig) EXCEPT !.held[s] = Tail(@)]
Releasable(st, s) == st.held[s] # << >> /\ SlotFree(st, s)

(* Retransmission: coap_retransmit().  C06: same bytes, on schedule, at     *)
(* most MAX_RETRANSMIT times, T drawn once (fixed by the first one).        *)
Retransmit_known(st, k)  == k \in DOMAIN st.fl
Retransmit_bytes(st, k, sig) == st.fl[k].sig = sig
Retransmit_count(st, k)  == st.fl[k].cnt < st.cfg.maxRtx
Retransmit_time(st, k)   == DueLo(st, st.fl[k]) <= st.now /\ st.now <= DueHi(st, st.fl[k])
Retransmit_do(st, k) ==
  LET e == st.fl[k]
      T == IF e.T = 0 THEN st.now - e.t0 ELSE e.T
  IN [st EXCEPT !.fl[k] = [e EXCEPT !.T = T, !.cnt = e.cnt + 1, !.last = st.now]]

(* Conclusions of a Confirmable.                                            *)
Conclude(st, k, how) == [st EXCEPT !.fl = Drop(@, k), !.out = Put(@, k, how)]

(* Give up: the (MAX_RETRANSMIT+1)-th deadline passes; exactly one NACK.    *)
GiveUp_ok(st, k) == /\ k \in DOMAIN st.fl /\ st.fl[k].cnt = st.cfg.maxRtx
                    /\ DueLo(st, st.fl[k]) <= st.now /\ st.now <= DueHi(st, st.fl[k])
GiveUp_do(st, k) == Conclude(st, k, "giveup")

(* Empty ACK / RST received from the peer of session s with message id mid. *)
RxAck_do(st, s, mid) ==
  IF <<s, mid>> \in DOMAIN st.fl THEN Conclude(st, <<s, mid>>, "acked") ELSE st
RxRst_do(st, s, mid) ==
  IF <<s, mid>> \in DOMAIN st.fl
  THEN IF <<s, mid>> \in st.pings THEN Conclude(st, <<s, mid>>, "rst")       \* pong
       ELSE Owe(Conclude(st, <<s, mid>>, "rst"), ONack(s, mid, NackRst))
  ELSE st

(* NACK handler called.  C06: only when owed, i.e. once per concluded CON.  *)
Nack_ok(st, s, mid, r) == ONack(s, mid, r) \in st.owed
NackExchange(st, s, mid) ==   \* the exchange (if any) this message opened is concluded by the NACK
  LET K == {x \in DOMAIN st.ex : x[1] = s /\ st.ex[x].mid = mid /\ st.ex[x].st = "open"}
  IN [st EXCEPT !.ex = [x \in DOMAIN st.ex |-> IF x \in K THEN [st.ex[x] EXCEPT !.st = "nack"] ELSE st.ex[x]],
                !.nConcl = [x \in DOMAIN st.nConcl \cup K |->
                              (IF x \in DOMAIN st.nConcl THEN st.nConcl[x] ELSE 0) + (IF x \in K THEN 1 ELSE 0)]]
Nack_do(st, s, mid, r) ==
  LET s1 == Discharge(st, ONack(s, mid, r))
      s2 == [s1 EXCEPT !.nNack = Bump(@, <<s, mid>>)]
  IN NackExchange(s2, s, mid)

(* Time.  C06: time never passes a deadline (the retransmission or the      *)
(* give-up happens when due), nor an undischarged obligation, nor (C08) a   *)
(* held message that could go out.                                          *)
Tick_ok(st, t) ==
  /\ t > st.now
  /\ st.owed = {}
  /\ st.pend = << >>
  /\ \A k \in DOMAIN st.fl : st.now < DueHi(st, st.fl[k])   \* nothing is due now
  /\ \A k \in DOMAIN st.fl : t <= DueHi(st, st.fl[k])
Tick_noheld(st) == \A s \in st.cfg.sess : ~Releasable(st, s)   \* C08
Tick_do(st, t) == [st EXCEPT !.now = t]

(* The wait the library reports to its caller (epoll_wait timeout).         *)
(* C06: never beyond the earliest pending deadline; -1 means forever.       *)
Io_ok(st, wait) ==
  DOMAIN st.fl = {} \/ (wait >= 0 /\ st.now + wait <= MinDueHi(st))

----------------------------------------------------------------------------
(* Invariants (checked on the closed model and in every state of a trace)   *)
NstartBound == TRUE  \* placeholder, instantiated with the state variable in MC/Trace modules
NstartBoundS(st) == \A s \in st.cfg.sess : Cardinality(InFl(st, s)) <= st.cfg.nstart
OneOutcomeS(st)  == (DOMAIN st.fl) \cap (DOMAIN st.out) = {}
NeverLateS(st)   == \A k \in DOMAIN st.fl : st.now <= DueHi(st, st.fl[k])
OneNackS(st)     == \A k \in DOMAIN st.nNack : st.nNack[k] <= 1
ConcludeOnceS(st) == \A x \in DOMAIN st.nConcl : st.nConcl[x] <= 1
CountBoundS(st)  == \A k \in DOMAIN st.fl : st.fl[k].cnt <= st.cfg.maxRtx
=============================================================================
