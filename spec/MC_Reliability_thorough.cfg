SPECIFICATION Spec
CONSTANTS
  NSess = 1
  NMsg = 2
  MaxRtx = 2
  Nstart = 1
  AckMin = 2
  AckMax = 3
  MaxTime = 14
  MaxDup = 1
  SubmitUntil = 1
  OneDeepMemory = FALSE
  MaxPings = 0
INVARIANTS NstartBoundI OneOutcomeI NeverLateI OneNackI CountBoundI ConcludeOnceI HeldFifoI
CONSTRAINT NotBrokenI
CHECK_DEADLOCK FALSE
