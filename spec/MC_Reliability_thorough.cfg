SPECIFICATION Spec
CONSTANTS
  NSess = 1
  NMsg = 3
  MaxRtx = 1
  Nstart = 1
  AckMin = 2
  AckMax = 3
  MaxTime = 10
  MaxDup = 1
  SubmitUntil = 1
INVARIANTS NstartBoundI OneOutcomeI NeverLateI OneNackI CountBoundI ConcludeOnceI HeldFifoI
CONSTRAINT NotBrokenI
CHECK_DEADLOCK FALSE
