---------------------------- MODULE Trace_Stream ----------------------------
(* Trace specification for C05 (TCP framing): what the real stream reader delivered for a chunked stream
   (harness/drv_stream.c) must equal Stream!Obs of the concatenated bytes, whatever the chunking. *)
EXTENDS Stream, Json, IOUtils
TraceLog == ndJsonDeserialize(IOEnv.TRACE)
OutFile  == IOEnv.OUT
VARIABLES l, rej, cur, w, max, seen, nexec, nund, ws, http, srv, hostile,
          wr      \* what the library wrote to the stream after its handshake response (drivers started with wr=1; << >> otherwise)
vars == <<l, rej, cur, w, max, seen, nexec, nund, ws, http, srv, hostile, wr>>

ObsOf(e) == CASE e.e = "Req" -> <<"req", e.code, e.tok, e.pl>> [] e.e = "Pong" -> <<"pong", e.tok>> [] e.e = "Closed" -> <<"closed">>

Judge ==
  LET x == IF hostile THEN <<<<"undecidable">>>> ELSE IF ws THEN ObsWSH(w, srv) ELSE Obs(w, max)      \* hostile: only robustness is judged (C02)
      und == \E i \in 1..Len(x) : x[i][1] \in {"undecidable", "either"}
  IN IF und THEN "-"
     ELSE IF seen = x THEN ""
     ELSE IF Len(seen) < Len(x) /\ seen = SubSeq(x, 1, Len(seen)) THEN "C05:messages-lost-from-the-stream"
     ELSE IF Len(seen) > Len(x) /\ x = SubSeq(seen, 1, Len(x)) THEN "C05:messages-delivered-that-are-not-in-the-stream"
     ELSE "C05:delivered-messages-differ-from-the-stream"

Init == l = 1 /\ rej = << >> /\ cur = -1 /\ w = << >> /\ max = 0 /\ seen = << >> /\ nexec = 0 /\ nund = 0 /\ ws = FALSE /\ http = 0 /\ srv = TRUE /\ hostile = FALSE /\ wr = << >>
Consume ==
  /\ l <= Len(TraceLog)
  /\ LET e == TraceLog[l] IN
     CASE e.e = "Reset" -> cur' = e.id /\ max' = e.max /\ w' = << >> /\ seen' = << >> /\ ws' = (e.proto = "ws") /\ http' = e.http /\ srv' = (e.role = "s") /\ hostile' = (e.hostile = 1) /\ wr' = << >> /\ UNCHANGED <<rej, nexec, nund>>
       [] e.e = "Stream" -> w' = e.w /\ UNCHANGED <<rej, cur, max, seen, nexec, nund, ws, http, srv, hostile, wr>>
       [] e.e \in {"Req", "Pong", "Closed"} -> seen' = Append(seen, ObsOf(e)) /\ UNCHANGED <<rej, cur, w, max, nexec, nund, ws, http, srv, hostile, wr>>
       [] e.e = "Wr" -> wr' = wr \o e.b /\ UNCHANGED <<rej, cur, w, max, seen, nexec, nund, ws, http, srv, hostile>>
       [] e.e = "End" -> LET v0 == Judge
                             \* the write side (C01): every response the server wrote is one well-formed frame around one well-formed message, as many as it answered
                             nans == Cardinality({i \in 1..Len(seen) : seen[i][1] \in {"req", "pong"}})
                             v == IF v0 \in {"", "-"} /\ ws /\ srv /\ ~hostile /\ wr # << >> /\ WsWritten(wr, 1, 0) < nans + 1
                                  THEN "C01:websocket-frames-written-by-the-server-are-not-well-formed-or-incomplete" ELSE v0 IN
                         /\ rej' = IF v \in {"", "-"} THEN rej ELSE Append(rej, [id |-> cur, line |-> l, why |-> v])
                         /\ nexec' = nexec + 1 /\ nund' = IF v = "-" THEN nund + 1 ELSE nund
                         /\ UNCHANGED <<cur, w, max, seen, ws, http, srv, hostile, wr>>
       [] e.e = "Crash" -> rej' = Append(rej, [id |-> cur, line |-> l, why |-> "C05:driver-crashed"]) /\ UNCHANGED <<cur, w, max, seen, nexec, nund, ws, http, srv, hostile, wr>>
       [] OTHER -> UNCHANGED <<rej, cur, w, max, seen, nexec, nund, ws, http, srv, hostile, wr>>
  /\ l' = l + 1
Finish == /\ l = Len(TraceLog) + 1
          /\ JsonSerialize(OutFile, [rejected |-> rej, executions |-> nexec, discarded |-> nund, known |-> {}, lines |-> Len(TraceLog)])
          /\ l' = l + 1 /\ UNCHANGED <<rej, cur, w, max, seen, nexec, nund, ws, http, srv, hostile, wr>>
Next == Consume \/ Finish
Spec == Init /\ [][Next]_vars
=============================================================================
