---------------------------- MODULE Trace_Server ----------------------------
(***************************************************************************)
(* Trace specification for C10: every request datagram injected into the   *)
(* real libcoap server (harness/drv_srv.c), the handler invocations and    *)
(* the datagrams it emitted in reaction, judged with Server!Decide on the  *)
(* reference decoding (CoapWire!DecUDP) of the raw request bytes.          *)
(***************************************************************************)
EXTENDS Server, Uri, Json, IOUtils

TraceLog == ndJsonDeserialize(IOEnv.TRACE)
OutFile  == IOEnv.OUT
VARIABLES l, rej, cur, skip, tb, req, mcast, hs, rs, nreq, nmulti,
          peer,      \* who sent the request under judgement
          pend,      \* deferred answers: [peer, tok, ty, res, rel] - the handler registered an async entry and set nothing; rel: released (the
                     \* application triggered it, or it is timed)
          dfr,       \* entries for which the handler has run to give the deferred answer and whose answer has not reached the peer yet (a Confirmable
                     \* answer may be held behind another one: NSTART)
          ndef,      \* deferred answers judged
          isrep      \* the request under judgement repeats one whose answer was pending when it arrived
vars == <<l, rej, cur, skip, tb, req, mcast, hs, rs, nreq, nmulti, peer, pend, dfr, ndef, isrep>>
AllVars == <<rej, cur, skip, tb, req, mcast, hs, rs, nreq, nmulti, peer, pend, dfr, ndef, isrep>>

Reject(why, n) == Append(rej, [id |-> cur, line |-> l, why |-> why, n |-> n])
\* the datagram that follows a handler run for a deferred answer x
DeferredWhy(x, w) ==
  LET d == DecUDP(w) IN
  IF d.ok # "ok" THEN "C10:reply-is-malformed"
  ELSE IF d.m.ty \in {ACK, RST} THEN "C10:deferred-answer-sent-as-acknowledgement-or-reset"       \* the request was acknowledged when it was deferred; a NON is never ACKed
  ELSE IF d.m.tok # x.tok THEN "C10:reply-does-not-echo-the-token"
  ELSE IF d.m.code # 69 THEN "C10:deferred-answer-is-not-what-the-handler-set"
  ELSE ""
\* a datagram that reaches a peer is the deferred answer of an entry whose handler has run: a response (not an acknowledgement) under that token
IsDeferredAnswer(e) ==
  dfr # {} /\ LET d == DecUDP(e.w) IN d.ok = "ok" /\ d.m.code >= 64 /\ d.m.ty \in {CON, NON} /\ \E y \in dfr : y.peer = e.peer /\ y.tok = d.m.tok
TableOf(e) == [res |-> e.res, unknown |-> e.unknown, proxy |-> e.proxy, known |-> {e.known[i] : i \in 1..Len(e.known)}]

ReplyKind(m, r) ==   \* classify an emitted datagram r (decoded) relative to request m
  IF r.code = 0 /\ r.ty = ACK THEN <<"emptyack">>
  ELSE IF r.ty = RST THEN <<"rst">>
  ELSE <<"msg", r.code>>

\* the shape rules of the statement for a direct reply
ShapeWhy(m, r) ==
  IF r.ty = ACK /\ m.ty # CON THEN "C10:ack-for-a-non-confirmable-request"
  ELSE IF r.ty = CON THEN "C10:direct-reply-is-confirmable"
  ELSE IF m.ty = CON /\ r.ty = NON THEN "C10:confirmable-request-answered-non-confirmable"
  ELSE IF r.ty \in {ACK, RST} /\ r.mid # m.mid THEN "C10:reply-does-not-acknowledge-the-request-message-id"
  ELSE IF r.code # 0 /\ r.tok # m.tok THEN "C10:reply-does-not-echo-the-token"
  ELSE IF r.code = 0 /\ (r.tok # << >> \/ r.opts # << >> \/ r.pl # << >>) THEN "C10:empty-message-not-empty"
  ELSE ""

\* the handler must have been given the request: path, query, options (Hop-Limit decremented), payload, token
ArgsWhy(m, h, tbl) ==
  LET expOpts == [i \in 1..Len(m.opts) |->
                    IF m.opts[i].num = 16 /\ m.opts[i].val # << >> THEN <<16, <<UInt(m.opts[i].val) - 1>>>>
                    ELSE <<m.opts[i].num, m.opts[i].val>>]
      q == Opts(m, 15)
  IN IF h.method # m.code THEN "C10:handler-of-another-method-ran"
     ELSE IF h.opts # expOpts THEN "C10:handler-saw-different-options"
     ELSE IF h.pl # m.pl THEN "C10:handler-saw-different-payload"
     ELSE IF h.tok # m.tok THEN "C10:handler-saw-different-token"
     ELSE IF q = << >> /\ h.hasq THEN "C10:handler-got-a-query-the-request-does-not-have"
     ELSE IF q # << >> /\ (\E i \in 1..Len(q) : q[i].val # << >>) /\ (~h.hasq \/ QueryToSegs(h.query) # [i \in 1..Len(q) |-> q[i].val])
          THEN "C10:handler-saw-different-query"
     ELSE ""

Judge ==
  LET d == DecUDP(req) IN
  IF d.ok # "ok" THEN "-"                       \* not a well-formed request: C02/C03 territory
  ELSE LET m == d.m
           \* a request that repeats one whose answer is deferred (same peer, same token): libcoap only acknowledges it again; handing it to the
           \* handler once more (which then defers again) is what the statement says of any request datagram - both are accepted
           rep == isrep
           D == Decide(m, tb, mcast) \cup (IF rep THEN Outs(<< >>, Sent(m, 0, mcast)) ELSE {})
       IN IF D = {} THEN "-"
          ELSE IF Len(rs) > 1 THEN "C10:more-than-one-reply-to-one-request-datagram"
          ELSE IF Len(hs) > 1 THEN "C10:handler-ran-more-than-once"
          ELSE LET rd == IF rs = << >> THEN [ok |-> "ok", m |-> NoMsg] ELSE DecUDP(rs[1])
                   rk == IF rs = << >> THEN <<"none">> ELSE ReplyKind(m, rd.m)
                   hk == IF hs = << >> THEN << >> ELSE <<hs[1].res>>
               IN IF rd.ok = "bad" THEN "C10:reply-is-malformed"
                  ELSE IF rs # << >> /\ ShapeWhy(m, rd.m) # "" THEN ShapeWhy(m, rd.m)
                  ELSE IF [h |-> hk, r |-> rk] \notin D
                       THEN (IF hk # << >> /\ ~(\E o \in D : o.h = hk) THEN "C10:handler-ran-that-the-protocol-does-not-prescribe"
                             ELSE IF hk = << >> /\ (\A o \in D : o.h # << >>) THEN "C10:registered-handler-did-not-run"
                             ELSE "C10:reply-code-differs-from-protocol")
                  ELSE IF hs # << >> /\ ArgsWhy(m, hs[1], tb) # "" THEN ArgsWhy(m, hs[1], tb)
                  ELSE ""

Init == /\ l = 1 /\ rej = << >> /\ cur = -1 /\ skip = TRUE /\ tb = [res |-> << >>, unknown |-> [present |-> FALSE], proxy |-> FALSE, known |-> {}]
        /\ req = << >> /\ mcast = FALSE /\ hs = << >> /\ rs = << >> /\ nreq = 0 /\ nmulti = 0
        /\ peer = 0 /\ pend = {} /\ dfr = {} /\ ndef = 0 /\ isrep = FALSE

Consume ==
  /\ l <= Len(TraceLog)
  /\ LET e == TraceLog[l] IN
     CASE e.e = "Reset" -> /\ cur' = e.id /\ skip' = FALSE /\ tb' = TableOf(e) /\ req' = << >> /\ hs' = << >> /\ rs' = << >>
                           /\ pend' = {} /\ dfr' = {} /\ peer' = 0
                           /\ UNCHANGED <<rej, mcast, nreq, nmulti, ndef, isrep>>
       [] e.e = "Inject" /\ ~skip -> /\ req' = e.w /\ mcast' = e.mcast /\ hs' = << >> /\ rs' = << >> /\ peer' = e.peer
                                    /\ isrep' = (pend # {} /\ LET d == DecUDP(e.w) IN d.ok = "ok" /\ \E x \in pend : x.peer = e.peer /\ x.tok = d.m.tok)
                                    /\ UNCHANGED <<rej, cur, skip, tb, nreq, nmulti, pend, dfr, ndef>>
       [] e.e = "Handler" /\ ~skip /\ ~e.again -> hs' = Append(hs, e) /\ UNCHANGED <<rej, cur, skip, tb, req, mcast, rs, nreq, nmulti, peer, pend, dfr, ndef, isrep>>
       [] e.e = "Handler" /\ ~skip /\ e.again ->
            \* the handler is called for an answer it deferred earlier: only after the entry was released, and once
            LET X == {x \in pend : x.tok = e.tok /\ x.res = e.res} IN
            IF X = {} THEN /\ rej' = Reject("C10:handler-ran-for-a-deferred-answer-nobody-is-waiting-for", -1) /\ skip' = TRUE
                           /\ UNCHANGED <<cur, tb, req, mcast, hs, rs, nreq, nmulti, peer, pend, dfr, ndef, isrep>>
            ELSE LET x == CHOOSE y \in X : TRUE IN
                 IF ~x.rel THEN /\ rej' = Reject("C10:handler-ran-for-a-deferred-answer-before-the-application-released-it", -1) /\ skip' = TRUE
                                /\ UNCHANGED <<cur, tb, req, mcast, hs, rs, nreq, nmulti, peer, pend, dfr, ndef, isrep>>
                 ELSE /\ dfr' = dfr \cup {x} /\ pend' = pend \ {x}
                      /\ UNCHANGED <<rej, cur, skip, tb, req, mcast, hs, rs, nreq, nmulti, peer, ndef, isrep>>
       [] e.e = "Reply" /\ ~skip /\ IsDeferredAnswer(e) ->
            LET x == CHOOSE y \in dfr : y.peer = e.peer /\ y.tok = DecUDP(e.w).m.tok
                w == DeferredWhy(x, e.w) IN
            /\ rej' = IF w = "" THEN rej ELSE Reject(w, -1)
            /\ skip' = (w # "") /\ dfr' = dfr \ {x} /\ ndef' = ndef + 1
            /\ UNCHANGED <<cur, tb, req, mcast, hs, rs, nreq, nmulti, peer, pend, isrep>>
       [] e.e = "Reply" /\ ~skip /\ ~IsDeferredAnswer(e) ->
            \* a separate Confirmable response that is retransmitted is not another reply (the scripted peer acknowledges; none is expected)
            rs' = Append(rs, e.w) /\ UNCHANGED <<rej, cur, skip, tb, req, mcast, hs, nreq, nmulti, peer, pend, dfr, ndef, isrep>>
       [] e.e = "Done" /\ ~skip ->
            LET w == Judge
                d == DecUDP(req)
                \* the handler of a deferring resource ran and set nothing: an answer is owed from now on
                defers == w = "" /\ d.ok = "ok" /\ hs # << >> /\ hs[1].res >= 1 /\ hs[1].res <= Len(tb.res) /\ tb.res[hs[1].res].defer
            IN
            /\ rej' = IF w \in {"", "-"} THEN rej ELSE Reject(w, e.n)
            /\ nreq' = IF w = "-" THEN nreq ELSE nreq + 1
            /\ nmulti' = IF w # "-" /\ Cardinality(Decide(DecUDP(req).m, tb, mcast)) > 1 THEN nmulti + 1 ELSE nmulti
            /\ pend' = IF defers THEN pend \cup {[peer |-> peer, tok |-> d.m.tok, ty |-> d.m.ty, res |-> hs[1].res,
                                                   rel |-> (tb.res[hs[1].res].segs # << <<119>> >>)]}     \* "w" waits for the application, "v" is timed
                        ELSE pend
            /\ UNCHANGED <<cur, skip, tb, req, mcast, hs, rs, peer, dfr, ndef, isrep>>
       [] e.e = "Trigger" /\ ~skip -> /\ pend' = {[x EXCEPT !.rel = TRUE] : x \in pend} /\ hs' = << >> /\ rs' = << >> /\ req' = << >>
                                     /\ UNCHANGED <<rej, cur, skip, tb, mcast, nreq, nmulti, peer, dfr, ndef, isrep>>
       [] e.e \in {"TDone", "WDone"} /\ ~skip ->
            \* everything released (and, after a wait of 3 s or more, everything timed) has been answered; nothing else was sent
            LET owed == IF e.e = "WDone" /\ e.ms < 4000 THEN {}
                        ELSE {x \in pend : x.rel /\ (e.e = "TDone" => tb.res[x.res].segs = << <<119>> >>)} IN
            /\ rej' = IF dfr # {} \/ owed # {} THEN Reject("C10:deferred-answer-not-sent", -1)
                       ELSE IF rs # << >> THEN Reject("C10:datagram-nobody-asked-for", -1) ELSE rej
            /\ skip' = (dfr # {} \/ owed # {} \/ rs # << >>)
            /\ UNCHANGED <<cur, tb, req, mcast, hs, rs, nreq, nmulti, peer, pend, dfr, ndef, isrep>>
       [] e.e = "Wait" /\ ~skip -> /\ hs' = << >> /\ rs' = << >> /\ req' = << >> /\ UNCHANGED <<rej, cur, skip, tb, mcast, nreq, nmulti, peer, pend, dfr, ndef, isrep>>
       [] e.e = "Crash" -> /\ rej' = Append(rej, [id |-> cur, line |-> l, why |-> "C10:driver-crashed", n |-> -1]) /\ skip' = TRUE
                           /\ UNCHANGED <<cur, tb, req, mcast, hs, rs, nreq, nmulti, peer, pend, dfr, ndef, isrep>>
       [] OTHER -> UNCHANGED AllVars
  /\ l' = l + 1
Finish ==
  /\ l = Len(TraceLog) + 1
  /\ JsonSerialize(OutFile, [rejected |-> rej, executions |-> nreq, discarded |-> 0, known |-> {}, lines |-> Len(TraceLog),
                             requests_with_several_allowed_outcomes |-> nmulti, deferred_answers |-> ndef])
  /\ l' = l + 1 /\ UNCHANGED AllVars
Next == Consume \/ Finish
Spec == Init /\ [][Next]_vars
=============================================================================
