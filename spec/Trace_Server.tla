---------------------------- MODULE Trace_Server ----------------------------
(***************************************************************************)
(* Trace specification for C10: every request datagram injected into the   *)
(* real libcoap server (harness/drv_srv.c), the handler invocations and    *)
(* the datagrams it emitted in reaction, judged with Server!Decide on the  *)
(* reference decoding (CoapWire!DecUDP) of the raw request bytes.          *)
(***************************************************************************)
EXTENDS Server, Uri, Json, IOUtils

TraceLog == ndJsonDeserialize(IOEnv.TRACE)
OutFile  == IOEnv.OUT
VARIABLES l, rej, cur, skip, tb, req, mcast, hs, rs, nreq, nmulti
vars == <<l, rej, cur, skip, tb, req, mcast, hs, rs, nreq, nmulti>>

TableOf(e) == [res |-> e.res, unknown |-> e.unknown, proxy |-> e.proxy, known |-> {e.known[i] : i \in 1..Len(e.known)}]

ReplyKind(m, r) ==   \* classify an emitted datagram r (decoded) relative to request m
  IF r.code = 0 /\ r.ty = ACK THEN <<"emptyack">>
  ELSE IF r.ty = RST THEN <<"rst">>
  ELSE <<"msg", r.code>>

\* the shape rules of the statement for a direct reply
ShapeWhy(m, r) ==
  IF r.ty = ACK /\ m.ty # CON THEN "C10:ack-for-a-non-confirmable-request"
  ELSE IF r.ty = CON THEN "C10:direct-reply-is-confirmable"
  ELSE IF m.ty = CON /\ r.ty = NON THEN "C10:confirmable-request-answered-non-confirmable"
  ELSE IF r.ty \in {ACK, RST} /\ r.mid # m.mid THEN "C10:reply-does-not-acknowledge-the-request-message-id"
  ELSE IF r.code # 0 /\ r.tok # m.tok THEN "C10:reply-does-not-echo-the-token"
  ELSE IF r.code = 0 /\ (r.tok # << >> \/ r.opts # << >> \/ r.pl # << >>) THEN "C10:empty-message-not-empty"
  ELSE ""

\* the handler must have been given the request: path, query, options (Hop-Limit decremented), payload, token
ArgsWhy(m, h, tbl) ==
  LET expOpts == [i \in 1..Len(m.opts) |->
                    IF m.opts[i].num = 16 /\ m.opts[i].val # << >> THEN <<16, <<UInt(m.opts[i].val) - 1>>>>
                    ELSE <<m.opts[i].num, m.opts[i].val>>]
      q == Opts(m, 15)
  IN IF h.method # m.code THEN "C10:handler-of-another-method-ran"
     ELSE IF h.opts # expOpts THEN "C10:handler-saw-different-options"
     ELSE IF h.pl # m.pl THEN "C10:handler-saw-different-payload"
     ELSE IF h.tok # m.tok THEN "C10:handler-saw-different-token"
     ELSE IF q = << >> /\ h.hasq THEN "C10:handler-got-a-query-the-request-does-not-have"
     ELSE IF q # << >> /\ (\E i \in 1..Len(q) : q[i].val # << >>) /\ (~h.hasq \/ QueryToSegs(h.query) # [i \in 1..Len(q) |-> q[i].val])
          THEN "C10:handler-saw-different-query"
     ELSE ""

Judge ==
  LET d == DecUDP(req) IN
  IF d.ok # "ok" THEN "-"                       \* not a well-formed request: C02/C03 territory
  ELSE LET m == d.m
           D == Decide(m, tb, mcast)
       IN IF D = {} THEN "-"
          ELSE IF Len(rs) > 1 THEN "C10:more-than-one-reply-to-one-request-datagram"
          ELSE IF Len(hs) > 1 THEN "C10:handler-ran-more-than-once"
          ELSE LET rd == IF rs = << >> THEN [ok |-> "ok", m |-> NoMsg] ELSE DecUDP(rs[1])
                   rk == IF rs = << >> THEN <<"none">> ELSE ReplyKind(m, rd.m)
                   hk == IF hs = << >> THEN << >> ELSE <<hs[1].res>>
               IN IF rd.ok = "bad" THEN "C10:reply-is-malformed"
                  ELSE IF rs # << >> /\ ShapeWhy(m, rd.m) # "" THEN ShapeWhy(m, rd.m)
                  ELSE IF [h |-> hk, r |-> rk] \notin D
                       THEN (IF hk # << >> /\ ~(\E o \in D : o.h = hk) THEN "C10:handler-ran-that-the-protocol-does-not-prescribe"
                             ELSE IF hk = << >> /\ (\A o \in D : o.h # << >>) THEN "C10:registered-handler-did-not-run"
                             ELSE "C10:reply-code-differs-from-protocol")
                  ELSE IF hs # << >> /\ ArgsWhy(m, hs[1], tb) # "" THEN ArgsWhy(m, hs[1], tb)
                  ELSE ""

Init == /\ l = 1 /\ rej = << >> /\ cur = -1 /\ skip = TRUE /\ tb = [res |-> << >>, unknown |-> [present |-> FALSE], proxy |-> FALSE, known |-> {}]
        /\ req = << >> /\ mcast = FALSE /\ hs = << >> /\ rs = << >> /\ nreq = 0 /\ nmulti = 0

Consume ==
  /\ l <= Len(TraceLog)
  /\ LET e == TraceLog[l] IN
     CASE e.e = "Reset" -> /\ cur' = e.id /\ skip' = FALSE /\ tb' = TableOf(e) /\ req' = << >> /\ hs' = << >> /\ rs' = << >>
                           /\ UNCHANGED <<rej, mcast, nreq, nmulti>>
       [] e.e = "Inject" /\ ~skip -> /\ req' = e.w /\ mcast' = e.mcast /\ hs' = << >> /\ rs' = << >>
                                    /\ UNCHANGED <<rej, cur, skip, tb, nreq, nmulti>>
       [] e.e = "Handler" /\ ~skip -> hs' = Append(hs, e) /\ UNCHANGED <<rej, cur, skip, tb, req, mcast, rs, nreq, nmulti>>
       [] e.e = "Reply" /\ ~skip -> rs' = Append(rs, e.w) /\ UNCHANGED <<rej, cur, skip, tb, req, mcast, hs, nreq, nmulti>>
       [] e.e = "Done" /\ ~skip ->
            LET w == Judge IN
            /\ rej' = IF w \in {"", "-"} THEN rej ELSE Append(rej, [id |-> cur, line |-> l, why |-> w, n |-> e.n])
            /\ nreq' = IF w = "-" THEN nreq ELSE nreq + 1
            /\ nmulti' = IF w # "-" /\ Cardinality(Decide(DecUDP(req).m, tb, mcast)) > 1 THEN nmulti + 1 ELSE nmulti
            /\ UNCHANGED <<cur, skip, tb, req, mcast, hs, rs>>
       [] e.e = "Crash" -> /\ rej' = Append(rej, [id |-> cur, line |-> l, why |-> "C10:driver-crashed", n |-> -1]) /\ skip' = TRUE
                           /\ UNCHANGED <<cur, tb, req, mcast, hs, rs, nreq, nmulti>>
       [] OTHER -> UNCHANGED <<rej, cur, skip, tb, req, mcast, hs, rs, nreq, nmulti>>
  /\ l' = l + 1
Finish ==
  /\ l = Len(TraceLog) + 1
  /\ JsonSerialize(OutFile, [rejected |-> rej, executions |-> nreq, discarded |-> 0, known |-> {}, lines |-> Len(TraceLog),
                             requests_with_several_allowed_outcomes |-> nmulti])
  /\ l' = l + 1 /\ UNCHANGED <<rej, cur, skip, tb, req, mcast, hs, rs, nreq, nmulti>>
Next == Consume \/ Finish
Spec == Init /\ [][Next]_vars
=============================================================================
