/* drv_wkc.c -- driver for C20: /.well-known/core listing, filters, every (offset, buffer length) window,
 * and a block-wise GET through the real server on the simulator.
 *
 * usage: drv_wkc <cases.txt> <out.ndjson>
 *   X id=<n>
 *   R <pathhex> <o|-><s|-> [<namehex>[=<valhex>]] ...      register a resource ("-" = empty string)
 *   F <filterhex|->                                        full listing + all windows for this filter
 *   L <filterhex|->                                        full listing only
 *   G <szx> <filterhex|-> [<filterhex|->]                 GET /.well-known/core[?filter] with Block2 SZX, reassemble; with a second filter: two
 *                                                          fetches by the same peer at the same time, block by block in turn
 *   E
 */
#include "simnet.h"
#include <string.h>
#include <stdlib.h>

static coap_context_t *ctx;
static coap_endpoint_t *ep;
static coap_address_t srv_addr, cli_addr;
static uint8_t rxbuf[4096];
static size_t rxlen;
static int rxcount;

static size_t unhex(const char *h, uint8_t *b, size_t cap) {
  size_t n = 0;
  if (!strcmp(h, "-")) return 0;
  while (h[0] && h[1] && n < cap) {
    unsigned x;
    if (sscanf(h, "%2x", &x) != 1) break;
    b[n++] = (uint8_t)x;
    h += 2;
  }
  return n;
}
static void arr(FILE *o, const uint8_t *b, size_t n) {
  size_t i;
  fputc('[', o);
  for (i = 0; i < n; i++) fprintf(o, "%s%u", i ? "," : "", b[i]);
  fputc(']', o);
}

static void h_get(coap_resource_t *r, coap_session_t *s, const coap_pdu_t *req, const coap_string_t *q, coap_pdu_t *resp) {
  (void)r; (void)s; (void)req; (void)q;
  coap_pdu_set_code(resp, COAP_RESPONSE_CODE_CONTENT);
}

static void on_peer_rx(const sim_dgram_t *dg) {
  rxlen = dg->len < sizeof(rxbuf) ? dg->len : sizeof(rxbuf);
  memcpy(rxbuf, dg->data, rxlen);
  rxcount++;
}

static char tablejson[1 << 16];

static void add_resource(char *rest) {
  char *t = strtok(rest, " \n"), *fl;
  uint8_t b[512];
  size_t n;
  coap_resource_t *r;
  coap_str_const_t *path;
  int flags = COAP_RESOURCE_FLAGS_RELEASE_URI, first = 1;
  size_t tj = strlen(tablejson);
  FILE *m;
  if (!t) return;
  n = unhex(t, b, sizeof(b));
  fl = strtok(NULL, " \n");
  if (fl && fl[1] == 's') flags |= COAP_RESOURCE_FLAGS_OSCORE_ONLY;
  path = coap_new_str_const(b, n);
  r = coap_resource_init(path, flags);
  coap_register_request_handler(r, COAP_REQUEST_GET, h_get);
  if (fl && fl[0] == 'o') coap_resource_set_get_observable(r, 1);
  m = fmemopen(tablejson + tj, sizeof(tablejson) - tj, "w");
  fprintf(m, "%s{\"path\":", tj ? "," : "");
  arr(m, b, n);
  fprintf(m, ",\"obs\":%s,\"osc\":%s,\"attrs\":[", (fl && fl[0] == 'o') ? "true" : "false", (fl && fl[1] == 's') ? "true" : "false");
  while ((t = strtok(NULL, " \n"))) {
    char *eq = strchr(t, '=');
    uint8_t nb[256], vb[256];
    size_t nn, vn = 0;
    if (eq) *eq = 0;
    nn = unhex(t, nb, sizeof(nb));
    if (eq) vn = unhex(eq + 1, vb, sizeof(vb));
    {
      /* the four ownership conventions of coap_add_attr() in turn: what the caller keeps is scribbled over afterwards - the listing must not follow it */
      static int turn;
      int fl2 = turn++ & 3, af = ((fl2 & 1) ? 0 : COAP_ATTR_FLAGS_RELEASE_NAME) | ((fl2 & 2) ? 0 : COAP_ATTR_FLAGS_RELEASE_VALUE);
      coap_str_const_t ns, vs;
      ns.s = nb; ns.length = nn;
      vs.s = vb; vs.length = vn;
      coap_add_attr(r, (af & COAP_ATTR_FLAGS_RELEASE_NAME) ? coap_new_str_const(nb, nn) : &ns,
                    !eq ? NULL : (af & COAP_ATTR_FLAGS_RELEASE_VALUE) ? coap_new_str_const(vb, vn) : &vs, af);
    }
    fprintf(m, "%s{\"name\":", first ? "" : ",");
    first = 0;
    arr(m, nb, nn);
    fputs(",\"val\":", m);
    arr(m, vb, vn);
    fprintf(m, ",\"hasval\":%s}", eq ? "true" : "false");
    memset(nb, 'Z', sizeof(nb));
    memset(vb, 'Z', sizeof(vb));
  }
  fputs("]}", m);
  fclose(m);
  coap_add_resource(ctx, r);
}

static void windows(const char *fh, int sweep) {
  uint8_t fb[256];
  size_t fn = unhex(fh, fb, sizeof(fb)), total, off, n;
  coap_string_t filt, *fp = NULL;
  uint8_t *big = malloc(1 << 16);
  size_t bl = 1 << 16;
  coap_print_status_t res;
  int hasf = strcmp(fh, "-") != 0;
  if (hasf) { filt.s = fb; filt.length = fn; fp = &filt; }
  res = coap_print_wellknown(ctx, big, &bl, 0, fp);
  total = bl;
  fprintf(sim_trace, "{\"e\":\"Full\",\"hasf\":%s,\"filter\":", hasf ? "true" : "false");
  arr(sim_trace, fb, fn);
  fputs(",\"out\":", sim_trace);
  arr(sim_trace, big, COAP_PRINT_OUTPUT_LENGTH(res));
  fprintf(sim_trace, ",\"total\":%zu,\"err\":%d,\"trunc\":%s}\n", bl, (res & COAP_PRINT_STATUS_ERROR) != 0,
          (res & COAP_PRINT_STATUS_TRUNC) ? "true" : "false");
  for (off = 0; sweep && off <= total + 2; off++) {
    for (n = 0; n <= total + 2; n++) {
      uint8_t *w = malloc(n ? n : 1);   /* exact size: writing past it is an ASan report */
      size_t wl = n;
      res = coap_print_wellknown(ctx, w, &wl, off, fp);
      fprintf(sim_trace, "{\"e\":\"Win\",\"off\":%zu,\"n\":%zu,\"out\":", off, n);
      arr(sim_trace, w, COAP_PRINT_OUTPUT_LENGTH(res) <= n ? COAP_PRINT_OUTPUT_LENGTH(res) : n);
      fprintf(sim_trace, ",\"len\":%lu,\"total\":%zu,\"err\":%d,\"trunc\":%s}\n", (unsigned long)COAP_PRINT_OUTPUT_LENGTH(res), wl,
              (res & COAP_PRINT_STATUS_ERROR) != 0, (res & COAP_PRINT_STATUS_TRUNC) ? "true" : "false");
      free(w);
    }
  }
  free(big);
}

/* scripted client: GET /.well-known/core with Block2 NUM/SZX, over the simulator; one fetch is a little state machine so that two of them
   (different filters, different tokens, same peer) can be interleaved block by block */
typedef struct { uint8_t fb[256], body[1 << 16]; size_t fn, blen; int hasf, num, more, ok, szx; uint8_t tok; } bg_t;
static uint16_t bg_mid = 100;
static void bg_init(bg_t *g, int szx, const char *fh, uint8_t tok) {
  g->fn = unhex(fh, g->fb, sizeof(g->fb)); g->blen = 0; g->hasf = strcmp(fh, "-") != 0; g->num = 0; g->more = 1; g->ok = 1; g->szx = szx; g->tok = tok;
}
static void bg_step(bg_t *g) {
  uint8_t req[600];
  size_t n = 0;
  unsigned bv = ((unsigned)g->num << 4) | (unsigned)g->szx, delta;
  uint16_t mid = bg_mid++;
  if (!g->more || !g->ok) return;
  req[n++] = 0x41; req[n++] = 0x01; req[n++] = mid >> 8; req[n++] = mid & 255; req[n++] = g->tok;
  req[n++] = 0xbb; memcpy(req + n, ".well-known", 11); n += 11;     /* Uri-Path */
  req[n++] = 0x04; memcpy(req + n, "core", 4); n += 4;
  delta = 4;  /* Uri-Query 15 */
  if (g->hasf) {
    if (g->fn < 13) req[n++] = (uint8_t)((delta << 4) | g->fn);
    else { req[n++] = (uint8_t)((delta << 4) | 13); req[n++] = (uint8_t)(g->fn - 13); }
    memcpy(req + n, g->fb, g->fn); n += g->fn;
    delta = 8;  /* Block2 23 */
  } else
    delta = 12;
  if (bv < 256) { req[n++] = (uint8_t)((delta << 4) | 1); req[n++] = (uint8_t)bv; }
  else if (bv < 65536) { req[n++] = (uint8_t)((delta << 4) | 2); req[n++] = (uint8_t)(bv >> 8); req[n++] = (uint8_t)bv; }
  else { req[n++] = (uint8_t)((delta << 4) | 3); req[n++] = (uint8_t)(bv >> 16); req[n++] = (uint8_t)(bv >> 8); req[n++] = (uint8_t)bv; }
  rxcount = 0;
  sim_inject(&cli_addr, &srv_addr, req, n, 0, -1);
  sim_run(sim_now + 50);
  if (rxcount != 1 || rxlen < 5) { g->ok = 0; return; }
  {
    /* parse the reply with libcoap's own parser (the codec is C03's concern) */
    coap_pdu_t *p = coap_pdu_init(0, 0, 0, 4096);
    coap_opt_iterator_t oi;
    coap_opt_t *o;
    size_t dl = 0;
    const uint8_t *dp = NULL;
    coap_bin_const_t t;
    if (!coap_pdu_parse(COAP_PROTO_UDP, rxbuf, rxlen, p)) { g->ok = 0; coap_delete_pdu(p); return; }
    t = coap_pdu_get_token(p);
    if (t.length != 1 || t.s[0] != g->tok) { g->ok = 0; coap_delete_pdu(p); return; }
    if (coap_pdu_get_code(p) != COAP_RESPONSE_CODE_CONTENT) { g->ok = coap_pdu_get_code(p) == COAP_RESPONSE_CODE(400) && g->num > 0 ? 2 : 0; coap_delete_pdu(p); return; }
    g->more = 0;
    o = coap_check_option(p, COAP_OPTION_BLOCK2, &oi);
    if (o) {
      unsigned v = coap_decode_var_bytes(coap_opt_value(o), coap_opt_length(o));
      g->more = (v >> 3) & 1;
      if ((int)(v & 7) != g->szx || (int)(v >> 4) != g->num) g->ok = 0;
    }
    coap_get_data(p, &dl, &dp);
    if (dl && g->blen + dl <= sizeof(g->body)) { memcpy(g->body + g->blen, dp, dl); g->blen += dl; }
    if (g->more && dl != (size_t)(16u << g->szx)) g->ok = 0;
    coap_delete_pdu(p);
  }
  g->num++;
}
static void bg_log(bg_t *g) {
  fprintf(sim_trace, "{\"e\":\"Get\",\"szx\":%d,\"hasf\":%s,\"filter\":", g->szx, g->hasf ? "true" : "false");
  arr(sim_trace, g->fb, g->fn);
  fprintf(sim_trace, ",\"ok\":%d,\"blocks\":%d,\"body\":", g->ok, g->num);
  arr(sim_trace, g->body, g->blen);
  fputs("}\n", sim_trace);
}
static void block_get(int szx, const char *fh) {
  static bg_t g;
  int rounds = 0;
  bg_init(&g, szx, fh, 0x77);
  while (g.more && g.ok == 1 && rounds++ < 4096) bg_step(&g);
  bg_log(&g);
}
/* two listings fetched at the same time by one peer, block by block in turn */
static void block_get2(int szx, const char *fa, const char *fb2) {
  static bg_t a, b;
  int rounds = 0;
  bg_init(&a, szx, fa, 0x71);
  bg_init(&b, szx, fb2, 0x72);
  while (((a.more && a.ok == 1) || (b.more && b.ok == 1)) && rounds++ < 4096) { bg_step(&a); bg_step(&b); }
  bg_log(&a);
  bg_log(&b);
}

int main(int argc, char **argv) {
  FILE *in;
  static char line[1 << 15];
  if (argc < 3) return 2;
  in = fopen(argv[1], "r");
  sim_trace = fopen(argv[2], "w");
  if (!in || !sim_trace) return 2;
  setvbuf(sim_trace, NULL, _IOFBF, 1 << 20);
  coap_startup();
  coap_set_log_level(COAP_LOG_EMERG);
  sim_hooks.on_peer_rx = on_peer_rx;
  sim_trace_io = 0;
  while (fgets(line, sizeof(line), in)) {
    if (line[0] == 'X') {
      int id = 0;
      char *p = strstr(line, "id=");
      if (p) id = atoi(p + 3);
      if (ctx) { sim_remove_node(ctx); coap_free_context(ctx); }
      sim_reset(1000);
      ctx = coap_new_context(NULL);
      coap_context_set_block_mode(ctx, COAP_BLOCK_USE_LIBCOAP);
      sim_addr(&srv_addr, "127.0.0.1", 0);
      ep = coap_new_endpoint(ctx, &srv_addr, COAP_PROTO_UDP);
      if (ep) srv_addr = ep->bind_addr;
      sim_addr(&cli_addr, "127.0.0.1", 45000);
      sim_add_node(ctx);
      tablejson[0] = 0;
      fprintf(sim_trace, "{\"e\":\"Reset\",\"id\":%d}\n", id);
      fflush(sim_trace);
    } else if (!ctx) {
      continue;
    } else if (line[0] == 'R') {
      add_resource(line + 1);
    } else if (line[0] == 'F' || line[0] == 'G' || line[0] == 'L') {
      char f[4096] = "-";
      int szx = 0;
      if (tablejson[0] != 1) {
        fprintf(sim_trace, "{\"e\":\"Table\",\"res\":[%s]}\n", tablejson);
      }
      if (line[0] == 'F' || line[0] == 'L') { sscanf(line + 1, "%4095s", f); windows(f, line[0] == 'F'); }
      else {
        char f2[4096] = "";
        int k = sscanf(line + 1, "%d %4095s %4095s", &szx, f, f2);
        if (k == 3) block_get2(szx, f, f2); else block_get(szx, f);
      }
    }
  }
  if (ctx) { sim_remove_node(ctx); coap_free_context(ctx); }
  fclose(sim_trace);
  coap_cleanup();
  return 0;
}
