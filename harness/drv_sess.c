/* drv_sess.c -- driver for C12 (sessions, lifetimes, release): a real libcoap server on the simulator, fabricated peers,
 * application references, observers, async entries and queued messages holding sessions, idle reclamation, eviction and
 * context teardown at any point.  Every allocation libcoap makes goes through the wrapped coap_malloc_type /
 * coap_realloc_type / coap_free_type (link-time), which keep the ledger and log session objects individually.
 *
 * usage: drv_sess <cases.txt> <out.ndjson>
 *   X id=<n> timeout=<session timeout s, 0 = default 300> maxidle=<max idle sessions, 0 = none>
 *   R <peer> [hold]     NON GET /r from fabricated peer <peer>; hold: the handler takes an application reference
 *   C <peer> [hold]     CON GET /r (answered piggybacked)
 *   O <peer>            GET /o Observe=0 (the observer entry holds the session); o <peer> = Observe=1 (cancel)
 *   P <peer>            the same registration again under another token (replaces the observer entry); p <peer> cancels under that token
 *   B <peer>            GET /b with Block2 0 / 16 bytes: the handler hands over a 200-byte body (coap_add_data_large_response): a transfer hangs off the session
 *   b <peer> <num>      the peer asks for block <num> of it;   e <peer> <num>  the same with an ETag option that is not the body's
 *   A <peer>            GET /a: the handler registers an async entry (it holds the session) and answers nothing yet
 *   a <peer>            the application triggers the async entry of that peer: the handler runs again and answers
 *   U <peer>            the application releases the reference it took on <peer>'s session
 *   S <peer>            the application sends a Confirmable message on the session it holds for <peer>
 *   Q <peer>            from now on the peer acknowledges nothing (Confirmable messages to it stay queued until given up)
 *   N                   the observed resource changes (notifications to all observers)
 *   K <peer>            the peer answers everything it got so far with RST (observer / queued message cancelled)
 *   T <k>               stream peer k (0..7, known to the trace as peer 56+k) connects over TCP (a real loopback connection, accepted through the
 *                       library's own accept path) and sends its CSM
 *   t <k> <r|a|o|q|b> [hold] that peer sends GET /r, /a (parked as an async entry), /o (Observe=0), /o?x=1 (Observe=0 under a second token: a second
 *                       observation of the same resource on this connection) or /b (Block2 0/16: a transfer is left pending) on its connection
 *   D <k>               that peer closes its connection (the library's next read reports the reset)
 *                       (A/a/U/S/N/I/F/E apply to stream peers through their peer number 56+k)
 *   I <ms>              run the I/O loop for <ms> of virtual time
 *   F                   free the context now (the application first releases what it still holds)
 *   E                   end of the case (frees the context if that has not happened)
 */
#include "simnet.h"
#include <string.h>
#include <stdlib.h>

#define NPEER 64
static coap_context_t *ctx;
static coap_address_t srv_addr, peer_addr[NPEER];
static coap_resource_t *res_r, *res_o, *res_a, *res_b;
static coap_session_t *held[NPEER];
static coap_async_t *asyncs[NPEER];
static int hold_next[NPEER];
static int lastmid[NPEER];
static int silent[NPEER];          /* the peer does not acknowledge anything */
static uint16_t cmid = 100;

/* ---- ledger: every object libcoap allocates ------------------------------------------------------------------- */
void *__real_coap_malloc_type(coap_memory_tag_t type, size_t size);
void *__real_coap_realloc_type(coap_memory_tag_t type, void *p, size_t size);
void __real_coap_free_type(coap_memory_tag_t type, void *p);
#define LEDGER (1 << 16)
static struct { void *p; int type; int sid; } led[LEDGER];
static int nled, next_sid = 1, ledger_overflow;
static long n_alloc, n_free, n_unknown_free;

static int led_find(void *p) { int i; for (i = 0; i < nled; i++) if (led[i].p == p) return i; return -1; }
static void led_add(void *p, int type) {
  if (!p) return;
  n_alloc++;
  if (nled >= LEDGER) { ledger_overflow = 1; return; }
  led[nled].p = p; led[nled].type = type; led[nled].sid = 0;
  if (type == COAP_SESSION) {
    led[nled].sid = next_sid++;
    if (sim_trace) fprintf(sim_trace, "{\"e\":\"SAlloc\",\"s\":%d}\n", led[nled].sid);
  }
  nled++;
}
static void led_del(void *p) {
  int i;
  if (!p) return;
  i = led_find(p);
  if (i < 0) { n_unknown_free++; if (sim_trace) fputs("{\"e\":\"BadFree\"}\n", sim_trace); return; }
  n_free++;
  if (led[i].type == COAP_SESSION && sim_trace) fprintf(sim_trace, "{\"e\":\"SFree\",\"s\":%d}\n", led[i].sid);
  led[i] = led[--nled];
}
void *__wrap_coap_malloc_type(coap_memory_tag_t type, size_t size) {
  void *p = __real_coap_malloc_type(type, size);
  led_add(p, (int)type);
  return p;
}
void *__wrap_coap_realloc_type(coap_memory_tag_t type, void *old, size_t size) {
  int i = old ? led_find(old) : -1;
  void *p = __real_coap_realloc_type(type, old, size);
  if (p) {
    if (i >= 0) led[i].p = p;
    else led_add(p, (int)type);
  }
  return p;
}
void __wrap_coap_free_type(coap_memory_tag_t type, void *p) {
  led_del(p);
  __real_coap_free_type(type, p);
}
static int sid_of(coap_session_t *s) { int i = led_find(s); return i < 0 ? -1 : led[i].sid; }
static int sess_id_hook(coap_session_t *s) { int k = sid_of(s); return k < 0 ? 0 : k; }

/* ---- stream peers: real TCP connections to a second endpoint, their bytes scripted through the wrapped coap_socket_read() ---- */
#include <sys/epoll.h>
#include <sys/socket.h>
#include <unistd.h>
#include <errno.h>
#define NTCP 8
#define TCP_PEER0 56
extern int (*sim_extra_events)(int epfd, struct epoll_event *events, int max);
static coap_endpoint_t *tcp_ep;
static struct { coap_session_t *s; int fd; uint8_t in[512]; size_t nin; int closing, connecting; } tp[NTCP];
static int tcp_accept_pending;
static int tcp_of_sock(coap_socket_t *sock) { int k; for (k = 0; k < NTCP; k++) if (tp[k].s && &tp[k].s->sock == sock) return k; return -1; }
static int tcp_of_session(coap_session_t *s) { int k; for (k = 0; k < NTCP; k++) if (tp[k].s == s) return k; return -1; }
static int sid_of(coap_session_t *s);
ssize_t __wrap_coap_socket_read(coap_socket_t *sock, uint8_t *data, size_t data_len) {
  int k = tcp_of_sock(sock);
  size_t n;
  if (k < 0 || (tp[k].nin == 0 && !tp[k].closing)) { sock->flags &= ~COAP_SOCKET_CAN_READ; return 0; }
  if (tp[k].nin == 0) {                      /* the peer has gone */
    sock->flags &= ~COAP_SOCKET_CAN_READ;
    tp[k].closing = 0;
    errno = ECONNRESET;
    return -1;
  }
  n = tp[k].nin < data_len ? tp[k].nin : data_len;
  memcpy(data, tp[k].in, n);
  memmove(tp[k].in, tp[k].in + n, tp[k].nin - n);
  tp[k].nin -= n;
  if (n < data_len) sock->flags &= ~COAP_SOCKET_CAN_READ;
  fprintf(sim_trace, "{\"e\":\"Rx\",\"t\":%llu,\"sport\":%d,\"ty\":1,\"mid\":0,\"stream\":1}\n", (unsigned long long)sim_now, 20000 + TCP_PEER0 + k);
  return (ssize_t)n;
}
ssize_t __wrap_coap_socket_write(coap_socket_t *sock, const uint8_t *data, size_t data_len) {
  int k = tcp_of_sock(sock);
  (void)data;
  sock->flags &= ~(COAP_SOCKET_WANT_WRITE | COAP_SOCKET_CAN_WRITE);
  if (k >= 0 && sim_trace)
    fprintf(sim_trace, "{\"e\":\"Tx\",\"t\":%llu,\"s\":%d,\"ty\":1,\"mid\":0,\"stream\":1}\n", (unsigned long long)sim_now, sid_of(tp[k].s));
  return (ssize_t)data_len;
}
static int extra_events(int epfd, struct epoll_event *events, int max) {
  int n = 0, k;
  if (!ctx || epfd != ctx->epfd) return 0;
  if (tcp_accept_pending && tcp_ep && n < max) { events[n].events = EPOLLIN; events[n].data.ptr = &tcp_ep->sock; n++; return n; }
  for (k = 0; k < NTCP && n < max; k++)
    if (tp[k].s && (tp[k].nin || tp[k].closing) && (tp[k].s->sock.flags & COAP_SOCKET_WANT_READ)) { events[n].events = EPOLLIN; events[n].data.ptr = &tp[k].s->sock; n++; }
  return n;
}

/* ---- the application -------------------------------------------------------------------------------------------- */
static int peer_of_addr(const coap_address_t *a) {
  int p = (int)sim_port(a) - 20000;
  return (p >= 0 && p < NPEER) ? p : -1;
}
static int peer_of_session(coap_session_t *s) {
  int k;
  if (s->proto == COAP_PROTO_UDP) return peer_of_addr(coap_session_get_addr_remote(s));
  k = tcp_of_session(s);
  if (k >= 0) return TCP_PEER0 + k;
  for (k = 0; k < NTCP; k++) if (tp[k].connecting) return TCP_PEER0 + k;     /* the NEW event of the connection being accepted */
  return -1;
}
#define peer_of(a) peer_of_addr(a)
static void h_req(coap_resource_t *r, coap_session_t *s, const coap_pdu_t *req, const coap_string_t *q, coap_pdu_t *resp) {
  int p = peer_of_session(s);
  fprintf(sim_trace, "{\"e\":\"Req\",\"t\":%llu,\"peer\":%d,\"s\":%d,\"res\":\"%s\"}\n", (unsigned long long)sim_now, p, sid_of(s),
          r == res_r ? "r" : r == res_o ? "o" : r == res_b ? "b" : "a");
  if (p >= 0 && hold_next[p] && !held[p]) {
    held[p] = coap_session_reference(s);
    hold_next[p] = 0;
    fprintf(sim_trace, "{\"e\":\"Ref\",\"s\":%d,\"peer\":%d}\n", sid_of(s), p);
  }
  if (r == res_a && p >= 0) {
    coap_bin_const_t tok = coap_pdu_get_token(req);
    coap_async_t *a = coap_find_async(s, tok);
    if (!a) {
      a = coap_register_async(s, req, 0);        /* 0: wait until triggered */
      if (a) {
        asyncs[p] = a;
        fprintf(sim_trace, "{\"e\":\"Async\",\"s\":%d,\"peer\":%d}\n", sid_of(s), p);
        return;                                   /* no response now */
      }
    } else {
      asyncs[p] = NULL;                           /* libcoap removes the entry itself when this handler returns */
      fprintf(sim_trace, "{\"e\":\"AsyncDone\",\"s\":%d,\"peer\":%d}\n", sid_of(s), p);
    }
  }
  coap_pdu_set_code(resp, COAP_RESPONSE_CODE_CONTENT);
  if (r == res_b) {
    static uint8_t body[200];
    memset(body, 'b', sizeof(body));
    coap_add_data_large_response(r, s, req, resp, q, COAP_MEDIATYPE_TEXT_PLAIN, -1, 0x42, sizeof(body), body, NULL, NULL);
    return;
  }
  coap_add_data(resp, 2, (const uint8_t *)"ok");
}
static int in_teardown;
static void log_observers(void);
static int h_event(coap_session_t *s, const coap_event_t ev) {
  if (ev == COAP_EVENT_SERVER_SESSION_NEW) {
    int k;
    fprintf(sim_trace, "{\"e\":\"Ev\",\"k\":\"new\",\"s\":%d,\"t\":%llu,\"peer\":%d}\n", sid_of(s), (unsigned long long)sim_now, peer_of_session(s));
    if (s->proto != COAP_PROTO_UDP)
      for (k = 0; k < NTCP; k++) if (tp[k].connecting) { tp[k].s = s; tp[k].connecting = 0; tcp_accept_pending = 0; }
  } else if (ev == COAP_EVENT_SERVER_SESSION_DEL) {
    int k = tcp_of_session(s);
    if (!in_teardown) log_observers();          /* who holds what right now, as libcoap sees it */
    fprintf(sim_trace, "{\"e\":\"Ev\",\"k\":\"del\",\"s\":%d,\"t\":%llu,\"ref\":%u}\n", sid_of(s), (unsigned long long)sim_now, s->ref);
    if (k >= 0 && s->ref == 0) tp[k].s = NULL;   /* the object goes away with this event */
  }
  return 0;
}
static void h_nack(coap_session_t *s, const coap_pdu_t *sent, const coap_nack_reason_t reason, const coap_mid_t mid) {
  (void)sent; (void)mid;
  if (in_teardown) return;
  fprintf(sim_trace, "{\"e\":\"Nack\",\"s\":%d,\"reason\":%d,\"mid\":%d}\n", sid_of(s), (int)reason, (int)mid);
}
static void on_peer_rx(const sim_dgram_t *dg) {
  int p = peer_of(&dg->dst);
  if (p >= 0 && dg->len >= 4 && dg->data[1] != 0) lastmid[p] = (dg->data[2] << 8) | dg->data[3];
  if (p >= 0 && dg->len >= 4 && ((dg->data[0] >> 4) & 3) == 0 && !silent[p]) {
    uint8_t a[4];                              /* acknowledge a Confirmable message */
    a[0] = 0x60; a[1] = 0; a[2] = dg->data[2]; a[3] = dg->data[3];
    sim_inject(&peer_addr[p], &srv_addr, a, 4, 0, -1);
  }
}
/* the observer list as libcoap holds it, for the trace (a projection, no decision is taken here) */
static void log_observers(void) {
  coap_subscription_t *o;
  int first = 1;
  fputs("{\"e\":\"Observers\",\"ss\":[", sim_trace);
  if (res_o) LL_FOREACH(res_o->subscribers, o) { fprintf(sim_trace, "%s%d", first ? "" : ",", sid_of(o->session)); first = 0; }
  fputs("]}\n", sim_trace);
}

static int alt_token;              /* the next request uses the peer's second token */
static void request(int p, const char *path, int con, int obs) {
  uint8_t b[32];
  size_t n = 0;
  uint16_t mid = cmid++;
  b[n++] = (uint8_t)((con ? 0x40 : 0x50) | 1); b[n++] = 1; b[n++] = mid >> 8; b[n++] = mid & 255;
  b[n++] = (uint8_t)((alt_token ? 0x90 : 0x10) + p);                       /* token */
  alt_token = 0;
  if (obs == 0) b[n++] = 0x60; else if (obs > 0) { b[n++] = 0x61; b[n++] = (uint8_t)obs; }
  b[n++] = (uint8_t)((obs >= 0 ? 0x50 : 0xb0) | 1); b[n++] = (uint8_t)path[0];   /* Uri-Path (11) */
  fprintf(sim_trace, "{\"e\":\"Inject\",\"t\":%llu,\"peer\":%d,\"path\":\"%s\",\"con\":%d,\"obs\":%d}\n", (unsigned long long)sim_now, p, path, con, obs);
  sim_inject(&peer_addr[p], &srv_addr, b, n, 0, -1);
  sim_run(sim_now + 5);
}

/* GET /b with Block2 num / 16 bytes, optionally with an ETag that is not the body's */
static void request_b(int p, int num, int wrong_etag) {
  uint8_t b[32];
  size_t n = 0;
  uint16_t mid = cmid++;
  unsigned v = ((unsigned)num << 4);
  b[n++] = 0x41; b[n++] = 1; b[n++] = mid >> 8; b[n++] = mid & 255;
  b[n++] = (uint8_t)(0x10 + p);
  if (wrong_etag) { b[n++] = 0x41; b[n++] = 0x99; b[n++] = 0x71; } else b[n++] = 0xb1;        /* ETag (4), then Uri-Path (11) */
  b[n++] = 'b';
  if (v < 256) { b[n++] = 0xc1; b[n++] = (uint8_t)v; } else { b[n++] = 0xc2; b[n++] = (uint8_t)(v >> 8); b[n++] = (uint8_t)v; }    /* Block2 (23) */
  fprintf(sim_trace, "{\"e\":\"Inject\",\"t\":%llu,\"peer\":%d,\"path\":\"b\",\"con\":1,\"obs\":-1,\"num\":%d,\"etag\":%d}\n", (unsigned long long)sim_now, p, num, wrong_etag);
  sim_inject(&peer_addr[p], &srv_addr, b, n, 0, -1);
  sim_run(sim_now + 5);
}

static void release_all(void) {
  int p;
  for (p = 0; p < NPEER; p++) {
    if (held[p]) {
      fprintf(sim_trace, "{\"e\":\"Unref\",\"s\":%d,\"peer\":%d}\n", sid_of(held[p]), p);
      coap_session_release(held[p]);
      held[p] = NULL;
    }
  }
}
static void free_ctx(void) {
  if (!ctx) return;
  release_all();
  fputs("{\"e\":\"FreeContext\"}\n", sim_trace);
  sim_remove_node(ctx);
  in_teardown = 1;
  coap_free_context(ctx);
  in_teardown = 0;
  ctx = NULL; res_r = res_o = res_a = res_b = NULL; tcp_ep = NULL;
  memset(asyncs, 0, sizeof(asyncs));
  {
    int k;
    struct linger lg = {1, 0};
    for (k = 0; k < NTCP; k++) {
      if (tp[k].fd > 0) { setsockopt(tp[k].fd, SOL_SOCKET, SO_LINGER, &lg, sizeof(lg)); close(tp[k].fd); }
      memset(&tp[k], 0, sizeof(tp[k]));
    }
    tcp_accept_pending = 0;
  }
  {
    int i, live_s = 0;
    for (i = 0; i < nled; i++) if (led[i].type == COAP_SESSION) live_s++;
    fprintf(sim_trace, "{\"e\":\"Ledger\",\"live\":%d,\"live_sessions\":%d,\"allocs\":%ld,\"frees\":%ld,\"badfrees\":%ld,\"overflow\":%d}\n",
            nled, live_s, n_alloc, n_free, n_unknown_free, ledger_overflow);
  }
}

static int prng(void *out, size_t len) {
  static uint32_t st = 4711;
  uint8_t *o = out;
  size_t i;
  for (i = 0; i < len; i++) { st = st * 1664525u + 1013904223u; o[i] = (uint8_t)(st >> 24); }
  return 1;
}

int main(int argc, char **argv) {
  FILE *in;
  char line[256];
  int p;
  if (argc < 3) return 2;
  in = fopen(argv[1], "r");
  sim_trace = fopen(argv[2], "w");
  if (!in || !sim_trace) return 2;
  setvbuf(sim_trace, NULL, _IOFBF, 1 << 20);
  coap_startup();
  coap_set_log_level(getenv("DRV_DEBUG") ? COAP_LOG_DEBUG : COAP_LOG_EMERG);
  coap_set_prng(prng);
  sim_hooks.on_peer_rx = on_peer_rx;
  sim_hooks.sess_id = sess_id_hook;
  sim_extra_events = extra_events;
  sim_trace_io = 0;
  for (p = 0; p < NPEER; p++) sim_addr(&peer_addr[p], "127.0.0.1", (uint16_t)(20000 + p));
  while (fgets(line, sizeof(line), in)) {
    char c = line[0];
    int hold = strstr(line, "hold") != NULL;
    p = atoi(line + 1);
    if (p < 0 || p >= NPEER) p = 0;
    if (c == 'X') {
      int id = 0, timeout = 0, maxidle = 0;
      char *q;
      coap_endpoint_t *ep;
      if ((q = strstr(line, "id="))) id = atoi(q + 3);
      if ((q = strstr(line, "timeout="))) timeout = atoi(q + 8);
      if ((q = strstr(line, "maxidle="))) maxidle = atoi(q + 8);
      free_ctx();
      sim_reset(1000);
      nled = 0; n_alloc = n_free = n_unknown_free = 0; ledger_overflow = 0; next_sid = 1;
      memset(held, 0, sizeof(held)); memset(hold_next, 0, sizeof(hold_next)); memset(lastmid, 0, sizeof(lastmid)); memset(silent, 0, sizeof(silent));
      fprintf(sim_trace, "{\"e\":\"Reset\",\"id\":%d,\"timeout\":%d,\"maxidle\":%d}\n", id, timeout ? timeout : 300, maxidle);
      ctx = coap_new_context(NULL);
      if (timeout) coap_context_set_session_timeout(ctx, (unsigned)timeout);
      if (maxidle) coap_context_set_max_idle_sessions(ctx, (unsigned)maxidle);
      coap_register_event_handler(ctx, h_event);
      coap_register_nack_handler(ctx, h_nack);
      sim_addr(&srv_addr, "127.0.0.1", 0);
      ep = coap_new_endpoint(ctx, &srv_addr, COAP_PROTO_UDP);
      srv_addr = ep->bind_addr;
      if (strstr(line, "tcp=1")) {
        coap_address_t ta;
        int tries;
        sim_addr(&ta, "127.0.0.1", 0);
        for (tries = 0; !(tcp_ep = coap_new_endpoint(ctx, &ta, COAP_PROTO_TCP)) && tries < 60; tries++) sleep(1);
      }
      res_r = coap_resource_init(coap_make_str_const("r"), 0);
      coap_register_request_handler(res_r, COAP_REQUEST_GET, h_req);
      coap_add_resource(ctx, res_r);
      res_o = coap_resource_init(coap_make_str_const("o"), 0);
      coap_register_request_handler(res_o, COAP_REQUEST_GET, h_req);
      coap_resource_set_get_observable(res_o, 1);
      coap_add_resource(ctx, res_o);
      res_b = coap_resource_init(coap_make_str_const("b"), 0);
      coap_register_request_handler(res_b, COAP_REQUEST_GET, h_req);
      coap_add_resource(ctx, res_b);
      coap_context_set_block_mode(ctx, COAP_BLOCK_USE_LIBCOAP);
      res_a = coap_resource_init(coap_make_str_const("a"), 0);
      coap_register_request_handler(res_a, COAP_REQUEST_GET, h_req);
      coap_add_resource(ctx, res_a);
      sim_add_node(ctx);
      fflush(sim_trace);
    } else if (!ctx && c != 'E') {
      continue;
    } else if (c == 'R' || c == 'C') {
      hold_next[p] = hold;
      request(p, "r", c == 'C', -1);
      hold_next[p] = 0;
    } else if (c == 'O') {
      request(p, "o", 1, 0);
      log_observers();
    } else if (c == 'P') {
      alt_token = 1;
      request(p, "o", 1, 0);
      log_observers();
    } else if (c == 'p') {
      alt_token = 1;
      request(p, "o", 1, 1);
      log_observers();
    } else if (c == 'o') {
      request(p, "o", 1, 1);
      log_observers();
    } else if (c == 'B') {
      request_b(p, 0, 0);
    } else if (c == 'b' || c == 'e') {
      int num = 1;
      sscanf(line + 1, "%d %d", &p, &num);
      if (p < 0 || p >= NPEER) p = 0;
      request_b(p, num, c == 'e');
    } else if (c == 'A') {
      request(p, "a", 1, -1);
    } else if (c == 'a') {
      if (asyncs[p]) {
        fprintf(sim_trace, "{\"e\":\"Trigger\",\"peer\":%d}\n", p);
        coap_async_trigger(asyncs[p]);
        sim_run(sim_now + 5);
      }
    } else if (c == 'U') {
      if (held[p]) {
        fprintf(sim_trace, "{\"e\":\"Unref\",\"s\":%d,\"peer\":%d}\n", sid_of(held[p]), p);
        coap_session_release(held[p]);
        held[p] = NULL;
        sim_run(sim_now + 1);
      }
    } else if (c == 'S') {
      if (held[p]) {
        coap_pdu_t *pdu = coap_new_pdu(COAP_MESSAGE_CON, COAP_RESPONSE_CODE_CONTENT, held[p]);
        uint8_t tk = (uint8_t)(0x80 + p);
        coap_add_token(pdu, 1, &tk);
        fprintf(sim_trace, "{\"e\":\"AppSend\",\"s\":%d,\"peer\":%d}\n", sid_of(held[p]), p);
        coap_send(held[p], pdu);
        sim_run(sim_now + 1);
      }
    } else if (c == 'Q') {
      silent[p] = 1;
    } else if (c == 'N') {
      fputs("{\"e\":\"Notify\"}\n", sim_trace);
      coap_resource_notify_observers(res_o, NULL);
      sim_run(sim_now + 5);
      log_observers();
    } else if (c == 'K') {
      uint8_t r[4];
      r[0] = 0x70; r[1] = 0; r[2] = (uint8_t)(lastmid[p] >> 8); r[3] = (uint8_t)lastmid[p];
      fprintf(sim_trace, "{\"e\":\"PeerRst\",\"peer\":%d}\n", p);
      sim_inject(&peer_addr[p], &srv_addr, r, 4, 0, -1);
      sim_run(sim_now + 5);
      log_observers();
    } else if (c == 'T') {
      int k = p & 7;
      if (tcp_ep && !tp[k].s && !tp[k].fd) {
        struct sockaddr_in sa;
        memset(&sa, 0, sizeof(sa));
        sa.sin_family = AF_INET;
        sa.sin_port = tcp_ep->bind_addr.addr.sin.sin_port;
        sa.sin_addr.s_addr = htonl(INADDR_LOOPBACK);
        tp[k].fd = socket(AF_INET, SOCK_STREAM, 0);
        if (connect(tp[k].fd, (struct sockaddr *)&sa, sizeof(sa)) == 0) {
          fprintf(sim_trace, "{\"e\":\"Connect\",\"t\":%llu,\"peer\":%d}\n", (unsigned long long)sim_now, TCP_PEER0 + k);
          tp[k].connecting = 1;
          tcp_accept_pending = 1;
          sim_run(sim_now + 2);                     /* accept, NEW event, the server's CSM */
          tcp_accept_pending = 0; tp[k].connecting = 0;
          if (tp[k].s) { tp[k].in[0] = 0x00; tp[k].in[1] = 0xe1; tp[k].nin = 2; sim_run(sim_now + 2); }      /* the peer's CSM */
        }
      }
    } else if (c == 't') {
      int k = p & 7;
      char *q = line + 1;
      while (*q == ' ') q++;
      while (*q && *q != ' ') q++;
      while (*q == ' ') q++;
      if (tp[k].s && *q && tp[k].nin + 12 < sizeof(tp[k].in)) {
        uint8_t *b = tp[k].in + tp[k].nin;
        size_t n = 0;
        int obs2 = *q == 'q';            /* a second observation of /o on this connection: another token, and a query (another cache key) */
        int obs = *q == 'o' || obs2, blk = *q == 'b';
        b[n++] = (uint8_t)(((obs2 ? 7 : obs ? 3 : blk ? 4 : 2) << 4) | 1); b[n++] = 1; b[n++] = (uint8_t)((obs2 ? 0x90 : 0x10) + TCP_PEER0 + k);
        if (obs) { b[n++] = 0x60; b[n++] = 0x51; } else b[n++] = 0xb1;
        b[n++] = (uint8_t)(obs2 ? 'o' : *q);
        if (obs2) { b[n++] = 0x43; b[n++] = 'x'; b[n++] = '='; b[n++] = '1'; }
        if (blk) { b[n++] = 0xc1; b[n++] = 0x00; }              /* Block2 0 / 16 bytes: the 200-byte body becomes a transfer hanging off the session */
        tp[k].nin += n;
        hold_next[TCP_PEER0 + k] = hold;
        fprintf(sim_trace, "{\"e\":\"Inject\",\"t\":%llu,\"peer\":%d,\"path\":\"%c\",\"con\":0,\"obs\":%d}\n", (unsigned long long)sim_now, TCP_PEER0 + k, *q, obs ? 0 : -1);
        sim_run(sim_now + 5);
        hold_next[TCP_PEER0 + k] = 0;
        if (obs) log_observers();
      }
    } else if (c == 'D') {
      int k = p & 7;
      if (tp[k].s) {
        fprintf(sim_trace, "{\"e\":\"Disc\",\"t\":%llu,\"peer\":%d,\"s\":%d}\n", (unsigned long long)sim_now, TCP_PEER0 + k, sid_of(tp[k].s));
        tp[k].closing = 1;
        sim_run(sim_now + 5);
        log_observers();
      }
    } else if (c == 'I') {
      sim_run(sim_now + (uint64_t)atol(line + 1));
      fprintf(sim_trace, "{\"e\":\"IoDone\",\"t\":%llu}\n", (unsigned long long)sim_now);
      log_observers();
    } else if (c == 'F') {
      free_ctx();
    } else if (c == 'E') {
      free_ctx();
      fputs("{\"e\":\"End\"}\n", sim_trace);
      fflush(sim_trace);
    }
  }
  fclose(sim_trace);
  sim_trace = NULL;
  coap_cleanup();
  return 0;
}
