/* drv_codec.c -- driver for the codec family (C01, C03, C04): executes scripted call sequences against
 * the real PDU API and logs, per call, the return value and the accessor dump; encodings and parse inputs
 * are logged as atom lists (literal bytes, or Run(id,n) for whole pattern blobs of >= 16 bytes).
 *
 * usage: drv_codec <cases.txt> <out.ndjson> [from-case-id]
 *
 *   X id=<n> prop=<Cxx> [rs=1] [lit=1]   lit=1: log every byte literally (no runs);  rs=1: shrink the allocation to the used size before every edit (forces realloc)
 *   new <ty> <code> <mid> <max>
 *   tok|utok|data <len> <bid>       value = Pat(bid, 0..len-1)
 *   opt|ins|upd <num> <len> <bid>
 *   rem <num>
 *   enc                             encode + byte dump + re-parse for udp, tcp, ws
 *   fromwire                        replace the PDU by the result of parsing its own UDP encoding
 *   sweep <proto> <kind>            mutate the current encoding at every position and parse (kind: nib trunc app flip ins; same: unmodified)
 *   hex <proto> <hexbytes>          parse literal bytes
 *   rand <proto> <n> <maxlen> <seed>  parse n random strings
 *   E
 */
#include <coap3/coap_libcoap_build.h>
#include <stdio.h>
#include <string.h>
#include <stdlib.h>

static FILE *out;
static coap_pdu_t *pdu;
static int rs, lit;
static struct { int bid; size_t len; } blobs[64];
static int nblobs;
static uint8_t *scratch;
#define SCR (1 << 17)

static uint8_t pat(int id, size_t i) { return (uint8_t)((131u * (unsigned)id + 7u * i + (i / 256)) & 255); }

static void fill(uint8_t *b, int bid, size_t len) {
  size_t i;
  for (i = 0; i < len; i++) b[i] = pat(bid, i);
  if (len >= 16 && nblobs < 64 && !lit) {
    int k;
    for (k = 0; k < nblobs; k++) if (blobs[k].bid == bid && blobs[k].len == len) return;
    blobs[nblobs].bid = bid; blobs[nblobs].len = len; nblobs++;
  }
}

/* print bytes as a JSON array of atoms */
static void atoms(const uint8_t *b, size_t n) {
  size_t p = 0;
  int first = 1;
  fputc('[', out);
  while (p < n) {
    int k, hit = -1;
    for (k = 0; k < nblobs; k++) {
      size_t L = blobs[k].len, i;
      if (n - p < L || b[p] != pat(blobs[k].bid, 0)) continue;
      for (i = 1; i < L && b[p + i] == pat(blobs[k].bid, i); i++);
      if (i == L && (hit < 0 || L > blobs[hit].len)) hit = k;
    }
    if (!first) fputc(',', out);
    first = 0;
    if (hit >= 0) {
      fprintf(out, "%lu", 256ul + (unsigned long)blobs[hit].bid * 131072ul + (unsigned long)blobs[hit].len);
      p += blobs[hit].len;
    } else {
      fprintf(out, "%u", b[p]);
      p++;
    }
  }
  fputc(']', out);
}

static void dump(const coap_pdu_t *q) {
  coap_opt_iterator_t oi;
  coap_opt_t *o;
  coap_bin_const_t t = coap_pdu_get_token(q);
  size_t dl = 0;
  const uint8_t *dp = NULL;
  int first = 1;
  fprintf(out, "\"d\":{\"ty\":%d,\"code\":%d,\"mid\":%d,\"tok\":", coap_pdu_get_type(q), coap_pdu_get_code(q),
          coap_pdu_get_mid(q));
  atoms(t.s, t.length);
  fputs(",\"opts\":[", out);
  coap_option_iterator_init(q, &oi, COAP_OPT_ALL);
  while ((o = coap_option_next(&oi))) {
    if (!first) fputc(',', out);
    first = 0;
    fprintf(out, "[%u,", oi.number);
    atoms(coap_opt_value(o), coap_opt_length(o));
    fputc(']', out);
  }
  fputs("],\"pl\":", out);
  if (coap_get_data(q, &dl, &dp) && dl)
    atoms(dp, dl);
  else
    fputs("[]", out);
  fputc('}', out);
}

static const char *PN[] = {"udp", "tcp", "ws"};
static coap_proto_t PP[] = {COAP_PROTO_UDP, COAP_PROTO_TCP, COAP_PROTO_WS};
static int pidx(const char *s) { return !strcmp(s, "tcp") ? 1 : !strcmp(s, "ws") ? 2 : 0; }

/* parse `n` bytes (exact-size heap copy) and log verdict + dump */
static void parse_log(const char *ev, int pi, const uint8_t *b, size_t n) {
  uint8_t *copy = malloc(n ? n : 1);
  coap_pdu_t *q = coap_pdu_init(0, 0, 0, 8 * 1024 * 1024);
  int ret;
  memcpy(copy, b, n);
  ret = q ? coap_pdu_parse(PP[pi], copy, n, q) : 0;
  fprintf(out, "{\"e\":\"%s\",\"proto\":\"%s\",\"ret\":%d,\"w\":", ev, PN[pi], ret ? 1 : 0);
  atoms(b, n);
  fputc(',', out);
  if (ret)
    dump(q);
  else
    fputs("\"d\":{\"ty\":0,\"code\":0,\"mid\":0,\"tok\":[],\"opts\":[],\"pl\":[]}", out);
  fputs("}\n", out);
  coap_delete_pdu(q);
  free(copy);
}

static size_t encode(int pi, const uint8_t **start) {
  size_t h = coap_pdu_encode_header(pdu, PP[pi]);
  *start = pdu->token - h;
  return h;
}

static void pre_edit(void) {
  if (rs && pdu)
    coap_pdu_resize(pdu, pdu->used_size); /* alloc == used: any growth must realloc */
}

static void op_log(const char *op, unsigned num, size_t len, int bid, long ret) {
  fprintf(out, "{\"e\":\"Op\",\"op\":\"%s\",\"num\":%u,\"len\":%zu,\"bid\":%d,\"lit\":%d,\"ret\":%ld,", op, num, len, bid, lit, ret);
  dump(pdu);
  fputs("}\n", out);
}

static uint32_t rng;
static uint32_t rnd(void) { rng = rng * 1664525u + 1013904223u; return rng >> 8; }

int main(int argc, char **argv) {
  FILE *in;
  char line[1 << 16];
  int from = argc > 3 ? atoi(argv[3]) : 0, active = 0;
  if (argc < 3) return 2;
  in = fopen(argv[1], "r");
  out = fopen(argv[2], from ? "a" : "w");
  if (!in || !out) return 2;
  setvbuf(out, NULL, _IOFBF, 1 << 20);
  scratch = malloc(SCR);
  coap_startup();
  coap_set_log_level(getenv("DRV_DEBUG") ? COAP_LOG_DEBUG : COAP_LOG_EMERG);
  while (fgets(line, sizeof(line), in)) {
    char a[32] = "", b[32] = "";
    unsigned long v1 = 0, v2 = 0, v3 = 0, v4 = 0;
    if (line[0] == 'X') {
      int id = 0;
      char prop[8] = "C01";
      char *p;
      if ((p = strstr(line, "id="))) id = atoi(p + 3);
      if ((p = strstr(line, "prop="))) sscanf(p + 5, "%7s", prop);
      rs = strstr(line, "rs=1") != NULL;
      lit = strstr(line, "lit=1") != NULL;
      active = id >= from;
      if (pdu) { coap_delete_pdu(pdu); pdu = NULL; }
      nblobs = 0;
      if (active) {
        fprintf(out, "{\"e\":\"Reset\",\"id\":%d,\"prop\":\"%s\",\"rs\":%d}\n", id, prop, rs);
        fflush(out); /* so that a crash is attributed to this case */
      }
      continue;
    }
    if (!active) continue;
    if (sscanf(line, "%31s", a) != 1) continue;
    if (!strcmp(a, "new")) {
      sscanf(line, "%*s %lu %lu %lu %lu", &v1, &v2, &v3, &v4);
      pdu = coap_pdu_init((coap_pdu_type_t)v1, (coap_pdu_code_t)v2, (coap_mid_t)v3, v4);
      fprintf(out, "{\"e\":\"New\",\"ty\":%lu,\"code\":%lu,\"mid\":%lu,\"max\":%lu,\"ret\":%d}\n", v1, v2, v3, v4, pdu != NULL);
      if (!pdu) active = 0;
    } else if (!pdu && strcmp(a, "hex") && strcmp(a, "rand")) {
      continue;                 /* (literal and random inputs need no message under construction) */
    } else if (!strcmp(a, "tok") || !strcmp(a, "utok") || !strcmp(a, "data")) {
      long ret;
      sscanf(line, "%*s %lu %lu", &v1, &v2);
      if (v1 > SCR) continue;
      fill(scratch, (int)v2, v1);
      if (a[0] != 't') pre_edit();
      if (a[0] == 't') ret = coap_add_token(pdu, v1, scratch);
      else if (a[0] == 'u') ret = coap_update_token(pdu, v1, scratch);
      else ret = coap_add_data(pdu, v1, scratch);
      op_log(a, 0, v1, (int)v2, ret);
    } else if (!strcmp(a, "opt") || !strcmp(a, "ins") || !strcmp(a, "upd")) {
      long ret;
      sscanf(line, "%*s %lu %lu %lu", &v1, &v2, &v3);
      if (v2 > SCR) continue;
      fill(scratch, (int)v3, v2);
      pre_edit();
      if (a[0] == 'o') ret = (long)coap_add_option(pdu, (coap_option_num_t)v1, v2, scratch);
      else if (a[0] == 'i') ret = (long)coap_insert_option(pdu, (coap_option_num_t)v1, v2, scratch);
      else ret = (long)coap_update_option(pdu, (coap_option_num_t)v1, v2, scratch);
      op_log(a, (unsigned)v1, v2, (int)v3, ret);
    } else if (!strcmp(a, "rem")) {
      long ret;
      sscanf(line, "%*s %lu", &v1);
      pre_edit();
      ret = coap_remove_option(pdu, (coap_option_num_t)v1);
      op_log(a, (unsigned)v1, 0, 0, ret);
    } else if (!strcmp(a, "enc")) {
      int pi;
      for (pi = 0; pi < 3; pi++) {
        const uint8_t *st;
        coap_pdu_type_t ty = pdu->type; /* the reliable encodings overwrite the type field */
        size_t h = encode(pi, &st), n = h + pdu->used_size;
        uint8_t *cp = malloc(n ? n : 1);
        memcpy(cp, st, n);
        pdu->type = ty;
        fprintf(out, "{\"e\":\"Enc\",\"proto\":\"%s\",\"ret\":%zu,\"w\":", PN[pi], h);
        atoms(cp, n);
        fputs("}\n", out);
        if (h) parse_log("Reparse", pi, cp, n);
        free(cp);
      }
    } else if (!strcmp(a, "fromwire")) {
      const uint8_t *st;
      size_t h = encode(0, &st), n = h + pdu->used_size;
      uint8_t *cp = malloc(n ? n : 1);
      coap_pdu_t *q = coap_pdu_init(0, 0, 0, pdu->max_size);
      memcpy(cp, st, n);
      if (q && coap_pdu_parse(COAP_PROTO_UDP, cp, n, q)) {
        coap_delete_pdu(pdu);
        pdu = q;
        fprintf(out, "{\"e\":\"FromWire\",\"ret\":1}\n");
      } else {
        coap_delete_pdu(q);
        fprintf(out, "{\"e\":\"FromWire\",\"ret\":0}\n");
      }
      free(cp);
    } else if (!strcmp(a, "sweep")) {
      int pi;
      const uint8_t *st;
      size_t h, n, p;
      uint8_t *cp, *m;
      sscanf(line, "%*s %31s %31s", b, a);
      pi = pidx(b);
      h = encode(pi, &st);
      n = h + pdu->used_size;
      if (!h || (n > 4096 && strcmp(a, "same"))) continue;     /* position sweeps only for short encodings */
      cp = malloc(n + 2);
      m = malloc(n + 2);
      memcpy(cp, st, n);
      if (!strcmp(a, "nib")) {
        for (p = 0; p < n; p++) {
          static const uint8_t V[] = {13, 14, 15, 0, 9, 12};
          int k;
          for (k = 0; k < 6; k++) {
            memcpy(m, cp, n); m[p] = (uint8_t)((cp[p] & 0x0f) | (V[k] << 4)); parse_log("Parse", pi, m, n);
            memcpy(m, cp, n); m[p] = (uint8_t)((cp[p] & 0xf0) | V[k]); parse_log("Parse", pi, m, n);
          }
        }
      } else if (!strcmp(a, "trunc")) {
        for (p = 0; p < n; p++) parse_log("Parse", pi, cp, p);
      } else if (!strcmp(a, "same")) {
        parse_log("Parse", pi, cp, n);                        /* the encoding as it is (it may be that of a PDU no decoder should take) */
      } else if (!strcmp(a, "app")) {
        static const uint8_t V[] = {0xff, 0x00, 0xd0, 0xe0, 0x11, 0xf1};
        int k;
        for (k = 0; k < 6; k++) { memcpy(m, cp, n); m[n] = V[k]; parse_log("Parse", pi, m, n + 1); }
        memcpy(m, cp, n); m[n] = 0xff; m[n + 1] = 0xff; parse_log("Parse", pi, m, n + 2);
      } else if (!strcmp(a, "flip")) {
        for (p = 0; p < n; p++) {
          memcpy(m, cp, n); m[p] ^= 0xff; parse_log("Parse", pi, m, n);
          memcpy(m, cp, n); m[p] = 0xff; parse_log("Parse", pi, m, n);
          memcpy(m, cp, n); m[p] = (uint8_t)(cp[p] + 1); parse_log("Parse", pi, m, n);
          memcpy(m, cp, n); m[p] = (uint8_t)(cp[p] - 1); parse_log("Parse", pi, m, n);
        }
      } else if (!strcmp(a, "ins")) {
        for (p = 0; p <= n; p++) {
          static const uint8_t V[] = {0xff, 0x00, 0xe0};
          int k;
          for (k = 0; k < 3; k++) {
            memcpy(m, cp, p); m[p] = V[k]; memcpy(m + p + 1, cp + p, n - p); parse_log("Parse", pi, m, n + 1);
          }
        }
      }
      free(cp); free(m);
    } else if (!strcmp(a, "hex")) {
      char *h;
      size_t n = 0;
      sscanf(line, "%*s %31s", b);
      h = strstr(line, b) + strlen(b);
      while (*h == ' ') h++;
      while (h[0] && h[1] && h[0] != '\n' && n < SCR) {
        unsigned x;
        if (sscanf(h, "%2x", &x) != 1) break;
        scratch[n++] = (uint8_t)x; h += 2;
      }
      parse_log("Parse", pidx(b), scratch, n);
    } else if (!strcmp(a, "rand")) {
      unsigned long k;
      sscanf(line, "%*s %31s %lu %lu %lu", b, &v1, &v2, &v3);
      rng = (uint32_t)v3;
      for (k = 0; k < v1; k++) {
        size_t n = rnd() % (v2 + 1), i;
        for (i = 0; i < n; i++) scratch[i] = (uint8_t)rnd();
        /* bias towards plausible headers */
        if (n >= 2 && (rnd() & 1)) { scratch[0] = (uint8_t)(0x40 | (rnd() & 0x3f)); scratch[1] = (uint8_t)(rnd() & 1 ? 1 : 0x45); }
        parse_log("Parse", pidx(b), scratch, n);
      }
    }
  }
  if (pdu) coap_delete_pdu(pdu);
  fclose(out);
  coap_cleanup();
  return 0;
}
