/* drv_stream.c -- driver for C05 (TCP framing): a real libcoap TCP server session (created through the real
 * accept() path on a loopback listener) is fed a scripted byte stream in scripted chunks through the wrapped
 * coap_socket_read(); what the protocol layer receives is logged.
 *
 * usage: drv_stream <cases.txt> <out.ndjson>
 *   X id=<n> max=<csm max message size, 0 = default> edge=<0|1> ws=<0|1> http=<length of the HTTP upgrade request at the start of the stream> role=<0|1>
 *        role=1: the session under test is a libcoap CLIENT session connected (really) to a listener the driver owns; the
 *        stream is what the server sends (for ws=1: the HTTP 101 response - whose Sec-WebSocket-Accept value the driver
 *        patches in where the stream has 28 '#' characters - followed by UNMASKED frames)
 *        ws=1: a WebSocket endpoint (RFC 8323 section 8): the stream is the upgrade request followed by masked frames
 *        edge=1: readiness is signalled once per arriving chunk (until the first read after its arrival), the way a
 *        TLS layer underneath behaves: the record is decrypted by the first read and the rest sits in the TLS
 *        library's buffer, the socket does not become readable again for it
 *        hostile=1: the stream is not a valid one; only robustness is judged (C02)
 *        wr=1: responses echo the request payload, and everything the library writes after its handshake response is logged (Wr events)
 *   K <bid> <len>        declare a pattern blob (abbreviated as a run in the trace)
 *   S <hex>              append bytes to the stream
 *   P <bid> <len>        append the pattern blob bytes to the stream
 *   C <n1> <n2> ...      chunk lengths; the rest of the stream goes in a last chunk; 0 = a read that returns nothing
 *   E
 */
#include "simnet.h"
#include <sys/epoll.h>
#include <sys/socket.h>
#include <unistd.h>
#include <string.h>
#include <stdlib.h>
#include <errno.h>
#include <gnutls/gnutls.h>
#include <gnutls/crypto.h>

extern int (*sim_extra_events)(int epfd, struct epoll_event *events, int max);

static coap_context_t *ctx;
static coap_endpoint_t *ep;
static coap_session_t *sess;
static uint8_t *stream;
static size_t slen, scap, spos, arrived;
static size_t chunks[4096];
static int nchunks, curchunk;
static size_t chunk_left;
static int chunk_open, accepted, closed, cfd = -1;
static int edge, signalled_read, ws, httplen, role, hostile, wrlog, lfd = -1;     /* edge mode: a read has been made since the last arrival */
static struct { int bid; size_t len; } blobs[32];
static int nblobs;

static uint8_t pat(int id, size_t i) { return (uint8_t)((131u * (unsigned)id + 7u * i + (i / 256)) & 255); }

static void atoms(const uint8_t *b, size_t n) {
  size_t p = 0;
  int first = 1;
  fputc('[', sim_trace);
  while (p < n) {
    int k, hit = -1;
    for (k = 0; k < nblobs; k++) {
      size_t L = blobs[k].len, i;
      if (n - p < L || b[p] != pat(blobs[k].bid, 0)) continue;
      for (i = 1; i < L && b[p + i] == pat(blobs[k].bid, i); i++);
      if (i == L && (hit < 0 || L > blobs[hit].len)) hit = k;
    }
    if (!first) fputc(',', sim_trace);
    first = 0;
    if (hit >= 0) {
      fprintf(sim_trace, "%lu", 256ul + (unsigned long)blobs[hit].bid * 131072ul + (unsigned long)blobs[hit].len);
      p += blobs[hit].len;
    } else
      fprintf(sim_trace, "%u", b[p++]);
  }
  fputc(']', sim_trace);
}

ssize_t __wrap_coap_socket_read(coap_socket_t *sock, uint8_t *data, size_t data_len) {
  size_t n;
  (void)sock;
  if (!chunk_open) {
    /* nothing offered right now: would block */
    sock->flags &= ~COAP_SOCKET_CAN_READ;
    return 0;
  }
  signalled_read = 1;
  if (data_len == 0) {
    /* recv() with a zero length returns 0, which coap_socket_read() takes for the peer's shutdown */
    sock->flags &= ~COAP_SOCKET_CAN_READ;
    errno = ECONNRESET;
    return -1;
  }
  n = chunk_left < data_len ? chunk_left : data_len;
  memcpy(data, stream + spos, n);
  spos += n;
  chunk_left -= n;
  if (chunk_left == 0)
    chunk_open = 0;
  if (n < data_len)
    sock->flags &= ~COAP_SOCKET_CAN_READ;
  return (ssize_t)n;
}

static void b64(const uint8_t *in, size_t n, char *out) {
  static const char T[] = "ABCDEFGHIJKLMNOPQRSTUVWXYZabcdefghijklmnopqrstuvwxyz0123456789+/";
  size_t i, o = 0;
  for (i = 0; i < n; i += 3) {
    uint32_t v = (uint32_t)in[i] << 16 | (i + 1 < n ? (uint32_t)in[i + 1] << 8 : 0) | (i + 2 < n ? in[i + 2] : 0);
    out[o++] = T[v >> 18 & 63];
    out[o++] = T[v >> 12 & 63];
    out[o++] = i + 1 < n ? T[v >> 6 & 63] : '=';
    out[o++] = i + 2 < n ? T[v & 63] : '=';
  }
  out[o] = 0;
}

/* client role, WebSocket: the upgrade request names the key; RFC 6455 section 4.2.2 says what the server answers */
static void patch_accept(const uint8_t *req, size_t n) {
  static const char K[] = "Sec-WebSocket-Key: ", G[] = "258EAFA5-E914-47DA-95CA-C5AB0DC85B11";
  char cat[128], acc[32];
  uint8_t dig[20];
  size_t i, kl = sizeof(K) - 1, j;
  for (i = 0; i + kl < n; i++)
    if (!memcmp(req + i, K, kl)) break;
  if (i + kl >= n) return;
  for (j = 0; i + kl + j < n && req[i + kl + j] != '\r' && j < 60; j++) cat[j] = (char)req[i + kl + j];
  memcpy(cat + j, G, sizeof(G));
  gnutls_hash_fast(GNUTLS_DIG_SHA1, cat, strlen(cat), dig);
  b64(dig, 20, acc);
  for (i = 0; i + 28 <= slen && i + 28 <= (size_t)httplen; i++) {
    for (j = 0; j < 28 && stream[i + j] == '#'; j++);
    if (j == 28) { memcpy(stream + i, acc, 28); return; }
  }
}

ssize_t __wrap_coap_socket_write(coap_socket_t *sock, const uint8_t *data, size_t data_len) {
  sock->flags &= ~(COAP_SOCKET_WANT_WRITE | COAP_SOCKET_CAN_WRITE);
  if (role && ws && data_len > 20 && !memcmp(data, "GET ", 4)) patch_accept(data, data_len);
  if (wrlog && !role && sim_trace && !(data_len > 4 && !memcmp(data, "HTTP", 4))) {
    /* what the library writes to the stream (wr=1): judged as framing by Trace_Stream (the write side of C01) */
    size_t i;
    fputs("{\"e\":\"Wr\",\"b\":[", sim_trace);
    for (i = 0; i < data_len; i++) fprintf(sim_trace, "%s%u", i ? "," : "", data[i]);
    fputs("]}\n", sim_trace);
  }
  return (ssize_t)data_len;
}

static int extra_events(int epfd, struct epoll_event *events, int max) {
  int n = 0;
  if (!ctx || epfd != ctx->epfd || max < 1)
    return 0;
  if (!accepted && ep) {
    /* level triggered: offered until the library has accepted the connection (a build with real locking polls twice) */
    events[n].events = EPOLLIN;
    events[n].data.ptr = &ep->sock;
    n++;
    return n;
  }
  if (role && sess && !closed && (sess->sock.flags & COAP_SOCKET_WANT_CONNECT)) {
    events[n].events = EPOLLOUT;          /* the (real, loopback) connection is up */
    events[n].data.ptr = &sess->sock;
    n++;
    return n;
  }
  if (sess && !closed && chunk_open && (sess->sock.flags & COAP_SOCKET_WANT_READ) && !(edge && signalled_read)) {
    events[n].events = EPOLLIN;
    events[n].data.ptr = &sess->sock;
    n++;
  }
  return n;
}

static void h_req(coap_resource_t *r, coap_session_t *s, const coap_pdu_t *req, const coap_string_t *q, coap_pdu_t *resp) {
  coap_bin_const_t t = coap_pdu_get_token(req);
  size_t dl = 0;
  const uint8_t *dp = NULL;
  (void)r; (void)s; (void)q;
  fprintf(sim_trace, "{\"e\":\"Req\",\"code\":%d,\"tok\":", coap_pdu_get_code(req));
  atoms(t.s, t.length);
  fputs(",\"pl\":", sim_trace);
  if (coap_get_data(req, &dl, &dp) && dl) atoms(dp, dl); else fputs("[]", sim_trace);
  fputs("}\n", sim_trace);
  coap_pdu_set_code(resp, COAP_RESPONSE_CODE_CHANGED);
  if (wrlog && dl) coap_add_data(resp, dl, dp);          /* the response's size follows the request's */
}

static void h_ping(coap_session_t *s, const coap_pdu_t *rcv, const coap_mid_t mid) {
  coap_bin_const_t t = coap_pdu_get_token(rcv);
  (void)s; (void)mid;
  if (coap_pdu_get_code(rcv) != COAP_SIGNALING_CODE_PING)
    return;                   /* libcoap also reports an Empty message here; RFC 8323: ignored */
  fputs("{\"e\":\"Pong\",\"tok\":", sim_trace);     /* a Ping reached the protocol layer (which answers it with a Pong) */
  atoms(t.s, t.length);
  fputs("}\n", sim_trace);
}

static int h_event(coap_session_t *s, const coap_event_t ev) {
  if (ev == COAP_EVENT_SERVER_SESSION_NEW && !role) {
    accepted = 1;
    sess = s;
    coap_session_reference(s);
  }
  if (s == sess && (ev == COAP_EVENT_TCP_CLOSED || ev == COAP_EVENT_SESSION_CLOSED || ev == COAP_EVENT_SESSION_FAILED ||
                    ev == COAP_EVENT_TCP_FAILED || ev == COAP_EVENT_WS_CLOSED)) {
    if (!closed) fputs("{\"e\":\"Closed\"}\n", sim_trace);
    closed = 1;
  }
  return 0;
}

/* The library's receive buffer is a local array of coap_read_session(): dead between two read events, and shared by all sessions.
 * Overwrite the dead part of the stack between events, the way any other work of the process would. */
static void __attribute__((noinline)) scribble(void) {
  uint8_t junk[40 * 1024];
  memset(junk, 0xA5, sizeof(junk));
  __asm__ volatile("" : : "r"(junk) : "memory");        /* the stores are not dead as far as the compiler can tell */
}
static int round_(void) { scribble(); return sim_round(); }
#define sim_round round_

static void run_case(int id, int max) {
  coap_proto_t proto = ws ? COAP_PROTO_WS : COAP_PROTO_TCP;
  coap_address_t a;
  coap_resource_t *r;
  struct sockaddr_in sa;
  int i;
  ctx = coap_new_context(NULL);
  if (max) coap_context_set_csm_max_message_size(ctx, (uint32_t)max);
  coap_register_event_handler(ctx, h_event);
  coap_context_set_max_token_size(ctx, 65804);   /* RFC 8974 extended tokens accepted */
  coap_register_ping_handler(ctx, h_ping);
  r = coap_resource_unknown_init2(h_req, 0);
  for (i = 1; i <= 7; i++) coap_register_request_handler(r, (coap_request_t)i, h_req);
  coap_add_resource(ctx, r);
  sim_addr(&a, "127.0.0.1", 0);
  accepted = closed = 0;
  sess = NULL;
  curchunk = 0; spos = 0; arrived = 0; chunk_open = 0; chunk_left = 0; signalled_read = 0;
  if (!role) {
    int tries;
    for (tries = 0; !(ep = coap_new_endpoint(ctx, &a, proto)) && tries < 60; tries++) sleep(1);     /* many cases per process: wait out port exhaustion */
    if (!ep) { fputs("{\"e\":\"Crash\"}\n", sim_trace); fflush(sim_trace); _exit(3); }
    sim_add_node(ctx);
    /* a real connection so that the library's accept() succeeds */
    cfd = socket(AF_INET, SOCK_STREAM, 0);
    memset(&sa, 0, sizeof(sa));
    sa.sin_family = AF_INET;
    sa.sin_port = ep->bind_addr.addr.sin.sin_port;
    sa.sin_addr.s_addr = htonl(INADDR_LOOPBACK);
    if (connect(cfd, (struct sockaddr *)&sa, sizeof(sa)) < 0) { fputs("{\"e\":\"Crash\"}\n", sim_trace); return; }
  } else {
    /* the driver is the server: a real listener, a real connect() by the library's client session */
    socklen_t sl = sizeof(sa);
    int one = 1, tries;
    ep = NULL;
    lfd = socket(AF_INET, SOCK_STREAM, 0);
    setsockopt(lfd, SOL_SOCKET, SO_REUSEADDR, &one, sizeof(one));
    memset(&sa, 0, sizeof(sa));
    sa.sin_family = AF_INET;
    sa.sin_addr.s_addr = htonl(INADDR_LOOPBACK);
    for (tries = 0; bind(lfd, (struct sockaddr *)&sa, sizeof(sa)) < 0 && tries < 60; tries++) sleep(1);
    if (listen(lfd, 4) < 0 || getsockname(lfd, (struct sockaddr *)&sa, &sl) < 0) { fputs("{\"e\":\"Crash\"}\n", sim_trace); fflush(sim_trace); _exit(3); }
    sim_add_node(ctx);
    sim_addr(&a, "127.0.0.1", ntohs(sa.sin_port));
    for (tries = 0; !(sess = coap_new_client_session(ctx, NULL, &a, proto)) && tries < 60; tries++) sleep(1);
    if (!sess) { fputs("{\"e\":\"Crash\"}\n", sim_trace); fflush(sim_trace); _exit(3); }
    if (ws) coap_ws_set_host_request(sess, coap_make_str_const("localhost"));
    accepted = 1;
    cfd = accept(lfd, NULL, NULL);
    if (cfd < 0) { fputs("{\"e\":\"Crash\"}\n", sim_trace); return; }
  }
  fprintf(sim_trace, "{\"e\":\"Reset\",\"id\":%d,\"max\":%lu,\"proto\":\"%s\",\"http\":%d,\"role\":\"%s\",\"hostile\":%d}\n", id,
          (unsigned long)(max ? max : 8388864), ws ? "ws" : "tcp", httplen, role ? "c" : "s", hostile);
  fputs("{\"e\":\"Stream\",\"w\":", sim_trace);
  atoms(stream, slen);
  fputs("}\n", sim_trace);
  fflush(sim_trace);
  sim_round();                       /* accept / connect, the library's opening message (CSM or upgrade request) */
  if (role) { int g; for (g = 0; g < 8 && sess && !closed && (sess->sock.flags & COAP_SOCKET_WANT_CONNECT); g++) sim_round(); }
  /* offer the chunks one per scheduler round */
  for (;;) {
    size_t rest = slen - arrived, c;
    int guard = 0;
    if (closed || !sess) break;
    if (curchunk < nchunks) c = chunks[curchunk] < rest ? chunks[curchunk] : rest;
    else if (rest) c = rest;
    else break;
    if (c == 0 && curchunk >= nchunks) break;
    arrived += c;
    chunk_left += c;                  /* edge mode: bytes the library left unread earlier are still there */
    chunk_open = 1;
    signalled_read = 0;
    if (chunk_left == 0) {
      /* a wake-up with nothing to read */
      sim_round();
      chunk_open = 0;
    } else {
      while (chunk_left > 0 && !closed && guard++ < 100000) {
        size_t before = spos;
        sim_round();
        if (edge && signalled_read && spos == before) break;    /* nothing more will be signalled for this arrival */
      }
    }
    curchunk++;
  }
  sim_round();
  fprintf(sim_trace, "{\"e\":\"End\",\"consumed\":%zu,\"closed\":%d}\n", spos, closed);
  if (sess) coap_session_release(sess);
  sess = NULL;
  sim_remove_node(ctx);
  coap_free_context(ctx);
  ctx = NULL; ep = NULL;
  {
    struct linger lg = {1, 0};                       /* reset instead of TIME_WAIT: thousands of connections per run */
    setsockopt(cfd, SOL_SOCKET, SO_LINGER, &lg, sizeof(lg));
  }
  close(cfd);
  if (lfd >= 0) { close(lfd); lfd = -1; }
}

int main(int argc, char **argv) {
  FILE *in;
  static char line[1 << 20];
  int id = 0, max = 0;
  if (argc < 3) return 2;
  in = fopen(argv[1], "r");
  sim_trace = fopen(argv[2], "w");
  if (!in || !sim_trace) return 2;
  setvbuf(sim_trace, NULL, _IOFBF, 1 << 20);
  coap_startup();
  coap_set_log_level(getenv("DRV_DEBUG") ? COAP_LOG_DEBUG : COAP_LOG_EMERG);
  sim_trace_io = 0;
  sim_extra_events = extra_events;
  sim_nested_wait = 1;             /* a client session that is made to act before the peer's CSM waits for it (coap_client_delay_first): in virtual time */
  scap = 1 << 20;
  stream = malloc(scap);
  while (fgets(line, sizeof(line), in)) {
    if (line[0] == 'X') {
      char *p = strstr(line, "id=");
      id = p ? atoi(p + 3) : 0;
      p = strstr(line, "max=");
      max = p ? atoi(p + 4) : 0;
      p = strstr(line, "edge=");
      edge = p ? atoi(p + 5) : 0;
      p = strstr(line, "ws=");
      ws = p ? atoi(p + 3) : 0;
      p = strstr(line, "http=");
      httplen = p ? atoi(p + 5) : 0;
      p = strstr(line, "role=");
      role = p ? atoi(p + 5) : 0;
      p = strstr(line, "hostile=");
      hostile = p ? atoi(p + 8) : 0;
      p = strstr(line, "wr=");
      wrlog = p ? atoi(p + 3) : 0;
      slen = 0; nchunks = 0; nblobs = 0;
      sim_reset(1000);
    } else if (line[0] == 'K') {
      if (nblobs < 32 && sscanf(line + 1, "%d %zu", &blobs[nblobs].bid, &blobs[nblobs].len) == 2) nblobs++;
    } else if (line[0] == 'S') {
      char *h = line + 1;
      while (*h == ' ') h++;
      while (h[0] && h[1] && h[0] != '\n' && slen < scap) {
        unsigned x;
        if (sscanf(h, "%2x", &x) != 1) break;
        stream[slen++] = (uint8_t)x;
        h += 2;
      }
    } else if (line[0] == 'P') {
      int bid; size_t len, i;
      if (sscanf(line + 1, "%d %zu", &bid, &len) == 2)
        for (i = 0; i < len && slen < scap; i++) stream[slen++] = pat(bid, i);
    } else if (line[0] == 'C') {
      char *t;
      for (t = strtok(line + 1, " \n"); t && nchunks < 4096; t = strtok(NULL, " \n")) chunks[nchunks++] = (size_t)atol(t);
    } else if (line[0] == 'E') {
      run_case(id, max);
    }
  }
  fclose(sim_trace);
  coap_cleanup();
  return 0;
}
