/* drv_uri.c -- driver for C16: URI text <-> options on exact-size heap copies (ASan sees any overread).
 *
 * usage: drv_uri <cases.txt> <out.ndjson> [from-line]
 *   P <hex>            path text (no leading '/')  -> coap_split_path, coap_path_into_optlist
 *   Q <hex>            query text                  -> coap_split_query, coap_query_into_optlist
 *   U <hex>            URI text                    -> coap_split_uri (+ coap_uri_into_optlist)
 *   S <hex> <hex> ...  Uri-Path option values      -> coap_get_uri_path, fed back through coap_split_path
 *   T <hex> <hex> ...  Uri-Query option values     -> coap_get_query, fed back through coap_split_query
 *   ("-" is the empty string)
 */
#include <coap3/coap_libcoap_build.h>
#include <stdio.h>
#include <string.h>
#include <stdlib.h>

static FILE *out;

static size_t unhex(const char *h, uint8_t *b, size_t cap) {
  size_t n = 0;
  if (!strcmp(h, "-")) return 0;
  while (h[0] && h[1] && n < cap) {
    unsigned x;
    if (sscanf(h, "%2x", &x) != 1) break;
    b[n++] = (uint8_t)x;
    h += 2;
  }
  return n;
}
static void arr(const uint8_t *b, size_t n) {
  size_t i;
  fputc('[', out);
  for (i = 0; i < n; i++) fprintf(out, "%s%u", i ? "," : "", b[i]);
  fputc(']', out);
}
static uint8_t *exact(const uint8_t *b, size_t n) {
  uint8_t *c = malloc(n ? n : 1);   /* n == 0: 1 byte that must not be read ... cannot poison portably; use n bytes */
  if (n) memcpy(c, b, n);
  return c;
}
/* print the options written by coap_split_path/query into buf */
static void optbuf(const uint8_t *buf, size_t used, int n) {
  int i;
  const uint8_t *p = buf;
  fputc('[', out);
  for (i = 0; i < n && (size_t)(p - buf) < used; i++) {
    coap_option_t o;
    size_t sz = coap_opt_parse(p, used - (p - buf), &o);
    if (!sz) break;
    if (i) fputc(',', out);
    arr(o.value, o.length);
    p += sz;
  }
  fputc(']', out);
}
static void optlist(coap_optlist_t *ol, coap_option_num_t num) {
  int first = 1;
  fputc('[', out);
  for (; ol; ol = ol->next) {
    if (ol->number != num) continue;
    if (!first) fputc(',', out);
    first = 0;
    arr(ol->data, ol->length);
  }
  fputc(']', out);
}

static void do_pq(int isq, const uint8_t *b, size_t n) {
  uint8_t *c = exact(b, n);
  size_t need = 4 * n + 16, bl, k;
  uint8_t *buf = malloc(need);
  int r;
  coap_optlist_t *ol = NULL;
  bl = need;
  r = isq ? coap_split_query(c, n, buf, &bl) : coap_split_path(c, n, buf, &bl);
  fprintf(out, "{\"e\":\"%s\",\"api\":\"split\",\"s\":", isq ? "Q2O" : "P2O");
  arr(b, n);
  fprintf(out, ",\"ret\":%d,\"segs\":", r);
  optbuf(buf, bl, r);
  fputs("}\n", out);
  /* every smaller output buffer: must stay inside it (exact-size heap buffer under ASan) */
  for (k = 0; k <= bl + 1 && k < 40; k++) {
    uint8_t *small = malloc(k ? k : 1);
    size_t sl = k;
    int r2 = isq ? coap_split_query(c, n, small, &sl) : coap_split_path(c, n, small, &sl);
    if (sl > k || r2 > r || r2 < 0)
      fprintf(out, "{\"e\":\"BufSweep\",\"isq\":%d,\"cap\":%zu,\"used\":%zu,\"ret\":%d,\"full\":%d}\n", isq, k, sl, r2, r);
    free(small);
  }
  r = isq ? coap_query_into_optlist(c, n, COAP_OPTION_URI_QUERY, &ol) : coap_path_into_optlist(c, n, COAP_OPTION_URI_PATH, &ol);
  fprintf(out, "{\"e\":\"%s\",\"api\":\"optlist\",\"s\":", isq ? "Q2O" : "P2O");
  arr(b, n);
  fprintf(out, ",\"ret\":%d,\"segs\":", r);
  optlist(ol, isq ? COAP_OPTION_URI_QUERY : COAP_OPTION_URI_PATH);
  fputs("}\n", out);
  coap_delete_optlist(ol);
  free(buf);
  free(c);
}

static int scheme_idx(int s) {
  switch (s) {
  case COAP_URI_SCHEME_COAP: return 0;
  case COAP_URI_SCHEME_COAPS: return 1;
  case COAP_URI_SCHEME_COAP_TCP: return 2;
  case COAP_URI_SCHEME_COAPS_TCP: return 3;
  case COAP_URI_SCHEME_COAP_WS: return 4;
  case COAP_URI_SCHEME_COAPS_WS: return 5;
  default: return 100 + s;
  }
}

static void do_uri(const uint8_t *b, size_t n) {
  uint8_t *c = exact(b, n);
  coap_uri_t u;
  int r = coap_split_uri(c, n, &u);
  fprintf(out, "{\"e\":\"Uri\",\"s\":");
  arr(b, n);
  fprintf(out, ",\"ret\":%d", r);
  if (r == 0) {
    fprintf(out, ",\"scheme\":%d,\"port\":%u,\"host\":", scheme_idx(u.scheme), u.port);
    arr(u.host.s, u.host.length);
    fputs(",\"path\":", out);
    arr(u.path.s, u.path.length);
    fputs(",\"query\":", out);
    arr(u.query.s, u.query.length);
    {
      /* the whole way into options; destination = a different address so that Uri-Host is kept */
      coap_optlist_t *ol = NULL;
      coap_address_t dst;
      int r2;
      coap_address_init(&dst);
      dst.addr.sin.sin_family = AF_INET;
      dst.size = sizeof(struct sockaddr_in);
      r2 = coap_uri_into_optlist(&u, &dst, &ol, 1);
      fprintf(out, ",\"ol\":%d,\"opath\":", r2);
      optlist(ol, COAP_OPTION_URI_PATH);
      fputs(",\"oquery\":", out);
      optlist(ol, COAP_OPTION_URI_QUERY);
      fputs(",\"ohost\":", out);
      optlist(ol, COAP_OPTION_URI_HOST);
      fputs(",\"oport\":", out);
      optlist(ol, COAP_OPTION_URI_PORT);
      coap_delete_optlist(ol);
    }
  }
  fputs("}\n", out);
  free(c);
}

static void do_segs(int isq, char *rest) {
  coap_pdu_t *pdu = coap_pdu_init(COAP_MESSAGE_CON, COAP_REQUEST_CODE_GET, 1, 4096);
  uint8_t v[300];
  char *t;
  coap_string_t *s;
  int first = 1;
  fprintf(out, "{\"e\":\"%s\",\"segs\":[", isq ? "O2Q" : "O2P");
  for (t = strtok(rest, " \n"); t; t = strtok(NULL, " \n")) {
    size_t n = unhex(t, v, sizeof(v));
    coap_add_option(pdu, isq ? COAP_OPTION_URI_QUERY : COAP_OPTION_URI_PATH, n, v);
    if (!first) fputc(',', out);
    first = 0;
    arr(v, n);
  }
  s = isq ? coap_get_query(pdu) : coap_get_uri_path(pdu);
  fputs("],\"null\":", out);
  fprintf(out, "%d,\"s\":", s == NULL);
  if (s) arr(s->s, s->length); else fputs("[]", out);
  {
    /* feed back: exact-size copy of the string libcoap produced */
    size_t n = s ? s->length : 0, bl = 4 * n + 16;
    uint8_t *c = exact(s ? s->s : (const uint8_t *)"", n), *buf = malloc(bl);
    int r = isq ? coap_split_query(c, n, buf, &bl) : coap_split_path(c, n, buf, &bl);
    fprintf(out, ",\"backret\":%d,\"back\":", r);
    optbuf(buf, bl, r);
    free(c);
    free(buf);
  }
  fputs("}\n", out);
  coap_delete_string(s);
  coap_delete_pdu(pdu);
}

int main(int argc, char **argv) {
  FILE *in;
  static char line[1 << 16];
  static uint8_t b[1 << 15];
  long from = argc > 3 ? atol(argv[3]) : 0, ln = 0;
  if (argc < 3) return 2;
  in = fopen(argv[1], "r");
  out = fopen(argv[2], from ? "a" : "w");
  if (!in || !out) return 2;
  setvbuf(out, NULL, _IOFBF, 1 << 20);
  coap_startup();
  coap_set_log_level(COAP_LOG_EMERG);
  while (fgets(line, sizeof(line), in)) {
    char h[1 << 15] = "";
    ln++;
    if (ln <= from) continue;
    fprintf(out, "{\"e\":\"Case\",\"ln\":%ld}\n", ln);
    fflush(out);
    if (line[0] == 'P' || line[0] == 'Q' || line[0] == 'U') {
      size_t n;
      sscanf(line + 1, "%32767s", h);
      n = unhex(h, b, sizeof(b));
      if (line[0] == 'U') do_uri(b, n);
      else do_pq(line[0] == 'Q', b, n);
    } else if (line[0] == 'S' || line[0] == 'T') {
      do_segs(line[0] == 'T', line + 1);
    }
  }
  fclose(out);
  coap_cleanup();
  return 0;
}
