/* drv_block.c -- driver for C09 (block-wise transfer): a real libcoap client and a real libcoap server on the
 * simulator, with a scripted loss / duplication / delay verdict per emitted datagram.
 *
 * usage: drv_block <cases.txt> <out.ndjson>
 *   X id=<n> single=<0|1> con=<0|1> cmtu=<client mtu> smtu=<server mtu> cszx=<-1|0..6> sszx=<-1|0..6> gap=<ms>
 *        cszx: block size the client asks for (Block1/Block2 option in the first request); sszx: server's max block size
 *        gap:  virtual ms between the submissions of successive transfers (0 = concurrent)
 *        slow=<ms>: every datagram takes that long (no fault): a long transfer lasts longer than MAX_TRANSMIT_WAIT although every exchange is prompt
 *   T <x> <l1> <b1> <l2> <b2>   transfer x: request body (length l1, pattern b1; l1 = -1: none, GET) and response body
 *                                (l2 = -1: none, plain 2.04)
 *   N <v0> <v1> ...             network verdict for the i-th datagram emitted by either side:
 *                                p pass, d drop, 2 duplicate, l late (3.5 s), s slightly late (40 ms); default p
 *   E                           run to quiescence, tear both endpoints down
 */
#include "simnet.h"
#include <string.h>
#include <stdlib.h>

#define MAXT 8
static coap_context_t *sctx, *cctx;
static coap_session_t *csess;
static coap_address_t srv_addr;
static int single, con, cmtu, smtu, cszx, sszx, gap, slow;
static struct xfer { int x, l1, b1, l2, b2; uint8_t tok[2]; int submitted; } T[MAXT];
static int nT;
static char verdicts[4096];
static int nverd, emitted;
static int srv_serial;
static int in_teardown;

static uint8_t pat(int id, size_t i) { return (uint8_t)((131u * (unsigned)id + 7u * i + (i / 256)) & 255); }

static uint8_t *mkbody(int bid, size_t len) {
  uint8_t *p = malloc(len ? len : 1);
  size_t i;
  for (i = 0; i < len; i++) p[i] = pat(bid, i);
  return p;
}

/* which declared body (pattern id) the bytes are a slice of, at offset off; -1 none; -2 when n == 0 */
static int match(const uint8_t *d, size_t n, size_t off) {
  int k, j;
  if (n == 0) return -2;
  for (k = 0; k < nT; k++)
    for (j = 0; j < 2; j++) {
      int bid = j ? T[k].b2 : T[k].b1, len = j ? T[k].l2 : T[k].l1;
      size_t i;
      if (len < 0) continue;
      for (i = 0; i < n && d[i] == pat(bid, off + i); i++);
      if (i == n) return bid;
    }
  return -1;
}
static void arr(const uint8_t *b, size_t n) {
  size_t i;
  fputc('[', sim_trace);
  for (i = 0; i < n; i++) fprintf(sim_trace, "%s%u", i ? "," : "", b[i]);
  fputc(']', sim_trace);
}
static void lit(const uint8_t *d, size_t n) {
  fputs(",\"lit\":", sim_trace);
  if (n <= 24) arr(d, n); else fputs("[-1]", sim_trace);
}
static void blk(const char *name, coap_session_t *s, const coap_pdu_t *p, coap_option_num_t o) {
  coap_block_b_t b;
  if (p && coap_get_block_b(s, p, o, &b)) fprintf(sim_trace, ",\"%s\":[%u,%u,%u]", name, b.num, b.m, b.szx);
  else fprintf(sim_trace, ",\"%s\":[]", name);
}

static void rel_client(coap_session_t *s, void *p) {
  struct { int x; uint8_t *d; } *h = p;
  (void)s;
  fprintf(sim_trace, "{\"e\":\"Release\",\"side\":\"c\",\"serial\":%d}\n", h->x);
  free(h->d);
  free(h);
}
static void rel_server(coap_session_t *s, void *p) {
  struct { int x; uint8_t *d; } *h = p;
  (void)s;
  fprintf(sim_trace, "{\"e\":\"Release\",\"side\":\"s\",\"serial\":%d}\n", h->x);
  free(h->d);
  free(h);
}

static int qint(const coap_string_t *q, const char *key, int dflt) {
  size_t kl = strlen(key), i;
  if (!q) return dflt;
  for (i = 0; i + kl < q->length; i++)
    if ((i == 0 || q->s[i - 1] == '&') && memcmp(q->s + i, key, kl) == 0 && q->s[i + kl] == '=') {
      int v = 0, neg = 0;
      size_t j = i + kl + 1;
      if (j < q->length && q->s[j] == '-') { neg = 1; j++; }
      for (; j < q->length && q->s[j] >= '0' && q->s[j] <= '9'; j++) v = v * 10 + (q->s[j] - '0');
      return neg ? -v : v;
    }
  return dflt;
}

static void h_req(coap_resource_t *r, coap_session_t *s, const coap_pdu_t *req, const coap_string_t *q, coap_pdu_t *resp) {
  size_t n = 0, off = 0, total = 0;
  const uint8_t *d = NULL;
  coap_bin_const_t t = coap_pdu_get_token(req);
  coap_block_b_t b;
  int x = qint(q, "x", -1), l2 = qint(q, "l", -1), b2 = qint(q, "b", 0);
  int code = coap_pdu_get_code(req);
  coap_get_data_large(req, &n, &d, &off, &total);
  fprintf(sim_trace, "{\"e\":\"SrvReq\",\"t\":%llu,\"x\":%d,\"code\":%d,\"off\":%zu,\"n\":%zu,\"total\":%zu,\"bid\":%d,\"tok\":",
          (unsigned long long)sim_now, x, code, off, n, total, match(d, n, off));
  arr(t.s, t.length <= 8 ? t.length : 8);
  lit(d, n);
  blk("b1", s, req, COAP_OPTION_BLOCK1);
  blk("b2", s, req, COAP_OPTION_BLOCK2);
  fputs("}\n", sim_trace);
  if (code == COAP_REQUEST_CODE_GET)
    coap_pdu_set_code(resp, COAP_RESPONSE_CODE_CONTENT);
  else if (coap_get_block_b(s, req, COAP_OPTION_BLOCK1, &b) && b.m)
    coap_pdu_set_code(resp, COAP_RESPONSE_CODE_CONTINUE);      /* per-block mode: the application answers 2.31 itself */
  else
    coap_pdu_set_code(resp, COAP_RESPONSE_CODE_CHANGED);
  if (l2 >= 0 && coap_pdu_get_code(resp) != COAP_RESPONSE_CODE_CONTINUE) {
    struct { int x; uint8_t *d; } *h = malloc(sizeof(*h));
    int serial = ++srv_serial;
    h->x = serial;
    h->d = mkbody(b2, (size_t)l2);
    fprintf(sim_trace, "{\"e\":\"SrvBody\",\"x\":%d,\"serial\":%d,\"bid\":%d,\"len\":%d}\n", x, h->x, b2, l2);
    if (!coap_add_data_large_response(r, s, req, resp, q, COAP_MEDIATYPE_APPLICATION_OCTET_STREAM, -1, 0, (size_t)l2, h->d,
                                      rel_server, h))
      fprintf(sim_trace, "{\"e\":\"SrvBodyFailed\",\"serial\":%d}\n", serial);
  }
}

static coap_response_t h_resp(coap_session_t *s, const coap_pdu_t *sent, const coap_pdu_t *rcv, const coap_mid_t mid) {
  size_t n = 0, off = 0, total = 0;
  const uint8_t *d = NULL;
  coap_bin_const_t t = coap_pdu_get_token(rcv);
  (void)mid;
  coap_get_data_large(rcv, &n, &d, &off, &total);
  fprintf(sim_trace, "{\"e\":\"Resp\",\"t\":%llu,\"code\":%d,\"off\":%zu,\"n\":%zu,\"total\":%zu,\"bid\":%d,\"tok\":",
          (unsigned long long)sim_now, coap_pdu_get_code(rcv), off, n, total, match(d, n, off));
  arr(t.s, t.length <= 8 ? t.length : 8);
  fputs(",\"stok\":", sim_trace);
  if (sent) { coap_bin_const_t st = coap_pdu_get_token(sent); arr(st.s, st.length <= 8 ? st.length : 8); }
  else fputs("[-1]", sim_trace);
  lit(d, n);
  blk("b1", s, rcv, COAP_OPTION_BLOCK1);
  blk("b2", s, rcv, COAP_OPTION_BLOCK2);
  {
    coap_opt_iterator_t oi;
    coap_opt_t *o = coap_check_option(rcv, COAP_OPTION_ETAG, &oi);
    fputs(",\"etag\":", sim_trace);
    if (o) arr(coap_opt_value(o), coap_opt_length(o) <= 8 ? coap_opt_length(o) : 8); else fputs("[-1]", sim_trace);
  }
  fputs("}\n", sim_trace);
  return COAP_RESPONSE_OK;
}

static void h_nack(coap_session_t *s, const coap_pdu_t *sent, const coap_nack_reason_t reason, const coap_mid_t mid) {
  (void)s; (void)mid;
  if (in_teardown) return;
  fprintf(sim_trace, "{\"e\":\"Nack\",\"t\":%llu,\"reason\":%d,\"tok\":", (unsigned long long)sim_now, (int)reason);
  if (sent) { coap_bin_const_t t = coap_pdu_get_token(sent); arr(t.s, t.length <= 8 ? t.length : 8); }
  else fputs("[-1]", sim_trace);        /* a Reset that matched nothing queued is reported without a PDU */
  fputs("}\n", sim_trace);
}

static int h_cevent(coap_session_t *s, const coap_event_t ev) {
  (void)s;
  /* the application is told that the blocks it has been given so far are void (the body changed, the transfer starts over) */
  if (ev == COAP_EVENT_PARTIAL_BLOCK && !in_teardown) fprintf(sim_trace, "{\"e\":\"Partial\",\"side\":\"c\"}\n");
  return 0;
}

static int h_sevent(coap_session_t *s, const coap_event_t ev) {
  if (ev == COAP_EVENT_SERVER_SESSION_NEW && smtu > 0)
    coap_session_set_mtu(s, (unsigned)smtu);
  return 0;
}

/* wire view of every emitted datagram */
static void on_tx(int node, coap_session_t *s, const sim_dgram_t *dg, sim_verdict_t *v) {
  const uint8_t *d = dg->data;
  size_t i, num = 0, pn = 0, poff = 0;
  int ty, tkl, code, mid, b1[3] = {-1, 0, 0}, b2[3] = {-1, 0, 0}, s1 = -1, s2 = -1;
  uint8_t rtag[8], etag[8];
  size_t rl = 0, el = 0;
  int hasr = 0, hase = 0, idx = emitted++;
  char vc = idx < nverd ? verdicts[idx] : 'p';
  if (dg->len < 4) return;
  ty = (d[0] >> 4) & 3; tkl = d[0] & 15; code = d[1]; mid = (d[2] << 8) | d[3];
  i = 4 + (size_t)tkl;
  while (i < dg->len && d[i] != 0xff) {
    size_t dl = d[i] >> 4, l = d[i] & 15, k;
    unsigned val = 0;
    i++;
    if (dl == 13) { dl = d[i] + 13u; i++; } else if (dl == 14) { dl = (size_t)((d[i] << 8) | d[i + 1]) + 269; i += 2; }
    if (l == 13) { l = d[i] + 13u; i++; } else if (l == 14) { l = (size_t)((d[i] << 8) | d[i + 1]) + 269; i += 2; }
    num += dl;
    for (k = 0; k < l && k < 4; k++) val = (val << 8) | d[i + k];
    if (num == 27) { b1[0] = (int)(val >> 4); b1[1] = (val >> 3) & 1; b1[2] = val & 7; }
    if (num == 23) { b2[0] = (int)(val >> 4); b2[1] = (val >> 3) & 1; b2[2] = val & 7; }
    if (num == 60) s1 = (int)val;
    if (num == 28) s2 = (int)val;
    if (num == 292) { hasr = 1; rl = l < 8 ? l : 8; memcpy(rtag, d + i, rl); }
    if (num == 4) { hase = 1; el = l < 8 ? l : 8; memcpy(etag, d + i, el); }
    i += l;
  }
  if (i < dg->len && d[i] == 0xff) { pn = dg->len - i - 1; i++; }
  if (code >= 1 && code <= 31 && b1[0] >= 0) poff = (size_t)b1[0] << (b1[2] + 4);
  if (code >= 64 && b2[0] >= 0) poff = (size_t)b2[0] << (b2[2] + 4);
  fprintf(sim_trace, "{\"e\":\"Wire\",\"t\":%llu,\"i\":%d,\"node\":\"%s\",\"len\":%zu,\"mtu\":%u,\"ty\":%d,\"code\":%d,\"mid\":%d,\"tok\":",
          (unsigned long long)sim_now, idx, (s && s->context == cctx) ? "c" : "s", dg->len, s ? (unsigned)s->mtu : 0u, ty, code, mid);
  arr(d + 4, (size_t)tkl <= 8 ? (size_t)tkl : 0);
  fprintf(sim_trace, ",\"b1\":[%d,%d,%d],\"b2\":[%d,%d,%d],\"s1\":%d,\"s2\":%d,\"pn\":%zu,\"pb\":%d,\"rtag\":", b1[0], b1[1], b1[2],
          b2[0], b2[1], b2[2], s1, s2, pn, match(d + i, pn, poff));
  if (hasr) arr(rtag, rl); else fputs("[-1]", sim_trace);
  fputs(",\"etag\":", sim_trace);
  if (hase) arr(etag, el); else fputs("[-1]", sim_trace);
  fprintf(sim_trace, ",\"v\":\"%c\"}\n", vc);
  (void)node;
  if (slow > 0) v->delay[0] = (uint32_t)slow;          /* a slow network is not a fault: nothing is lost or duplicated, and the delay is below ACK_TIMEOUT */
  switch (vc) {
  case 'd': v->copies = 0; break;
  case '2': v->copies = 2; v->delay[0] = 0; v->delay[1] = 5; break;
  case 'b': v->copies = 2; v->delay[0] = 0; v->delay[1] = 0; break;       /* back to back: the copy is the very next datagram the receiver sees */
  case 'l': v->copies = 1; v->delay[0] = 3500; break;
  case 's': v->copies = 1; v->delay[0] = 40; break;
  default: break;
  }
}

static int prng(void *out, size_t len) {
  static uint32_t st = 99;
  uint8_t *o = out;
  size_t i;
  for (i = 0; i < len; i++) { st = st * 1664525u + 1013904223u; o[i] = (uint8_t)(st >> 24); }
  return 1;
}

static void submit(struct xfer *t) {
  coap_pdu_t *pdu;
  char q[32];
  uint8_t buf[4];
  int code = t->l1 < 0 ? COAP_REQUEST_CODE_GET : COAP_REQUEST_CODE_PUT;
  pdu = coap_new_pdu(con ? COAP_MESSAGE_CON : COAP_MESSAGE_NON, (coap_pdu_code_t)code, csess);
  if (!pdu) return;
  coap_add_token(pdu, 2, t->tok);
  coap_add_option(pdu, COAP_OPTION_URI_PATH, 1, (const uint8_t *)"r");
  snprintf(q, sizeof(q), "x=%d", t->x);
  coap_add_option(pdu, COAP_OPTION_URI_QUERY, strlen(q), (const uint8_t *)q);
  if (t->l2 >= 0) {
    snprintf(q, sizeof(q), "l=%d", t->l2);
    coap_add_option(pdu, COAP_OPTION_URI_QUERY, strlen(q), (const uint8_t *)q);
    snprintf(q, sizeof(q), "b=%d", t->b2);
    coap_add_option(pdu, COAP_OPTION_URI_QUERY, strlen(q), (const uint8_t *)q);
  }
  if (cszx >= 0 && t->l2 >= 0)
    coap_add_option(pdu, COAP_OPTION_BLOCK2, coap_encode_var_safe(buf, sizeof(buf), (unsigned)cszx), buf);
  if (cszx >= 0 && t->l1 >= 0)
    coap_add_option(pdu, COAP_OPTION_BLOCK1, coap_encode_var_safe(buf, sizeof(buf), (unsigned)cszx), buf);
  fprintf(sim_trace, "{\"e\":\"Submit\",\"t\":%llu,\"x\":%d,\"l1\":%d,\"b1\":%d,\"l2\":%d,\"b2\":%d,\"tok\":[%u,%u]}\n",
          (unsigned long long)sim_now, t->x, t->l1, t->b1, t->l2, t->b2, t->tok[0], t->tok[1]);
  if (t->l1 >= 0) {
    struct { int x; uint8_t *d; } *h = malloc(sizeof(*h));
    h->x = t->x;
    h->d = mkbody(t->b1, (size_t)t->l1);
    if (!coap_add_data_large_request(csess, pdu, (size_t)t->l1, h->d, rel_client, h)) {
      fprintf(sim_trace, "{\"e\":\"SubmitFailed\",\"x\":%d}\n", t->x);
      coap_delete_pdu(pdu);
      t->submitted = 1;
      return;
    }
  }
  t->submitted = 1;
  if (coap_send(csess, pdu) == COAP_INVALID_MID)
    fprintf(sim_trace, "{\"e\":\"SubmitFailed\",\"x\":%d}\n", t->x);
}

static void teardown(void) {
  in_teardown = 1;
  if (csess) coap_session_release(csess);
  csess = NULL;
  if (cctx) { sim_remove_node(cctx); coap_free_context(cctx); }
  cctx = NULL;
  if (sctx) { sim_remove_node(sctx); coap_free_context(sctx); }
  sctx = NULL;
  in_teardown = 0;
}

static void run_case(int id) {
  coap_endpoint_t *ep;
  coap_resource_t *r;
  int k;
  uint32_t mode = COAP_BLOCK_USE_LIBCOAP | (single ? COAP_BLOCK_SINGLE_BODY : 0);
  sim_reset(1000);
  emitted = 0; srv_serial = 0;
  sctx = coap_new_context(NULL);
  coap_context_set_block_mode(sctx, mode);
  if (sszx >= 0) coap_context_set_max_block_size(sctx, (size_t)1 << (sszx + 4));
  coap_register_event_handler(sctx, h_sevent);
  sim_addr(&srv_addr, "127.0.0.1", 0);
  ep = coap_new_endpoint(sctx, &srv_addr, COAP_PROTO_UDP);
  srv_addr = ep->bind_addr;
  r = coap_resource_init(coap_make_str_const("r"), 0);
  coap_register_request_handler(r, COAP_REQUEST_GET, h_req);
  coap_register_request_handler(r, COAP_REQUEST_PUT, h_req);
  coap_add_resource(sctx, r);
  sim_add_node(sctx);
  cctx = coap_new_context(NULL);
  coap_context_set_block_mode(cctx, mode);
  coap_register_response_handler(cctx, h_resp);
  coap_register_nack_handler(cctx, h_nack);
  coap_register_event_handler(cctx, h_cevent);
  sim_add_node(cctx);
  csess = coap_new_client_session(cctx, NULL, &srv_addr, COAP_PROTO_UDP);
  if (cmtu > 0) coap_session_set_mtu(csess, (unsigned)cmtu);
  fprintf(sim_trace, "{\"e\":\"Reset\",\"id\":%d,\"single\":%s,\"con\":%s,\"cmtu\":%d,\"smtu\":%d,\"cszx\":%d,\"sszx\":%d,\"gap\":%d,\"nverd\":%d}\n",
          id, single ? "true" : "false", con ? "true" : "false", cmtu, smtu, cszx, sszx, gap, nverd);
  for (k = 0; k < nT; k++) {
    submit(&T[k]);
    if (gap > 0 && k + 1 < nT) sim_run(sim_now + (uint64_t)gap);
  }
  sim_run(sim_now + 700000);
  fprintf(sim_trace, "{\"e\":\"Quiet\",\"t\":%llu,\"steps\":%d}\n", (unsigned long long)sim_now, sim_steps);
  teardown();
  fputs("{\"e\":\"End\"}\n", sim_trace);
  fflush(sim_trace);
}

int main(int argc, char **argv) {
  FILE *in;
  static char line[16384];
  int id = 0;
  if (argc < 3) return 2;
  in = fopen(argv[1], "r");
  sim_trace = fopen(argv[2], "w");
  if (!in || !sim_trace) return 2;
  setvbuf(sim_trace, NULL, _IOFBF, 1 << 20);
  coap_startup();
  coap_set_log_level(getenv("DRV_DEBUG") ? COAP_LOG_DEBUG : COAP_LOG_EMERG);
  coap_set_prng(prng);
  sim_hooks.on_tx = on_tx;
  sim_trace_io = 0;
  sim_trace_dg = 0;
  while (fgets(line, sizeof(line), in)) {
    char *p;
    if (line[0] == 'X') {
      id = (p = strstr(line, "id=")) ? atoi(p + 3) : 0;
      single = (p = strstr(line, "single=")) ? atoi(p + 7) : 1;
      con = (p = strstr(line, "con=")) ? atoi(p + 4) : 1;
      cmtu = (p = strstr(line, "cmtu=")) ? atoi(p + 5) : 0;
      smtu = (p = strstr(line, "smtu=")) ? atoi(p + 5) : 0;
      cszx = (p = strstr(line, "cszx=")) ? atoi(p + 5) : -1;
      sszx = (p = strstr(line, "sszx=")) ? atoi(p + 5) : -1;
      gap = (p = strstr(line, "gap=")) ? atoi(p + 4) : 0;
      slow = (p = strstr(line, "slow=")) ? atoi(p + 5) : 0;
      nT = 0; nverd = 0;
    } else if (line[0] == 'T') {
      if (nT < MAXT && sscanf(line + 1, "%d %d %d %d %d", &T[nT].x, &T[nT].l1, &T[nT].b1, &T[nT].l2, &T[nT].b2) == 5) {
        T[nT].tok[0] = (uint8_t)(0xA0 + T[nT].x);
        T[nT].tok[1] = (uint8_t)(id & 255);
        T[nT].submitted = 0;
        nT++;
      }
    } else if (line[0] == 'N') {
      char *t;
      for (t = strtok(line + 1, " \n"); t && nverd < (int)sizeof(verdicts); t = strtok(NULL, " \n")) verdicts[nverd++] = t[0];
    } else if (line[0] == 'E') {
      run_case(id);
    }
  }
  fclose(sim_trace);
  coap_cleanup();
  return 0;
}
