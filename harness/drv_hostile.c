/* drv_hostile.c -- driver for C02 (arbitrary network input): a real libcoap server endpoint and a real libcoap client
 * session on the simulator receive scripted byte strings -- one at a time, each followed by a quiet period -- in several
 * protocol states; what reaches application handlers and what the endpoint emits is logged; at the end a well-formed
 * request has to be answered correctly.  Debug logging is switched on (into a discarding handler) so that the PDU is
 * walked by the logging code as well.
 *
 * usage: drv_hostile <cases.txt> <out.ndjson> [from-line]
 *   one case per line:  <id> <state> <step>;<step>;...
 *     state: plain | block1 (two of three blocks of an upload have been received) | observe (an observer is registered)
 *            | client (the client session has a Confirmable GET outstanding; datagrams go to the client)
 *     step:  d<hex>   deliver this datagram (to the server from peer 1, or to the client from its server in state client)
 *            m<hex>   the same with bytes 2-3 replaced by the message id of the client's outstanding request
 *            e<hex>   the same from another peer (peer 2)
 *            v        a valid GET /r from peer 1         i<ms>  let time pass
 */
#include "simnet.h"
#include <string.h>
#include <stdlib.h>

static coap_context_t *sctx, *cctx;
static coap_session_t *csess;
static coap_address_t srv_addr, peer[3], fake_srv;
static coap_resource_t *res_o;
static int canary_code, canary_ok;
static uint16_t pmid = 0x7000;
static int cli_mid = -1;            /* message id of the client's outstanding request */

static void arr(const uint8_t *b, size_t n) {
  size_t i;
  fputc('[', sim_trace);
  for (i = 0; i < n; i++) fprintf(sim_trace, "%s%u", i ? "," : "", b[i]);
  fputc(']', sim_trace);
}
static size_t unhex(const char *h, uint8_t *b, size_t cap) {
  size_t n = 0;
  while (h[0] && h[1] && h[0] != ';' && h[0] != '\n' && n < cap) { unsigned x; if (sscanf(h, "%2x", &x) != 1) break; b[n++] = (uint8_t)x; h += 2; }
  return n;
}
static void discard_log(coap_log_t level, const char *message) { (void)level; (void)message; }

static void h_req(coap_resource_t *r, coap_session_t *s, const coap_pdu_t *req, const coap_string_t *q, coap_pdu_t *resp) {
  size_t n = 0, off = 0, tot = 0;
  const uint8_t *d = NULL;
  (void)s; (void)q;
  coap_get_data_large(req, &n, &d, &off, &tot);
  fprintf(sim_trace, "{\"e\":\"H\",\"who\":\"req\",\"code\":%d,\"res\":\"%s\",\"n\":%zu}\n", coap_pdu_get_code(req), r == res_o ? "o" : "r", n);
  if (coap_pdu_get_code(req) == COAP_REQUEST_CODE_GET) {
    coap_pdu_set_code(resp, COAP_RESPONSE_CODE_CONTENT);
    coap_add_data(resp, 2, (const uint8_t *)"ok");
  } else
    coap_pdu_set_code(resp, COAP_RESPONSE_CODE_CHANGED);
}
static coap_response_t h_resp(coap_session_t *s, const coap_pdu_t *sent, const coap_pdu_t *rcv, const coap_mid_t mid) {
  (void)s; (void)mid;
  fprintf(sim_trace, "{\"e\":\"H\",\"who\":\"resp\",\"code\":%d,\"res\":\"%s\",\"n\":0}\n", coap_pdu_get_code(rcv), sent ? "sent" : "nosent");
  return COAP_RESPONSE_OK;
}
static void on_tx(int node, coap_session_t *s, const sim_dgram_t *dg, sim_verdict_t *v) {
  (void)node; (void)v;
  if (s && s->context == cctx && dg->len >= 4 && dg->data[1] >= 1 && dg->data[1] <= 31) cli_mid = (dg->data[2] << 8) | dg->data[3];
  if (dg->len >= 4)
    fprintf(sim_trace, "{\"e\":\"Out\",\"from\":\"%s\",\"ty\":%d,\"code\":%d,\"len\":%zu}\n", (s && s->context == cctx) ? "cli" : "srv",
            (dg->data[0] >> 4) & 3, dg->data[1], dg->len);
  else
    fprintf(sim_trace, "{\"e\":\"Out\",\"from\":\"%s\",\"ty\":-1,\"code\":-1,\"len\":%zu}\n", (s && s->context == cctx) ? "cli" : "srv", dg->len);
}
static void on_peer_rx(const sim_dgram_t *dg) {
  /* replies to the fabricated peers: remember what the canary got */
  if (sim_port(&dg->dst) == sim_port(&peer[1]) && dg->len >= 4 && dg->data[1] != 0) {
    canary_code = dg->data[1];
    canary_ok = dg->len >= 2 && dg->data[dg->len - 2] == 'o' && dg->data[dg->len - 1] == 'k';
  }
}

static void inject(const coap_address_t *from, const coap_address_t *to, const uint8_t *b, size_t n, const char *dir) {
  fprintf(sim_trace, "{\"e\":\"In\",\"dir\":\"%s\",\"w\":", dir);
  arr(b, n);
  fputs("}\n", sim_trace);
  fflush(sim_trace);
  sim_inject(from, to, b, n, 0, -1);
  sim_run(sim_now + 30);
  fputs("{\"e\":\"Quiet\"}\n", sim_trace);
}
/* well-formed traffic used to put the endpoint into a state (not judged as hostile input) */
static void valid(int p, const uint8_t *b, size_t n) {
  fputs("{\"e\":\"Valid\"}\n", sim_trace);
  sim_inject(&peer[p], &srv_addr, b, n, 0, -1);
  sim_run(sim_now + 30);
  fputs("{\"e\":\"Quiet\"}\n", sim_trace);
}
static size_t mk_get(uint8_t *b, int con, const char *path, int obs) {
  size_t n = 0;
  uint16_t mid = pmid++;
  b[n++] = (uint8_t)((con ? 0x40 : 0x50) | 2); b[n++] = 1; b[n++] = mid >> 8; b[n++] = mid & 255;
  b[n++] = 0xc0; b[n++] = (uint8_t)mid;
  if (obs >= 0) { b[n++] = 0x60; b[n++] = 0x51; } else b[n++] = 0xb1;
  b[n++] = (uint8_t)path[0];
  return n;
}
static size_t mk_block1(uint8_t *b, unsigned num, int more, size_t total) {
  size_t n = 0, i;
  uint16_t mid = pmid++;
  b[n++] = 0x42; b[n++] = 3; b[n++] = mid >> 8; b[n++] = mid & 255;
  b[n++] = 0xb1; b[n++] = 0x0b;                             /* token */
  b[n++] = 0xb1; b[n++] = 'r';                              /* Uri-Path (11) */
  b[n++] = 0xd1; b[n++] = 27 - 11 - 13; b[n++] = (uint8_t)((num << 4) | (more ? 8 : 0) | 0);   /* Block1 (27), szx 0 */
  b[n++] = 0xd1; b[n++] = 60 - 27 - 13; b[n++] = (uint8_t)total;                              /* Size1 (60) */
  b[n++] = 0xff;
  for (i = 0; i < 16 && num * 16 + i < total; i++) b[n++] = (uint8_t)('a' + i);
  return n;
}

static int prng(void *out, size_t len) {
  static uint32_t st = 2;
  uint8_t *o = out;
  size_t i;
  for (i = 0; i < len; i++) { st = st * 1664525u + 1013904223u; o[i] = (uint8_t)(st >> 24); }
  return 1;
}

static void run_case(int id, const char *state, char *steps) {
  coap_endpoint_t *ep;
  coap_resource_t *r;
  uint8_t b[2048];
  size_t n;
  char *st;
  int client = !strcmp(state, "client");
  sim_reset(1000);
  sctx = coap_new_context(NULL);
  coap_context_set_block_mode(sctx, COAP_BLOCK_USE_LIBCOAP | COAP_BLOCK_SINGLE_BODY);
  sim_addr(&srv_addr, "127.0.0.1", 0);
  ep = coap_new_endpoint(sctx, &srv_addr, COAP_PROTO_UDP);
  srv_addr = ep->bind_addr;
  r = coap_resource_init(coap_make_str_const("r"), 0);
  coap_register_request_handler(r, COAP_REQUEST_GET, h_req);
  coap_register_request_handler(r, COAP_REQUEST_PUT, h_req);
  coap_register_request_handler(r, COAP_REQUEST_POST, h_req);
  coap_register_request_handler(r, COAP_REQUEST_FETCH, h_req);
  coap_add_resource(sctx, r);
  res_o = coap_resource_init(coap_make_str_const("o"), 0);
  coap_register_request_handler(res_o, COAP_REQUEST_GET, h_req);
  coap_resource_set_get_observable(res_o, 1);
  coap_add_resource(sctx, res_o);
  sim_add_node(sctx);
  cctx = NULL; csess = NULL; cli_mid = -1;
  fprintf(sim_trace, "{\"e\":\"Reset\",\"id\":%d,\"state\":\"%s\"}\n", id, state);
  if (!strcmp(state, "block1")) {
    n = mk_block1(b, 0, 1, 40); valid(1, b, n);
    n = mk_block1(b, 1, 1, 40); valid(1, b, n);
  } else if (!strcmp(state, "observe")) {
    n = mk_get(b, 1, "o", 0); valid(1, b, n);
  } else if (client) {
    coap_pdu_t *pdu;
    uint8_t tk[2] = {0xc1, 0xc2};
    cctx = coap_new_context(NULL);
    coap_context_set_block_mode(cctx, COAP_BLOCK_USE_LIBCOAP | COAP_BLOCK_SINGLE_BODY);
    coap_register_response_handler(cctx, h_resp);
    sim_add_node(cctx);
    sim_addr(&fake_srv, "127.0.0.1", 25000);
    csess = coap_new_client_session(cctx, NULL, &fake_srv, COAP_PROTO_UDP);
    pdu = coap_new_pdu(COAP_MESSAGE_CON, COAP_REQUEST_CODE_GET, csess);
    coap_add_token(pdu, 2, tk);
    coap_add_option(pdu, COAP_OPTION_URI_PATH, 1, (const uint8_t *)"r");
    fputs("{\"e\":\"Valid\"}\n", sim_trace);
    coap_send(csess, pdu);
    sim_run(sim_now + 30);
    fputs("{\"e\":\"Quiet\"}\n", sim_trace);
  }
  for (st = strtok(steps, ";\n"); st; st = strtok(NULL, ";\n")) {
    if (st[0] == 'd' || st[0] == 'e' || st[0] == 'm') {
      n = unhex(st + 1, b, sizeof(b));
      if (st[0] == 'm' && n >= 4 && cli_mid >= 0) { b[2] = (uint8_t)(cli_mid >> 8); b[3] = (uint8_t)cli_mid; }
      if (client) inject(&fake_srv, &csess->addr_info.local, b, n, "cli");
      else inject(&peer[st[0] == 'd' ? 1 : 2], &srv_addr, b, n, "srv");
    } else if (st[0] == 'v') {
      n = mk_get(b, 1, "r", -1); valid(1, b, n);
    } else if (st[0] == 'i') {
      sim_run(sim_now + (uint64_t)atol(st + 1));
    }
  }
  /* afterwards the endpoint still answers a well-formed request correctly */
  canary_code = 0; canary_ok = 0;
  n = mk_get(b, 1, "r", -1);
  fputs("{\"e\":\"Valid\"}\n", sim_trace);
  sim_inject(&peer[1], &srv_addr, b, n, 0, -1);
  sim_run(sim_now + 30);
  fprintf(sim_trace, "{\"e\":\"Canary\",\"ok\":%d,\"code\":%d}\n", canary_code == 69 && canary_ok, canary_code);
  if (csess) coap_session_release(csess);
  if (cctx) { sim_remove_node(cctx); coap_free_context(cctx); }
  sim_remove_node(sctx);
  coap_free_context(sctx);
  sctx = cctx = NULL; csess = NULL; res_o = NULL;
  fputs("{\"e\":\"End\"}\n", sim_trace);
  fflush(sim_trace);
}

int main(int argc, char **argv) {
  FILE *in;
  static char line[1 << 16];
  int ln = 0, from = argc > 3 ? atoi(argv[3]) : 0;
  if (argc < 3) return 2;
  in = fopen(argv[1], "r");
  sim_trace = fopen(argv[2], from ? "a" : "w");
  if (!in || !sim_trace) return 2;
  setvbuf(sim_trace, NULL, _IOFBF, 1 << 20);
  coap_startup();
  coap_set_log_handler(discard_log);
  coap_set_log_level(COAP_LOG_DEBUG);               /* debug logging walks every PDU again */
  coap_set_prng(prng);
  sim_hooks.on_tx = on_tx;
  sim_hooks.on_peer_rx = on_peer_rx;
  sim_trace_io = 0;
  sim_trace_dg = 0;
  sim_addr(&peer[1], "127.0.0.1", 21001);
  sim_addr(&peer[2], "127.0.0.1", 21002);
  while (fgets(line, sizeof(line), in)) {
    int id;
    char state[16], *steps;
    ln++;
    if (ln <= from) continue;
    if (sscanf(line, "%d %15s", &id, state) != 2) continue;
    steps = strchr(line, ' ');
    steps = steps ? strchr(steps + 1, ' ') : NULL;
    if (!steps) continue;
    fprintf(sim_trace, "{\"e\":\"Case\",\"ln\":%d}\n", ln);
    fflush(sim_trace);
    run_case(id, state, steps + 1);
  }
  fclose(sim_trace);
  coap_cleanup();
  return 0;
}
