/* drv_dtls.c -- driver for C19 ((D)TLS gate): a real libcoap DTLS/PSK server and a real libcoap DTLS/PSK client (GnuTLS)
 * on the simulated datagram network.  The client submits Confirmable requests right after creating the session (they
 * wait for the handshake); what reaches the handlers on both sides, the session events, NACKs and the first byte of every
 * datagram on the wire are logged.
 *
 * usage: drv_dtls <cases.txt> <out.ndjson>
 *   X id=<n> cid=<client identity> ckey=<client key> sk=<id:key,id:key,...> hint=<server hint> acc=<1: client accepts the hint>
 *     nq=<requests queued during the handshake> obs=<k: the k-th of them carries Observe (per-request state in the library); 9: all of them>
 *     bad7=<code>: once everything queued has been answered the client's lower layer sends a Confirmable message with this (class-7) code
 *     shold=1: the server application keeps a reference on the session of the first request;  inj=3 (with rel): cleartext CoAP from the client's
 *     address after the client has closed its session
 *     tk2=<1: two-byte tokens (i, 0xee) instead of the one-byte token i> nonq=<k: the k-th queued request is Non-confirmable; 9: all> inj=<0 | 1 cleartext CoAP from a new peer | 2 cleartext CoAP from the client's address>
 *     rel=<release the client session after this many ms of virtual time; 0 = never> idcb=<1: server checks the identity, 0: one key for all>
 *     drop=<indices of datagrams to lose, e.g. 0,3>   dup=<indices of datagrams the network delivers twice (the copy right behind the original)>
 *     mute=1: every application-data record from the server is lost (alerts pass)   sclose=<ms>: the server context is freed after that time
 *     snik=<name:key,...>  the server keeps per-server-name keys (validate_sni_call_back; a name not listed is refused)   sni=<name the client asks for>
 *     warm=<name>  before the judged session another client session asks for that name with the right key and completes one exchange (not traced):
 *                  the server has then seen the name before
 *   E
 */
#include "simnet.h"
#include <string.h>
#include <stdlib.h>
#include <strings.h>

#define MAXK 8
static coap_context_t *sctx, *cctx;
static coap_session_t *csess;
static coap_address_t srv_addr;
static char cid[64], ckey[64], hint[64], skid[MAXK][64], skkey[MAXK][64];
static int nsk, acc, nq, inj, rel, idcb, emitted, nsni, muted, obsq, tk2, nonq, shold, bad7;
static coap_session_t *held_s;
static char sni[64], warm[64], snin[MAXK][64], snikey[MAXK][64];
static coap_dtls_spsk_info_t sni_info;
static coap_dtls_cpsk_info_t winfo;       /* what the warm-up session presents */
static int drops[32], ndrops, dups[32], ndups, mute_srv, sclose;
static coap_dtls_cpsk_info_t cinfo;
static coap_bin_const_t skeybin;
static int in_teardown;

#define LOG if (!muted) fprintf
static const coap_dtls_spsk_info_t *sni_cb(const char *name, coap_session_t *s, void *arg) {
  int i;
  (void)s; (void)arg;
  for (i = 0; i < nsni; i++)
    if (!strcasecmp(name, snin[i])) {
      memset(&sni_info, 0, sizeof(sni_info));
      sni_info.hint.s = (const uint8_t *)hint; sni_info.hint.length = strlen(hint);
      sni_info.key.s = (const uint8_t *)snikey[i]; sni_info.key.length = strlen(snikey[i]);
      LOG(sim_trace, "{\"e\":\"SniCheck\",\"known\":true}\n");
      return &sni_info;
    }
  LOG(sim_trace, "{\"e\":\"SniCheck\",\"known\":false}\n");
  return NULL;
}
static void arr(const uint8_t *b, size_t n) {
  size_t i;
  fputc('[', sim_trace);
  for (i = 0; i < n; i++) fprintf(sim_trace, "%s%u", i ? "," : "", b[i]);
  fputc(']', sim_trace);
}
static const coap_bin_const_t *id_cb(coap_bin_const_t *identity, coap_session_t *s, void *arg) {
  int i;
  (void)s; (void)arg;
  for (i = 0; i < nsk; i++)
    if (strlen(skid[i]) == identity->length && memcmp(skid[i], identity->s, identity->length) == 0) {
      skeybin.s = (const uint8_t *)skkey[i];
      skeybin.length = strlen(skkey[i]);
      LOG(sim_trace, "{\"e\":\"IdCheck\",\"known\":true}\n");
      return &skeybin;
    }
  LOG(sim_trace, "{\"e\":\"IdCheck\",\"known\":false}\n");
  return NULL;
}
static const coap_dtls_cpsk_info_t *ih_cb(coap_str_const_t *h, coap_session_t *s, void *arg) {
  (void)s; (void)arg; (void)h;
  if (muted) return &winfo;
  fprintf(sim_trace, "{\"e\":\"HintCheck\",\"accepted\":%s}\n", acc ? "true" : "false");
  return acc ? &cinfo : NULL;
}
static void h_get(coap_resource_t *r, coap_session_t *s, const coap_pdu_t *req, const coap_string_t *q, coap_pdu_t *resp) {
  coap_bin_const_t t = coap_pdu_get_token(req);
  (void)r;
  coap_pdu_set_code(resp, COAP_RESPONSE_CODE_CONTENT);
  coap_add_data(resp, 2, (const uint8_t *)"ok");
  if (muted) return;
  if (shold && !held_s) held_s = coap_session_reference(s);     /* the server application keeps the session it was called on */
  fprintf(sim_trace, "{\"e\":\"SrvReq\",\"t\":%llu,\"proto\":%d,\"tok\":", (unsigned long long)sim_now, (int)coap_session_get_proto(s));
  /* the queued requests carry their number as the query (the token on the wire may be the library's own: block-wise / observe state) */
  if (q && q->length == 1) arr(q->s, 1); else
  arr(t.s, t.length <= 8 ? t.length : 8);
  fputs("}\n", sim_trace);
}
static coap_response_t h_resp(coap_session_t *s, const coap_pdu_t *sent, const coap_pdu_t *rcv, const coap_mid_t mid) {
  coap_bin_const_t t = coap_pdu_get_token(rcv);
  (void)s; (void)sent; (void)mid;
  if (muted) { muted = 2; return COAP_RESPONSE_OK; }
  fprintf(sim_trace, "{\"e\":\"Resp\",\"t\":%llu,\"code\":%d,\"tok\":", (unsigned long long)sim_now, coap_pdu_get_code(rcv));
  arr(t.s, t.length <= 8 ? t.length : 8);
  fputs("}\n", sim_trace);
  return COAP_RESPONSE_OK;
}
static void h_nack(coap_session_t *s, const coap_pdu_t *sent, const coap_nack_reason_t reason, const coap_mid_t mid) {
  (void)s; (void)mid;
  if (muted) return;
  fprintf(sim_trace, "{\"e\":\"Nack\",\"t\":%llu,\"reason\":%d,\"teardown\":%s,\"tok\":", (unsigned long long)sim_now, (int)reason, in_teardown ? "true" : "false");
  if (sent) { coap_bin_const_t t = coap_pdu_get_token(sent); arr(t.s, t.length <= 8 ? t.length : 8); } else fputs("[-1]", sim_trace);
  fputs("}\n", sim_trace);
}
static int h_cevent(coap_session_t *s, const coap_event_t ev) {
  (void)s;
  if (muted) return 0;
  fprintf(sim_trace, "{\"e\":\"Ev\",\"side\":\"c\",\"ev\":%d,\"t\":%llu}\n", (int)ev, (unsigned long long)sim_now);
  return 0;
}
/* a signalling message reached the protocol layer (class 7 codes have no business on a datagram transport, DTLS included) */
static void h_sping(coap_session_t *s, const coap_pdu_t *rcv, const coap_mid_t mid) {
  (void)s; (void)mid;
  if (!muted) fprintf(sim_trace, "{\"e\":\"SrvSignal\",\"code\":%d}\n", coap_pdu_get_code(rcv));
}
static void h_cpong(coap_session_t *s, const coap_pdu_t *rcv, const coap_mid_t mid) {
  (void)s; (void)mid;
  if (!muted) fprintf(sim_trace, "{\"e\":\"CliSignal\",\"code\":%d}\n", coap_pdu_get_code(rcv));
}
static int h_sevent(coap_session_t *s, const coap_event_t ev) {
  (void)s;
  if (muted) return 0;
  fprintf(sim_trace, "{\"e\":\"Ev\",\"side\":\"s\",\"ev\":%d,\"t\":%llu}\n", (int)ev, (unsigned long long)sim_now);
  return 0;
}
static void on_tx(int node, coap_session_t *s, const sim_dgram_t *dg, sim_verdict_t *v) {
  int idx, i;
  (void)node;
  if (muted) return;
  idx = emitted++;
  fprintf(sim_trace, "{\"e\":\"Wire\",\"i\":%d,\"from\":\"%s\",\"b0\":%d,\"b1\":%d,\"len\":%zu}\n", idx, (s && s->context == cctx) ? "c" : "s",
          dg->len ? dg->data[0] : -1, dg->len > 1 ? dg->data[1] : -1, dg->len);
  if (mute_srv && s && s->context == sctx && dg->len && dg->data[0] == 23) { v->copies = 0; fprintf(sim_trace, "{\"e\":\"Dropped\",\"i\":%d}\n", idx); return; }
  for (i = 0; i < ndups; i++) if (dups[i] == idx) { v->copies = 2; v->delay[1] = 0; fprintf(sim_trace, "{\"e\":\"Duplicated\",\"i\":%d}\n", idx); }
  for (i = 0; i < ndrops; i++) if (drops[i] == idx) { v->copies = 0; fprintf(sim_trace, "{\"e\":\"Dropped\",\"i\":%d}\n", idx); }
}
static int prng(void *out, size_t len) {
  static uint32_t st = 19;
  uint8_t *o = out;
  size_t i;
  for (i = 0; i < len; i++) { st = st * 1664525u + 1013904223u; o[i] = (uint8_t)(st >> 24); }
  return 1;
}
static void field(const char *line, const char *key, char *out, size_t cap) {
  const char *p = strstr(line, key);
  size_t n = 0;
  out[0] = 0;
  if (!p) return;
  p += strlen(key);
  while (*p && *p != ' ' && *p != '\n' && n + 1 < cap) out[n++] = *p++;
  out[n] = 0;
}

static void run_case(int id) {
  coap_endpoint_t *ep;
  coap_resource_t *r;
  coap_dtls_spsk_t spsk;
  coap_dtls_cpsk_t cpsk;
  int i;
  sim_reset(1000);
  emitted = 0;
  fprintf(sim_trace, "{\"e\":\"Reset\",\"id\":%d,\"cid\":\"%s\",\"ckey\":\"%s\",\"hint\":\"%s\",\"acc\":%s,\"idcb\":%s,\"nq\":%d,\"obs\":%d,\"tk2\":%d,\"nonq\":%d,\"inj\":%d,\"rel\":%d,\"ndrops\":%d,\"snicb\":%s,\"sni\":\"%s\",\"warm\":\"%s\",\"table\":[",
          id, cid, ckey, hint, acc ? "true" : "false", idcb ? "true" : "false", nq, obsq, tk2, nonq, inj, rel, ndrops + (mute_srv ? 1 : 0), nsni ? "true" : "false", sni, warm);
  for (i = 0; i < nsk; i++) fprintf(sim_trace, "%s[\"%s\",\"%s\"]", i ? "," : "", skid[i], skkey[i]);
  fputs("],\"snitable\":[", sim_trace);
  for (i = 0; i < nsni; i++) fprintf(sim_trace, "%s[\"%s\",\"%s\"]", i ? "," : "", snin[i], snikey[i]);
  fputs("]}\n", sim_trace);
  fflush(sim_trace);
  sctx = coap_new_context(NULL);
  memset(&spsk, 0, sizeof(spsk));
  spsk.version = COAP_DTLS_SPSK_SETUP_VERSION;
  if (idcb) spsk.validate_id_call_back = id_cb;
  if (nsni) spsk.validate_sni_call_back = sni_cb;
  spsk.psk_info.hint.s = (const uint8_t *)hint;
  spsk.psk_info.hint.length = strlen(hint);
  spsk.psk_info.key.s = (const uint8_t *)skkey[0];
  spsk.psk_info.key.length = strlen(skkey[0]);
  coap_context_set_psk2(sctx, &spsk);
  coap_register_event_handler(sctx, h_sevent);
  coap_register_ping_handler(sctx, h_sping);
  sim_addr(&srv_addr, "127.0.0.1", 0);
  ep = coap_new_endpoint(sctx, &srv_addr, COAP_PROTO_DTLS);
  if (!ep) { fputs("{\"e\":\"Skip\",\"why\":\"no DTLS endpoint\"}\n{\"e\":\"End\"}\n", sim_trace); coap_free_context(sctx); sctx = NULL; return; }
  srv_addr = ep->bind_addr;
  r = coap_resource_init(coap_make_str_const("r"), 0);
  coap_register_request_handler(r, COAP_REQUEST_GET, h_get);
  coap_add_resource(sctx, r);
  sim_add_node(sctx);
  cctx = coap_new_context(NULL);
  if (obsq)        /* the library keeps per-request state (lg_crcv) for a request that carries Observe */
    coap_context_set_block_mode(cctx, COAP_BLOCK_USE_LIBCOAP);
  coap_register_response_handler(cctx, h_resp);
  coap_register_nack_handler(cctx, h_nack);
  coap_register_pong_handler(cctx, h_cpong);
  coap_register_event_handler(cctx, h_cevent);
  sim_add_node(cctx);
  memset(&cpsk, 0, sizeof(cpsk));
  cpsk.version = COAP_DTLS_CPSK_SETUP_VERSION;
  cpsk.validate_ih_call_back = ih_cb;
  cinfo.identity.s = (const uint8_t *)cid; cinfo.identity.length = strlen(cid);
  cinfo.key.s = (const uint8_t *)ckey; cinfo.key.length = strlen(ckey);
  cpsk.psk_info = cinfo;
  if (warm[0]) {
    /* a first session that asks for the name with the right key: handshake, one exchange, released.  Nothing of it is traced. */
    coap_dtls_cpsk_t w = cpsk;
    coap_session_t *ws;
    coap_pdu_t *pdu;
    uint8_t tk = 0x77;
    int k;
    for (k = 0; k < nsni && strcasecmp(snin[k], warm); k++);
    muted = 1;
    w.client_sni = warm;
    w.psk_info.key.s = (const uint8_t *)(k < nsni ? snikey[k] : skkey[0]);
    w.psk_info.key.length = strlen((const char *)w.psk_info.key.s);
    winfo = w.psk_info;
    ws = coap_new_client_session_psk2(cctx, NULL, &srv_addr, COAP_PROTO_DTLS, &w);
    if (ws) {
      pdu = coap_new_pdu(COAP_MESSAGE_CON, COAP_REQUEST_CODE_GET, ws);
      coap_add_token(pdu, 1, &tk);
      coap_add_option(pdu, COAP_OPTION_URI_PATH, 1, (const uint8_t *)"r");
      coap_send(ws, pdu);
      sim_run(sim_now + 30000);
      coap_session_release(ws);
      sim_run(sim_now + 1000);
    }
    fprintf(sim_trace, "{\"e\":\"Warm\",\"answered\":%s}\n", muted == 2 ? "true" : "false");
    muted = 0;
  }
  if (sni[0]) cpsk.client_sni = sni;
  csess = coap_new_client_session_psk2(cctx, NULL, &srv_addr, COAP_PROTO_DTLS, &cpsk);
  if (!csess) fputs("{\"e\":\"NoSession\"}\n", sim_trace);
  for (i = 1; csess && i <= nq; i++) {
    coap_pdu_t *pdu = coap_new_pdu((nonq == i || nonq == 9) ? COAP_MESSAGE_NON : COAP_MESSAGE_CON, COAP_REQUEST_CODE_GET, csess);
    uint8_t tk[2] = { (uint8_t)i, 0xee };
    coap_mid_t mid;
    coap_add_token(pdu, tk2 ? 2 : 1, tk);
    if (obsq == i || obsq == 9)
      coap_add_option(pdu, COAP_OPTION_OBSERVE, 0, NULL);
    coap_add_option(pdu, COAP_OPTION_URI_PATH, 1, (const uint8_t *)"r");
    coap_add_option(pdu, COAP_OPTION_URI_QUERY, 1, tk);
    mid = coap_send(csess, pdu);
    fprintf(sim_trace, "{\"e\":\"Submit\",\"tok\":[%d],\"ok\":%d}\n", i, mid != COAP_INVALID_MID);
  }
  if (inj) {
    /* a cleartext CoAP request thrown at the DTLS endpoint */
    uint8_t b[8] = {0x41, 1, 0x33, 0x44, 0x99, 0xb1, 'r'};
    coap_address_t from;
    sim_run(sim_now + 1);
    if (inj == 2 && csess) from = csess->addr_info.local;
    else sim_addr(&from, "127.0.0.1", 23456);
    fputs("{\"e\":\"Clear\"}\n", sim_trace);
    sim_inject(&from, &srv_addr, b, 7, 0, -1);
  }
  if (sclose > 0) {
    /* the server goes away (its close_notify reaches the client) while the client is still waiting */
    sim_run(sim_now + (uint64_t)sclose);
    fputs("{\"e\":\"ServerGone\"}\n", sim_trace);
    if (held_s) { coap_session_release(held_s); held_s = NULL; }
    sim_remove_node(sctx); coap_free_context(sctx); sctx = NULL;
  }
  if (rel > 0) {
    coap_address_t was;
    int have = 0;
    sim_run(sim_now + (uint64_t)rel);
    fputs("{\"e\":\"Release\"}\n", sim_trace);
    if (csess) { was = csess->addr_info.local; have = 1; coap_session_release(csess); }
    csess = NULL;
    if (inj == 3 && have) {
      /* the client has closed its session (close_notify); cleartext CoAP now arrives from the address it had */
      uint8_t b[8] = {0x41, 1, 0x33, 0x45, 0x99, 0xb1, 'r'};
      sim_run(sim_now + 1000);
      fputs("{\"e\":\"Clear\"}\n", sim_trace);
      sim_inject(&was, &srv_addr, b, 7, 0, -1);
    }
  }
  if (bad7 && csess) {
    /* a message with a class-7 code on the (established) DTLS session: the API refuses to send one, so it is handed to the layer below */
    coap_pdu_t *pdu;
    uint8_t tk = 0x7e;
    sim_run(sim_now + 20000);
    pdu = coap_pdu_init(COAP_MESSAGE_CON, (coap_pdu_code_t)bad7, coap_new_message_id(csess), 64);
    if (pdu) {
      coap_add_token(pdu, 1, &tk);
      fprintf(sim_trace, "{\"e\":\"Bad7\",\"code\":%d}\n", bad7);
      coap_lock_lock(cctx, return);
      coap_send_internal(csess, pdu);
      coap_lock_unlock(cctx);
    }
  }
  sim_run(sim_now + 700000);
  fprintf(sim_trace, "{\"e\":\"Quiet\",\"t\":%llu}\n", (unsigned long long)sim_now);
  in_teardown = 1;
  if (csess) coap_session_release(csess);
  csess = NULL;
  sim_remove_node(cctx); coap_free_context(cctx); cctx = NULL;
  if (held_s) { if (sctx) coap_session_release(held_s); held_s = NULL; }
  if (sctx) { sim_remove_node(sctx); coap_free_context(sctx); sctx = NULL; }
  in_teardown = 0;
  fputs("{\"e\":\"End\"}\n", sim_trace);
  fflush(sim_trace);
}

int main(int argc, char **argv) {
  FILE *in;
  static char line[4096];
  int id = 0;
  if (argc < 3) return 2;
  in = fopen(argv[1], "r");
  sim_trace = fopen(argv[2], "w");
  if (!in || !sim_trace) return 2;
  setvbuf(sim_trace, NULL, _IOFBF, 1 << 20);
  coap_startup();
  coap_set_log_level(getenv("DRV_DEBUG") ? COAP_LOG_DEBUG : COAP_LOG_EMERG);
  coap_dtls_set_log_level(getenv("DRV_DEBUG") ? COAP_LOG_DEBUG : COAP_LOG_EMERG);
  coap_set_prng(prng);
  sim_hooks.on_tx = on_tx;
  sim_trace_io = 0;
  sim_trace_dg = 0;
  sim_nested_wait = 1;
  while (fgets(line, sizeof(line), in)) {
    if (line[0] == 'X') {
      char buf[1024], *t;
      field(line, " id=", buf, sizeof(buf)); id = atoi(buf);
      field(line, " cid=", cid, sizeof(cid));
      field(line, " ckey=", ckey, sizeof(ckey));
      field(line, " hint=", hint, sizeof(hint));
      field(line, " acc=", buf, sizeof(buf)); acc = atoi(buf);
      field(line, " nq=", buf, sizeof(buf)); nq = atoi(buf);
      field(line, " inj=", buf, sizeof(buf)); inj = atoi(buf);
      buf[0] = 0; field(line, " obs=", buf, sizeof(buf)); obsq = atoi(buf);
      buf[0] = 0; field(line, " tk2=", buf, sizeof(buf)); tk2 = atoi(buf);
      buf[0] = 0; field(line, " nonq=", buf, sizeof(buf)); nonq = atoi(buf);
      buf[0] = 0; field(line, " shold=", buf, sizeof(buf)); shold = atoi(buf);
      buf[0] = 0; field(line, " bad7=", buf, sizeof(buf)); bad7 = atoi(buf);
      field(line, " rel=", buf, sizeof(buf)); rel = atoi(buf);
      field(line, " idcb=", buf, sizeof(buf)); idcb = atoi(buf);
      field(line, " drop=", buf, sizeof(buf));
      ndrops = 0;
      for (t = strtok(buf, ","); t && ndrops < 32; t = strtok(NULL, ",")) drops[ndrops++] = atoi(t);
      field(line, " mute=", buf, sizeof(buf)); mute_srv = atoi(buf);
      field(line, " sclose=", buf, sizeof(buf)); sclose = atoi(buf);
      field(line, " dup=", buf, sizeof(buf));
      ndups = 0;
      for (t = strtok(buf, ","); t && ndups < 32; t = strtok(NULL, ",")) dups[ndups++] = atoi(t);
      field(line, " sk=", buf, sizeof(buf));
      nsk = 0;
      for (t = strtok(buf, ","); t && nsk < MAXK; t = strtok(NULL, ",")) {
        char *c = strchr(t, ':');
        if (!c) continue;
        *c = 0;
        snprintf(skid[nsk], sizeof(skid[nsk]), "%s", t);
        snprintf(skkey[nsk], sizeof(skkey[nsk]), "%s", c + 1);
        nsk++;
      }
      field(line, " sni=", sni, sizeof(sni));
      field(line, " warm=", warm, sizeof(warm));
      field(line, " snik=", buf, sizeof(buf));
      nsni = 0;
      for (t = strtok(buf, ","); t && nsni < MAXK; t = strtok(NULL, ",")) {
        char *c = strchr(t, ':');
        if (!c) continue;
        *c = 0;
        snprintf(snin[nsni], sizeof(snin[nsni]), "%s", t);
        snprintf(snikey[nsni], sizeof(snikey[nsni]), "%s", c + 1);
        nsni++;
      }
    } else if (line[0] == 'E') {
      run_case(id);
    }
  }
  fclose(sim_trace);
  coap_cleanup();
  return 0;
}
