/* drv_obs.c -- driver for C11: a real libcoap server with observable resources on the simulator, scripted observers.
 *
 * usage: drv_obs <cases.txt> <out.ndjson>
 *   X id=<n> mode=<0 default | 1 NOTIFY_CON | 2 NOTIFY_NON_ALWAYS> start=<initial observe counter> nres=<1..3> big=<body length, 0 = just the state number>
 *     big > 0: the representation is the state number padded to that length and handed over with coap_add_data_large_response(): libcoap cuts it
 *     into blocks of 32 bytes (the observer's requests carry Block2 with that size); a notification then carries the first block (Block2 0/M) and the observer may fetch the rest (policy fetch)
 *   G <client> <res> <tokhex> [query]    register: CON GET, Observe=0
 *   U <client> <res> <tokhex> [query]    cancel:   CON GET, Observe=1
 *   P <client> <policy>                  reaction to notifications from now on:
 *                                        ack (ACK every CON) | drop (never answer) | rst (RST to CON) | rstall (RST to CON and NON)
 *                                        | fetch (ACK every CON, and ask for the remaining blocks of a notification that announces more)
 *                                        | rstold (RST, some time later, carrying the message id of the notification BEFORE the last one)
 *   H <res> [k]                          k (default 1) resource changes signalled by the application back to back
 *   M <res> <code>                       from now on the resource's GET handler answers with this code (e.g. 132 = 4.04)
 *   D <res>                              delete the resource
 *   I <ms>                               run the I/O loop for ms of virtual time
 *   E
 */
#include "simnet.h"
#include <string.h>
#include <stdlib.h>

#define NCLI 4
#define NRES 3
static coap_context_t *ctx;
static coap_address_t srv_addr, cli_addr[NCLI];
static coap_resource_t *res[NRES];
static int state[NRES], hcode[NRES], alive[NRES];
static int policy[NCLI];   /* 0 ack 1 drop 2 rst 3 rstall 4 rstold 5 fetch */
static int big;
static int lastmid[NCLI], prevmid[NCLI];
static char lastpath[NCLI][8];      /* the resource a client registered for last (for block fetches) */
static uint16_t cmid = 1;

static size_t unhex(const char *h, uint8_t *b, size_t cap) {
  size_t n = 0;
  while (h[0] && h[1] && n < cap) { unsigned x; if (sscanf(h, "%2x", &x) != 1) break; b[n++] = (uint8_t)x; h += 2; }
  return n;
}
static void arr(const uint8_t *b, size_t n) {
  size_t i;
  fputc('[', sim_trace);
  for (i = 0; i < n; i++) fprintf(sim_trace, "%s%u", i ? "," : "", b[i]);
  fputc(']', sim_trace);
}
static int cli_of(const coap_address_t *a) {
  int i;
  for (i = 0; i < NCLI; i++) if (sim_port(a) == sim_port(&cli_addr[i])) return i;
  return -1;
}

static void hnd(coap_resource_t *r, coap_session_t *s, const coap_pdu_t *req, const coap_string_t *q, coap_pdu_t *resp) {
  int i, k = -1;
  char buf[16];
  for (i = 0; i < NRES; i++) if (res[i] == r) k = i;
  if (k < 0) return;
  if (hcode[k] != 69) { coap_pdu_set_code(resp, (coap_pdu_code_t)hcode[k]); return; }
  coap_pdu_set_code(resp, COAP_RESPONSE_CODE_CONTENT);
  snprintf(buf, sizeof(buf), "%d", state[k]);
  if (!big) coap_add_data(resp, strlen(buf), (const uint8_t *)buf);
  else {
    /* the state number, a blank, padding: one representation per state, several blocks long */
    static uint8_t body[NRES][2048];
    size_t n = strlen(buf), L = (size_t)big < sizeof(body[0]) ? (size_t)big : sizeof(body[0]);
    memset(body[k], 'x', L);
    memcpy(body[k], buf, n);
    if (n < L) body[k][n] = ' ';
    coap_add_data_large_response(r, s, req, resp, q, COAP_MEDIATYPE_TEXT_PLAIN, -1, (uint64_t)state[k] + 1, L, body[k], NULL, NULL);
  }
}

static void send_raw(int c, const uint8_t *b, size_t n) {
  sim_inject(&cli_addr[c], &srv_addr, b, n, 0, -1);
}

static void on_peer_rx(const sim_dgram_t *dg) {
  const uint8_t *d = dg->data;
  int c = cli_of(&dg->dst), ty, tkl, code, mid, obs = -1, st = -1, b2num = -1, b2more = 0, b2szx = 0;
  size_t i, num = 0;
  if (c < 0 || dg->len < 4) return;
  ty = (d[0] >> 4) & 3; tkl = d[0] & 15; code = d[1]; mid = (d[2] << 8) | d[3];
  i = 4 + (size_t)tkl;
  while (i < dg->len && d[i] != 0xff) {
    size_t dl = d[i] >> 4, l = d[i] & 15;
    i++;
    if (dl == 13) { dl = d[i] + 13u; i++; } else if (dl == 14) { dl = (size_t)((d[i] << 8) | d[i + 1]) + 269; i += 2; }
    if (l == 13) { l = d[i] + 13u; i++; } else if (l == 14) { l = (size_t)((d[i] << 8) | d[i + 1]) + 269; i += 2; }
    num += dl;
    if (num == 6) { size_t k; obs = 0; for (k = 0; k < l; k++) obs = (obs << 8) | d[i + k]; }
    if (num == 23) { size_t k; unsigned v = 0; for (k = 0; k < l; k++) v = (v << 8) | d[i + k]; b2num = (int)(v >> 4); b2more = (v >> 3) & 1; b2szx = (int)(v & 7); }
    i += l;
  }
  if (i < dg->len && d[i] == 0xff) {
    size_t k;
    st = 0;
    for (k = i + 1; k < dg->len && d[k] >= '0' && d[k] <= '9'; k++) st = st * 10 + (d[k] - '0');
  }
  fprintf(sim_trace, "{\"e\":\"Down\",\"t\":%llu,\"c\":%d,\"ty\":%d,\"code\":%d,\"mid\":%d,\"obs\":%d,\"state\":%d,\"sig\":%u,\"tok\":",
          (unsigned long long)sim_now, c, ty, code, mid, obs, st, sim_sig(dg->data, dg->len));
  arr(d + 4, (size_t)tkl <= 8 ? (size_t)tkl : 0);
  fputs("}\n", sim_trace);
  if (code == 0) return;                          /* empty ACK / RST from the server */
  if (policy[c] == 5 && code == 69 && b2num >= 0 && b2more) {
    /* ask for the next block of this representation: a plain GET (no Observe) with Block2, under a token of its own */
    uint8_t g[48];
    size_t n = 0, pl = strlen(lastpath[c]);
    uint16_t m = cmid++;
    unsigned v = ((unsigned)(b2num + 1) << 4) | (unsigned)b2szx;
    g[n++] = 0x41; g[n++] = 1; g[n++] = (uint8_t)(m >> 8); g[n++] = (uint8_t)m; g[n++] = (uint8_t)(0xf0 + c);
    g[n++] = (uint8_t)(0xb0 | pl); memcpy(g + n, lastpath[c], pl); n += pl;                 /* Uri-Path (11) */
    if (v < 256) { g[n++] = 0xc1; g[n++] = (uint8_t)v; } else { g[n++] = 0xc2; g[n++] = (uint8_t)(v >> 8); g[n++] = (uint8_t)v; }   /* Block2 (23) */
    send_raw(c, g, n);
  }
  if (ty == 0 || ty == 1) {                       /* a notification (separate message) */
    uint8_t r[4];
    if (mid != lastmid[c]) { prevmid[c] = lastmid[c]; lastmid[c] = mid; }
    r[1] = 0; r[2] = (uint8_t)(mid >> 8); r[3] = (uint8_t)mid;
    if (ty == 0 && (policy[c] == 0 || policy[c] == 5)) {
      r[0] = 0x60; send_raw(c, r, 4);
      fprintf(sim_trace, "{\"e\":\"AckSent\",\"c\":%d,\"mid\":%d}\n", c, mid);
    } else if ((ty == 0 && (policy[c] == 2 || policy[c] == 3)) || (ty == 1 && policy[c] == 3)) {
      r[0] = 0x70; send_raw(c, r, 4);
      fprintf(sim_trace, "{\"e\":\"RstSent\",\"c\":%d,\"mid\":%d}\n", c, mid);
    } else if (policy[c] == 4 && prevmid[c] >= 0) {
      r[0] = 0x70; r[2] = (uint8_t)(prevmid[c] >> 8); r[3] = (uint8_t)prevmid[c];
      sim_inject(&cli_addr[c], &srv_addr, r, 4, 300, -1);
      fprintf(sim_trace, "{\"e\":\"RstSent\",\"c\":%d,\"mid\":%d}\n", c, prevmid[c]);
      policy[c] = 0;
    }
  }
}

static void get(int c, int r, const char *tokhex, const char *query, int obsval, const char *ev) {
  uint8_t b[128], tok[8];
  size_t tl = unhex(tokhex, tok, 8), n = 0, ql = query ? strlen(query) : 0;
  char name[4];
  uint16_t mid = cmid++;
  snprintf(name, sizeof(name), "o%d", r);
  if (obsval == 0) snprintf(lastpath[c], sizeof(lastpath[c]), "o%d", r);
  b[n++] = (uint8_t)(0x40 | tl); b[n++] = 1; b[n++] = mid >> 8; b[n++] = mid & 255;
  memcpy(b + n, tok, tl); n += tl;
  if (obsval == 0) b[n++] = 0x60; else { b[n++] = 0x61; b[n++] = (uint8_t)obsval; }    /* Observe (6) */
  b[n++] = 0x52; b[n++] = (uint8_t)name[0]; b[n++] = (uint8_t)name[1];                  /* Uri-Path (11): delta 5 */
  if (ql && ql < 13) { b[n++] = (uint8_t)(0x40 | ql); memcpy(b + n, query, ql); n += ql; }   /* Uri-Query (15) */
  if (big) { b[n++] = (uint8_t)((ql && ql < 13) ? 0x81 : 0xc1); b[n++] = 0x01; }             /* Block2 (23): block 0, 32 bytes - the observer asks for small blocks */
  fprintf(sim_trace, "{\"e\":\"%s\",\"t\":%llu,\"c\":%d,\"res\":%d,\"mid\":%d,\"q\":\"%s\",\"tok\":", ev, (unsigned long long)sim_now, c, r, mid,
          query ? query : "");
  arr(tok, tl);
  fputs("}\n", sim_trace);
  send_raw(c, b, n);
  sim_run(sim_now + 10);
}

static int prng(void *out, size_t len) {
  static uint32_t st = 777;
  uint8_t *o = out;
  size_t i;
  for (i = 0; i < len; i++) { st = st * 1664525u + 1013904223u; o[i] = (uint8_t)(st >> 24); }
  return 1;
}

int main(int argc, char **argv) {
  FILE *in;
  char line[256];
  if (argc < 3) return 2;
  in = fopen(argv[1], "r");
  sim_trace = fopen(argv[2], "w");
  if (!in || !sim_trace) return 2;
  setvbuf(sim_trace, NULL, _IOFBF, 1 << 20);
  coap_startup();
  coap_set_log_level(getenv("DRV_DEBUG") ? COAP_LOG_DEBUG : COAP_LOG_EMERG);
  coap_set_prng(prng);
  sim_hooks.on_peer_rx = on_peer_rx;
  sim_trace_io = 0;
  while (fgets(line, sizeof(line), in)) {
    char a[64] = "", b[64] = "";
    int v1 = 0, v2 = 0;
    if (line[0] == 'X') {
      int id = 0, mode = 0, nres = 1, i;
      unsigned start = 0;
      char *p;
      coap_endpoint_t *ep;
      if ((p = strstr(line, "id="))) id = atoi(p + 3);
      if ((p = strstr(line, "mode="))) mode = atoi(p + 5);
      if ((p = strstr(line, "start="))) start = (unsigned)atol(p + 6);
      if ((p = strstr(line, "nres="))) nres = atoi(p + 5);
      big = (p = strstr(line, "big=")) ? atoi(p + 4) : 0;
      if (ctx) { sim_remove_node(ctx); coap_free_context(ctx); }
      sim_reset(1000);
      ctx = coap_new_context(NULL);
      if (big) { coap_context_set_block_mode(ctx, COAP_BLOCK_USE_LIBCOAP); coap_context_set_max_block_size(ctx, 32); }
      sim_addr(&srv_addr, "127.0.0.1", 0);
      ep = coap_new_endpoint(ctx, &srv_addr, COAP_PROTO_UDP);
      srv_addr = ep->bind_addr;
      sim_add_node(ctx);
      for (i = 0; i < NCLI; i++) { sim_addr(&cli_addr[i], "127.0.0.1", (uint16_t)(41000 + i)); policy[i] = 0; lastmid[i] = prevmid[i] = -1; }
      for (i = 0; i < NRES; i++) {
        static const char *names[] = {"o0", "o1", "o2"};
        res[i] = NULL; state[i] = 0; hcode[i] = 69; alive[i] = 0;
        if (i >= nres) continue;
        res[i] = coap_resource_init(coap_make_str_const(names[i]),
                                    mode == 1 ? COAP_RESOURCE_FLAGS_NOTIFY_CON : mode == 2 ? COAP_RESOURCE_FLAGS_NOTIFY_NON_ALWAYS : 0);
        coap_register_request_handler(res[i], COAP_REQUEST_GET, hnd);
        coap_resource_set_get_observable(res[i], 1);
        coap_add_resource(ctx, res[i]);
        if (start) coap_persist_set_observe_num(res[i], start);
        alive[i] = 1;
      }
      fprintf(sim_trace, "{\"e\":\"Reset\",\"id\":%d,\"mode\":%d,\"nres\":%d,\"maxrtx\":4}\n", id, mode, nres);
      fflush(sim_trace);
      continue;
    }
    if (!ctx) continue;
    switch (line[0]) {
    case 'G': case 'U':
      if (sscanf(line + 1, "%d %d %63s %63s", &v1, &v2, a, b) >= 3 && v1 >= 0 && v1 < NCLI && v2 >= 0 && v2 < NRES)
        get(v1, v2, a, b[0] ? b : NULL, line[0] == 'G' ? 0 : 1, line[0] == 'G' ? "Reg" : "Cancel");
      break;
    case 'P':
      if (sscanf(line + 1, "%d %63s", &v1, a) == 2 && v1 >= 0 && v1 < NCLI) {
        policy[v1] = !strcmp(a, "ack") ? 0 : !strcmp(a, "drop") ? 1 : !strcmp(a, "rst") ? 2 : !strcmp(a, "rstall") ? 3 : !strcmp(a, "fetch") ? 5 : 4;
        fprintf(sim_trace, "{\"e\":\"Policy\",\"c\":%d,\"p\":\"%s\"}\n", v1, a);
      }
      break;
    case 'H': {
      int k = 1, j;
      if (sscanf(line + 1, "%d %d", &v1, &k) >= 1 && v1 >= 0 && v1 < NRES && alive[v1]) {
        for (j = 0; j < k; j++) {
          state[v1]++;
          coap_resource_notify_observers(res[v1], NULL);
        }
        fprintf(sim_trace, "{\"e\":\"Change\",\"t\":%llu,\"res\":%d,\"state\":%d}\n", (unsigned long long)sim_now, v1, state[v1]);
        sim_run(sim_now + 10);
      }
      break;
    }
    case 'M':
      if (sscanf(line + 1, "%d %d", &v1, &v2) == 2 && v1 >= 0 && v1 < NRES) {
        hcode[v1] = v2;
        fprintf(sim_trace, "{\"e\":\"Mode\",\"res\":%d,\"code\":%d}\n", v1, v2);
      }
      break;
    case 'D':
      if (sscanf(line + 1, "%d", &v1) == 1 && v1 >= 0 && v1 < NRES && alive[v1]) {
        fprintf(sim_trace, "{\"e\":\"Delete\",\"t\":%llu,\"res\":%d}\n", (unsigned long long)sim_now, v1);
        coap_delete_resource(ctx, res[v1]);
        alive[v1] = 0;
        sim_run(sim_now + 10);
      }
      break;
    case 'I':
      if (sscanf(line + 1, "%d", &v1) == 1) {
        sim_run(sim_now + (uint64_t)v1);
        fprintf(sim_trace, "{\"e\":\"Ran\",\"t\":%llu}\n", (unsigned long long)sim_now);
      }
      break;
    case 'E':
      sim_run(sim_now + 400000);
      fprintf(sim_trace, "{\"e\":\"Quiet\",\"t\":%llu}\n", (unsigned long long)sim_now);
      break;
    default:
      break;
    }
  }
  if (ctx) { sim_remove_node(ctx); coap_free_context(ctx); }
  fclose(sim_trace);
  coap_cleanup();
  return 0;
}
