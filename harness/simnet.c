/* simnet.c -- see simnet.h */
#include "simnet.h"
#include <sys/epoll.h>
#include <stdarg.h>
#include <string.h>
#include <stdlib.h>
#include <errno.h>
#include <arpa/inet.h>

sim_hooks_t sim_hooks;
uint64_t sim_now = 1000;
FILE *sim_trace;
int sim_trace_io = 1;
int sim_nested_wait = 0;           /* opt-in: a wait that libcoap itself starts (not the scheduler) blocks in virtual time */
int sim_trace_dg = 1;              /* log the simulator's own Tx / Rx / Lost / Tick events */
int sim_steps;

typedef struct { int used; int epfd; int fd; coap_socket_t *sock; uint32_t events; } sim_sock_t;
static sim_sock_t socks[SIM_MAX_SOCKS];
typedef struct { coap_context_t *ctx; int epfd; uint64_t deadline; int used; int in_io; int calls; } sim_node_t;
static sim_node_t nodes[SIM_MAX_NODES];
static sim_dgram_t *dgs;
static int ndg;
static struct { coap_session_t *p; int id; } sess_ids[4096];
static int n_sess_ids, next_sess_id = 1;

int __real_epoll_ctl(int epfd, int op, int fd, struct epoll_event *ev);

/* ---------------------------------------------------------------- trace */
void
tr(const char *fmt, ...) {
  va_list ap;
  if (!sim_trace)
    return;
  fprintf(sim_trace, "{\"t\":%llu,", (unsigned long long)sim_now);
  va_start(ap, fmt);
  vfprintf(sim_trace, fmt, ap);
  va_end(ap);
  fputs("}\n", sim_trace);
}

void
tr_hex(char *out, const uint8_t *d, size_t n) {
  static const char h[] = "0123456789abcdef";
  size_t i;
  for (i = 0; i < n; i++) {
    out[2*i] = h[d[i] >> 4];
    out[2*i+1] = h[d[i] & 15];
  }
  out[2*n] = 0;
}

uint32_t
sim_sig(const uint8_t *d, size_t n) {
  /* FNV-1a, folded to 30 bits (TLC integers are 32-bit signed) */
  uint32_t h = 2166136261u;
  size_t i;
  for (i = 0; i < n; i++) {
    h ^= d[i];
    h *= 16777619u;
  }
  return (h ^ (h >> 30)) & 0x3fffffffu;
}

void
sim_addr(coap_address_t *a, const char *ip, uint16_t port) {
  coap_address_init(a);
  a->size = sizeof(struct sockaddr_in);
  a->addr.sin.sin_family = AF_INET;
  a->addr.sin.sin_port = htons(port);
  inet_pton(AF_INET, ip, &a->addr.sin.sin_addr);
}

uint16_t
sim_port(const coap_address_t *a) {
  if (a->addr.sa.sa_family == AF_INET)
    return ntohs(a->addr.sin.sin_port);
  if (a->addr.sa.sa_family == AF_INET6)
    return ntohs(a->addr.sin6.sin6_port);
  return 0;
}

static int
addr_eq(const coap_address_t *a, const coap_address_t *b) {
  if (a->addr.sa.sa_family != b->addr.sa.sa_family)
    return 0;
  if (a->addr.sa.sa_family == AF_INET)
    return a->addr.sin.sin_port == b->addr.sin.sin_port &&
           a->addr.sin.sin_addr.s_addr == b->addr.sin.sin_addr.s_addr;
  if (a->addr.sa.sa_family == AF_INET6)
    return a->addr.sin6.sin6_port == b->addr.sin6.sin6_port &&
           memcmp(&a->addr.sin6.sin6_addr, &b->addr.sin6.sin6_addr, 16) == 0;
  return 0;
}

/* ---------------------------------------------------------------- ids */
int
sim_session_id(coap_session_t *s) {
  int i;
  if (!s)
    return 0;
  if (sim_hooks.sess_id) {
    int id = sim_hooks.sess_id(s);
    if (id)
      return id;
  }
  for (i = 0; i < n_sess_ids; i++)
    if (sess_ids[i].p == s)
      return sess_ids[i].id;
  if (n_sess_ids < 4096) {
    sess_ids[n_sess_ids].p = s;
    sess_ids[n_sess_ids].id = next_sess_id++;
    return sess_ids[n_sess_ids++].id;
  }
  return -1;
}

void
sim_forget_session(coap_session_t *s) {
  int i;
  for (i = 0; i < n_sess_ids; i++)
    if (sess_ids[i].p == s) {
      sess_ids[i] = sess_ids[--n_sess_ids];
      return;
    }
}

/* ---------------------------------------------------------------- nodes */
int
sim_add_node(coap_context_t *ctx) {
  int i;
  for (i = 0; i < SIM_MAX_NODES; i++)
    if (!nodes[i].used) {
      nodes[i].used = 1;
      nodes[i].ctx = ctx;
      nodes[i].epfd = ctx->epfd;
      nodes[i].deadline = UINT64_MAX;
      nodes[i].in_io = 0;
      return i;
    }
  return -1;
}

void
sim_remove_node(coap_context_t *ctx) {
  int i;
  for (i = 0; i < SIM_MAX_NODES; i++)
    if (nodes[i].used && nodes[i].ctx == ctx)
      nodes[i].used = 0;
}

int
sim_node_of_ctx(coap_context_t *ctx) {
  int i;
  for (i = 0; i < SIM_MAX_NODES; i++)
    if (nodes[i].used && nodes[i].ctx == ctx)
      return i;
  return -1;
}

static int
node_of_epfd(int epfd) {
  int i;
  for (i = 0; i < SIM_MAX_NODES; i++)
    if (nodes[i].used && nodes[i].epfd == epfd)
      return i;
  return -1;
}

void
sim_reset(uint64_t start) {
  int i;
  for (i = 0; i < ndg; i++)
    free(dgs[i].data);
  ndg = 0;
  if (!dgs)
    dgs = calloc(SIM_MAX_DG, sizeof(*dgs));
  sim_now = start;
  sim_steps = 0;
  n_sess_ids = 0;
  next_sess_id = 1;
  for (i = 0; i < SIM_MAX_NODES; i++)
    nodes[i].deadline = UINT64_MAX;
}

/* ---------------------------------------------------------------- routing */
static int
sock_is_dgram(coap_socket_t *sock) {
  if (sock->endpoint)
    return COAP_PROTO_NOT_RELIABLE(sock->endpoint->proto);
  if (sock->session)
    return COAP_PROTO_NOT_RELIABLE(sock->session->proto);
  return 0;
}

/* does datagram dg arrive at socket sock? */
static int
dg_matches_sock(const sim_dgram_t *dg, coap_socket_t *sock) {
  if (!sock_is_dgram(sock))
    return 0;
  if (sock->endpoint) {
    /* bound, unconnected: any source; match on port (multicast destination allowed) */
    return sim_port(&dg->dst) == sim_port(&sock->endpoint->bind_addr);
  }
  if (sock->session) {
    coap_session_t *s = sock->session;
    if (sim_port(&dg->dst) != sim_port(&s->addr_info.local))
      return 0;
    if (sock->flags & COAP_SOCKET_CONNECTED)
      return addr_eq(&dg->src, &s->addr_info.remote); /* kernel filters by peer */
    return 1;
  }
  return 0;
}

static coap_socket_t *
find_sock_for(const sim_dgram_t *dg, int *slot) {
  int i;
  for (i = 0; i < SIM_MAX_SOCKS; i++)
    if (socks[i].used && dg_matches_sock(dg, socks[i].sock)) {
      if (slot)
        *slot = i;
      return socks[i].sock;
    }
  return NULL;
}

static int
port_is_libcoap(uint16_t port) {
  int i;
  for (i = 0; i < SIM_MAX_SOCKS; i++) {
    coap_socket_t *sock;
    if (!socks[i].used)
      continue;
    sock = socks[i].sock;
    if (!sock_is_dgram(sock))
      continue;
    if (sock->endpoint && sim_port(&sock->endpoint->bind_addr) == port)
      return 1;
    if (sock->session && sim_port(&sock->session->addr_info.local) == port)
      return 1;
  }
  return 0;
}

int
sim_inject(const coap_address_t *src, const coap_address_t *dst,
           const uint8_t *data, size_t len, uint32_t delay, int origin) {
  sim_dgram_t *dg;
  if (ndg >= SIM_MAX_DG)
    return -1;
  dg = &dgs[ndg];
  memset(dg, 0, sizeof(*dg));
  dg->id = ndg;
  dg->origin = origin < 0 ? ndg : origin;
  dg->at = sim_now + delay;
  dg->src = *src;
  dg->dst = *dst;
  dg->data = malloc(len ? len : 1);
  memcpy(dg->data, data, len);
  dg->len = len;
  dg->to_peer = !port_is_libcoap(sim_port(dst));
  ndg++;
  return dg->id;
}

/* ---------------------------------------------------------------- wrapped libcoap / libc symbols */
void
__wrap_coap_ticks(coap_tick_t *t) {
  if (t)
    *t = (coap_tick_t)sim_now;
}

int
__wrap_epoll_ctl(int epfd, int op, int fd, struct epoll_event *ev) {
  int i, fr = -1;
  if (node_of_epfd(epfd) < 0 && !(ev && ev->data.ptr))
    return __real_epoll_ctl(epfd, op, fd, ev);
  for (i = 0; i < SIM_MAX_SOCKS; i++) {
    if (socks[i].used && socks[i].epfd == epfd && socks[i].fd == fd)
      break;
    if (!socks[i].used && fr < 0)
      fr = i;
  }
  if (op == EPOLL_CTL_DEL) {
    if (i < SIM_MAX_SOCKS)
      socks[i].used = 0;
  } else if (ev && ev->data.ptr) {
    if (i == SIM_MAX_SOCKS)
      i = fr;
    if (i >= 0) {
      socks[i].used = 1;
      socks[i].epfd = epfd;
      socks[i].fd = fd;
      socks[i].sock = (coap_socket_t *)ev->data.ptr;
      socks[i].events = ev->events;
    }
  }
  return __real_epoll_ctl(epfd, op, fd, ev);
}

/* a socket that libcoap closes (with or without taking it out of the epoll set first) is forgotten here */
void __real_coap_socket_close(coap_socket_t *sock);
void
__wrap_coap_socket_close(coap_socket_t *sock) {
  int i;
  for (i = 0; i < SIM_MAX_SOCKS; i++)
    if (socks[i].used && socks[i].sock == sock)
      socks[i].used = 0;
  __real_coap_socket_close(sock);
}

static int
deliverable_for(coap_socket_t *sock) {
  int i, best = -1;
  for (i = 0; i < ndg; i++) {
    sim_dgram_t *dg = &dgs[i];
    if (dg->taken || dg->to_peer || dg->at > sim_now)
      continue;
    if (!dg_matches_sock(dg, sock))
      continue;
    if (best < 0 || dg->at < dgs[best].at)
      best = i;
  }
  return best;
}

/* extra event sources (stream sockets etc.) supplied by drivers */
int (*sim_extra_events)(int epfd, struct epoll_event *events, int max);

static int
ready_events(int epfd, struct epoll_event *events, int cap) {
  int n = 0, i;
  for (i = 0; i < SIM_MAX_SOCKS && n < cap; i++) {
    if (!socks[i].used || socks[i].epfd != epfd)
      continue;
    if (!(socks[i].sock->flags & COAP_SOCKET_WANT_READ))
      continue;
    if (deliverable_for(socks[i].sock) >= 0) {
      events[n].events = EPOLLIN;
      events[n].data.ptr = socks[i].sock;
      n++;
    }
  }
  if (sim_extra_events && n < cap)
    n += sim_extra_events(epfd, events + n, cap - n);
  return n;
}

int
__wrap_epoll_wait(int epfd, struct epoll_event *events, int maxevents, int timeout) {
  int n = 0, node = node_of_epfd(epfd);
  int cap = maxevents > 9 ? 9 : maxevents; /* never return COAP_MAX_EPOLL_EVENTS */
  if (node >= 0 && timeout != 0) {
    nodes[node].deadline = timeout < 0 ? UINT64_MAX : sim_now + (uint64_t)timeout;
    if (sim_trace_io)
      tr("\"e\":\"Io\",\"node\":%d,\"wait\":%d", node, timeout);
  }
  n = ready_events(epfd, events, cap);
  if (n == 0 && sim_nested_wait && timeout > 0 && node >= 0 && (!nodes[node].in_io || nodes[node].calls > 0)) {
    /* a wait started by libcoap itself (e.g. coap_client_delay_first) or by the application, not by the scheduler:
       it really blocks -- let the other nodes run and virtual time pass until something arrives or the timeout is over */
    uint64_t end = sim_now + (uint64_t)timeout;
    int saved = nodes[node].in_io, guard;
    nodes[node].in_io = 1;
    for (guard = 0; guard < 100000; guard++) {
      uint64_t next;
      int g2 = 0;
      while (sim_round() > 0 && ++g2 < 10000);
      n = ready_events(epfd, events, cap);
      if (n)
        break;
      next = sim_next_event_time();
      if (next == UINT64_MAX || next >= end) {
        sim_now = end;
        break;
      }
      if (next > sim_now)
        sim_now = next;
      else {
        int i;             /* a deadline at this very instant that a round did not consume */
        for (i = 0; i < SIM_MAX_NODES; i++)
          if (nodes[i].used && i != node && nodes[i].deadline <= sim_now)
            nodes[i].deadline = UINT64_MAX;
      }
    }
    nodes[node].in_io = saved;
    nodes[node].deadline = UINT64_MAX;
  }
  if (node >= 0)
    nodes[node].calls++;
  return n;
}

static void
log_hdr(const char *ev, int node, int sid, const uint8_t *d, size_t len, const sim_dgram_t *dg,
        int copies, int enc, unsigned maxdly) {
  char tok[2 * 24 + 1] = "";
  unsigned ty = 0, tkl = 0, code = 0, mid = 0;
  if (!enc && len >= 4) {
    ty = (d[0] >> 4) & 3;
    tkl = d[0] & 15;
    code = d[1];
    mid = (d[2] << 8) | d[3];
    if (tkl <= 8 && len >= 4 + tkl)
      tr_hex(tok, d + 4, tkl);
    else if (tkl == 13 && len >= 5 && len >= 5u + d[4] + 13u && d[4] + 13u <= 24)
      tr_hex(tok, d + 5, d[4] + 13u);
  }
  if (sim_trace_dg)
  tr("\"e\":\"%s\",\"node\":%d,\"s\":%d,\"enc\":%d,\"ty\":%u,\"code\":%u,\"mid\":%u,\"tok\":\"%s\","
     "\"len\":%zu,\"sig\":%u,\"dg\":%d,\"org\":%d,\"copies\":%d,\"dly\":%u,\"sport\":%u,\"dport\":%u",
     ev, node, sid, enc, ty, code, mid, tok, len, sim_sig(d, len), dg->id, dg->origin, copies, maxdly,
     sim_port(&dg->src), sim_port(&dg->dst));
}

ssize_t
__wrap_coap_socket_send(coap_socket_t *sock, coap_session_t *session,
                        const uint8_t *data, size_t datalen) {
  sim_verdict_t v;
  coap_address_t src;
  int id, c, node;
  sim_dgram_t tmp;
  (void)sock;
  src = session->addr_info.local;
  if (coap_is_mcast(&src) && session->endpoint)
    src = session->endpoint->bind_addr;
  else if (session->endpoint && sim_port(&src) == 0)
    src = session->endpoint->bind_addr;
  node = sim_node_of_ctx(session->context);
  memset(&v, 0, sizeof(v));
  v.copies = 1;
  memset(&tmp, 0, sizeof(tmp));
  tmp.id = ndg;
  tmp.origin = ndg;
  tmp.src = src;
  tmp.dst = session->addr_info.remote;
  tmp.data = (uint8_t *)data;
  tmp.len = datalen;
  if (sim_hooks.on_tx)
    sim_hooks.on_tx(node, session, &tmp, &v);
  {
    unsigned md = 0;
    for (c = 0; c < v.copies && c < 4; c++)
      if (v.delay[c] > md)
        md = v.delay[c];
    log_hdr(v.copies < 0 ? "TxFail" : "Tx", node, sim_session_id(session), data, datalen, &tmp, v.copies < 0 ? 0 : v.copies,
            session->proto == COAP_PROTO_DTLS, md);
  }
  if (v.copies < 0) {
    /* the environment's verdict: the socket refuses this datagram (a transient error such as ENOBUFS) */
    errno = ENOBUFS;
    return -1;
  }
  /* the emission itself always gets an id so that Tx indices are dense */
  id = sim_inject(&src, &session->addr_info.remote, data, datalen,
                  v.copies > 0 ? v.delay[0] : 0, -1);
  if (id >= 0 && v.copies == 0)
    dgs[id].taken = 1; /* dropped */
  for (c = 1; c < v.copies && c < 4; c++)
    sim_inject(&src, &session->addr_info.remote, data, datalen, v.delay[c], id);
  return (ssize_t)datalen;
}

ssize_t
__wrap_coap_socket_recv(coap_socket_t *sock, coap_packet_t *packet) {
  int i;
  sim_dgram_t *dg;
  coap_context_t *ctx = NULL;
  if ((sock->flags & COAP_SOCKET_CAN_READ) == 0)
    return -1;
  sock->flags &= ~COAP_SOCKET_CAN_READ;
  i = deliverable_for(sock);
  if (i < 0) {
    errno = EAGAIN;
    return -1;
  }
  dg = &dgs[i];
  dg->taken = 1;
  if (dg->len > COAP_RXBUFFER_SIZE) {
    errno = EMSGSIZE;
    return -1;
  }
  memcpy(packet->payload, dg->data, dg->len);
  packet->length = dg->len;
  packet->ifindex = 1;
  if (!(sock->flags & COAP_SOCKET_CONNECTED)) {
    coap_address_copy(&packet->addr_info.remote, &dg->src);
    /* local: keep the bound address unless the destination is multicast */
    if (coap_is_mcast(&dg->dst))
      coap_address_copy(&packet->addr_info.local, &dg->dst);
    else if (sock->endpoint) {
      coap_address_copy(&packet->addr_info.local, &sock->endpoint->bind_addr);
    }
  }
  if (sock->endpoint)
    ctx = sock->endpoint->context;
  else if (sock->session)
    ctx = sock->session->context;
  log_hdr("Rx", ctx ? sim_node_of_ctx(ctx) : -1, sock->session ? sim_session_id(sock->session) : 0,
          dg->data, dg->len, dg, 1,
          (sock->endpoint && sock->endpoint->proto == COAP_PROTO_DTLS) ||
          (sock->session && sock->session->proto == COAP_PROTO_DTLS), 0);
  if (dg->len == 0) {
    /* a zero-length datagram: libcoap treats 0 as nothing read */
    return 0;
  }
  return (ssize_t)dg->len;
}

/* ---------------------------------------------------------------- scheduler */
uint64_t
sim_next_event_time(void) {
  uint64_t next = UINT64_MAX;
  int i;
  for (i = 0; i < SIM_MAX_NODES; i++)
    if (nodes[i].used && nodes[i].deadline < next)
      next = nodes[i].deadline;
  for (i = 0; i < ndg; i++)
    if (!dgs[i].taken && dgs[i].at < next)
      next = dgs[i].at > sim_now ? dgs[i].at : sim_now;
  if (sim_hooks.next_app_time) {
    uint64_t a = sim_hooks.next_app_time();
    if (a < next)
      next = a > sim_now ? a : sim_now;
  }
  return next;
}

static int
peer_deliveries(void) {
  int i, n = 0;
  for (i = 0; i < ndg; i++) {
    sim_dgram_t *dg = &dgs[i];
    if (dg->taken || dg->at > sim_now)
      continue;
    if (!dg->to_peer) {
      /* destination socket may have disappeared (session closed): discard */
      if (!find_sock_for(dg, NULL)) {
        dg->taken = 1;
        if (sim_trace_dg) tr("\"e\":\"Lost\",\"dg\":%d", dg->id);
      }
      continue;
    }
    dg->taken = 1;
    n++;
    if (sim_hooks.on_peer_rx)
      sim_hooks.on_peer_rx(dg);
  }
  return n;
}

int
sim_round(void) {
  int i, n = 0, before;
  sim_steps++;
  n += peer_deliveries();
  for (i = 0; i < SIM_MAX_NODES; i++) {
    int j, taken0 = 0, taken1 = 0;
    if (!nodes[i].used || nodes[i].in_io)
      continue;
    for (j = 0; j < ndg; j++)
      taken0 += dgs[j].taken;
    before = ndg;
    nodes[i].in_io = 1;
    nodes[i].calls = 0;
    coap_io_process(nodes[i].ctx, COAP_IO_WAIT);
    nodes[i].in_io = 0;
    for (j = 0; j < ndg; j++)
      taken1 += dgs[j].taken;
    n += (ndg - before) + (taken1 - taken0);
  }
  if (sim_hooks.on_round)
    n += sim_hooks.on_round();
  return n;
}

uint64_t
sim_run(uint64_t until) {
  for (;;) {
    uint64_t next;
    int guard = 0;
    while (sim_round() > 0) {
      if (++guard > 10000) {
        tr("\"e\":\"Hang\",\"why\":\"no quiescence within 10000 rounds at one instant\"");
        return sim_now;
      }
    }
    next = sim_next_event_time();
    if (next == UINT64_MAX || next > until) {
      if (until != UINT64_MAX && until > sim_now) {
        sim_now = until;
        if (sim_trace_dg) tr("\"e\":\"Tick\"");
      }
      return sim_now;
    }
    if (next > sim_now) {
      sim_now = next;
      if (sim_trace_dg) tr("\"e\":\"Tick\"");
    } else {
      /* event at the current instant that a round did not consume: run another round, bounded */
      if (++sim_steps > 200000) {
        tr("\"e\":\"Hang\",\"why\":\"step budget\"");
        return sim_now;
      }
      /* deadline == now means libcoap asked to be called again immediately: fine, loop */
      {
        int i;
        for (i = 0; i < SIM_MAX_NODES; i++)
          if (nodes[i].used && nodes[i].deadline <= sim_now)
            nodes[i].deadline = UINT64_MAX; /* will be recomputed by the next round */
      }
    }
  }
}
