/* drv_persist.c -- driver for C17: observe persistence across a process kill at any stdio / rename call.
 *
 * (optional 7th argument: number of operations of the history that precede this process, see checks/persist.py)
 * usage: drv_persist <dir> <port> <script> <trace (appended)> <kill>
 *        kill: 0 = run to the end; +n = _exit right AFTER the n-th stdio call of the persistence code; -n = right BEFORE it
 * script:
 *   C <name>                 PUT /<name> from peer 0: the application's unknown-resource handler creates an observable resource
 *   X <name>                 DELETE /<name>: the application deletes the resource
 *   O <client> <name> <tok>  GET Observe=0 (register);   U <client> <name> <tok>   GET Observe=1 (cancel)
 *   H <name> [k]             k resource changes signalled by the application
 *   S <j>                    snapshot of the three files (after operation j)
 *   Q <name> ...             does GET /<name> find a resource?
 *   N <name> ...             signal one change on each named resource that exists and report who gets notified
 * Every stdio call the persistence code makes on the three files (and their .tmp) is counted (ld --wrap).
 */
#include "simnet.h"
#include <string.h>
#include <stdlib.h>
#include <unistd.h>

static coap_context_t *ctx;
static coap_address_t srv_addr;
static const char *dir;
static long ncall, kill_at;
static FILE *tracked[64];
static int ntracked;
static uint16_t cmid = 1;
static int opno;
static void *perturb[512];          /* the blocks are deliberately kept until exit */
static unsigned nperturb;

FILE *__real_fopen(const char *path, const char *mode);
int __real_fclose(FILE *f);
int __real_fflush(FILE *f);
size_t __real_fwrite(const void *p, size_t s, size_t n, FILE *f);
size_t __real_fread(void *p, size_t s, size_t n, FILE *f);
int __real_rename(const char *a, const char *b);
int __real_remove(const char *a);

static int ours(const char *path) { return dir && path && strstr(path, dir) == path && !strstr(path, "trace"); }
static int is_tracked(FILE *f) { int i; for (i = 0; i < ntracked; i++) if (tracked[i] == f) return 1; return 0; }
static void snapshot(int j);
static void before(const char *fn) {
  ncall++;
  if (kill_at < 0 && ncall == -kill_at) {
    if (sim_trace) { fprintf(sim_trace, "{\"e\":\"Killed\",\"call\":%ld,\"when\":\"before\",\"fn\":\"%s\",\"op\":%d}\n", ncall, fn, opno); __real_fflush(sim_trace); }
    _exit(77);
  }
}
static void after(const char *fn) {
  if (kill_at > 0 && ncall == kill_at) {
    if (sim_trace) { fprintf(sim_trace, "{\"e\":\"Killed\",\"call\":%ld,\"when\":\"after\",\"fn\":\"%s\",\"op\":%d}\n", ncall, fn, opno); __real_fflush(sim_trace); }
    _exit(77);
  }
}
FILE *__wrap_fopen(const char *path, const char *mode) {
  FILE *f;
  if (!ours(path)) return __real_fopen(path, mode);
  before("fopen");
  f = __real_fopen(path, mode);
  if (f && ntracked < 64) tracked[ntracked++] = f;
  after("fopen");
  return f;
}
int __wrap_fclose(FILE *f) {
  int r, i;
  if (!is_tracked(f)) return __real_fclose(f);
  before("fclose");
  for (i = 0; i < ntracked; i++) if (tracked[i] == f) { tracked[i] = tracked[--ntracked]; break; }
  r = __real_fclose(f);
  after("fclose");
  return r;
}
int __wrap_fflush(FILE *f) {
  int r;
  if (!f || !is_tracked(f)) return __real_fflush(f);
  before("fflush");
  r = __real_fflush(f);
  after("fflush");
  return r;
}
size_t __wrap_fwrite(const void *p, size_t s, size_t n, FILE *f) {
  size_t r;
  if (!is_tracked(f)) return __real_fwrite(p, s, n, f);
  before("fwrite");
  r = __real_fwrite(p, s, n, f);
  after("fwrite");
  return r;
}
size_t __wrap_fread(void *p, size_t s, size_t n, FILE *f) {
  if (!is_tracked(f)) return __real_fread(p, s, n, f);
  return __real_fread(p, s, n, f);     /* reads do not change anything on disk: not a crash point of interest, not counted */
}
int __wrap_rename(const char *a, const char *b) {
  int r;
  if (!ours(a)) return __real_rename(a, b);
  before("rename");
  r = __real_rename(a, b);
  if (kill_at == 0 && sim_trace) snapshot(opno);     /* reference run: every completed update is a legitimate file state */
  after("rename");
  return r;
}
int __wrap_remove(const char *a) {
  int r;
  if (!ours(a)) return __real_remove(a);
  before("remove");
  r = __real_remove(a);
  after("remove");
  return r;
}

static void ev(const char *fmt, ...) __attribute__((format(printf, 1, 2)));
#include <stdarg.h>
static void ev(const char *fmt, ...) {
  va_list ap;
  va_start(ap, fmt);
  vfprintf(sim_trace, fmt, ap);
  va_end(ap);
  __real_fflush(sim_trace);
}

static void hnd_get(coap_resource_t *r, coap_session_t *s, const coap_pdu_t *req, const coap_string_t *q, coap_pdu_t *resp) {
  (void)r; (void)s; (void)req; (void)q;
  coap_pdu_set_code(resp, COAP_RESPONSE_CODE_CONTENT);
  coap_add_data(resp, 1, (const uint8_t *)"v");
}
static void hnd_delete(coap_resource_t *r, coap_session_t *s, const coap_pdu_t *req, const coap_string_t *q, coap_pdu_t *resp) {
  (void)s; (void)req; (void)q;
  coap_delete_resource(NULL, r);
  coap_pdu_set_code(resp, COAP_RESPONSE_CODE_DELETED);
}
static void hnd_put(coap_resource_t *r, coap_session_t *s, const coap_pdu_t *req, const coap_string_t *q, coap_pdu_t *resp) {
  (void)r; (void)s; (void)req; (void)q;
  coap_pdu_set_code(resp, COAP_RESPONSE_CODE_CHANGED);
}
static void hnd_put_unknown(coap_resource_t *ur, coap_session_t *s, const coap_pdu_t *req, const coap_string_t *q, coap_pdu_t *resp) {
  coap_string_t *path = coap_get_uri_path(req);
  coap_resource_t *r;
  (void)ur; (void)q;
  if (!path) { coap_pdu_set_code(resp, COAP_RESPONSE_CODE_NOT_FOUND); return; }
  r = coap_resource_init((coap_str_const_t *)path, COAP_RESOURCE_FLAGS_RELEASE_URI);
  coap_register_request_handler(r, COAP_REQUEST_GET, hnd_get);
  coap_register_request_handler(r, COAP_REQUEST_PUT, hnd_put);
  coap_register_request_handler(r, COAP_REQUEST_DELETE, hnd_delete);
  coap_resource_set_get_observable(r, 1);
  coap_add_resource(coap_session_get_context(s), r);
  coap_pdu_set_code(resp, COAP_RESPONSE_CODE_CREATED);
}

static int last_code[8];
/* a notification counts as sent the moment the library hands it to the network: the process may die before the peer's event is logged */
static void on_tx(int node, coap_session_t *sess, const sim_dgram_t *dg, sim_verdict_t *v) {
  const uint8_t *d = dg->data;
  int c = (int)sim_port(&dg->dst) - 42000, ty, tkl, code, obs = -1;
  size_t i, num = 0;
  char tok[20] = "";
  (void)node; (void)sess; (void)v;
  if (dg->len < 4 || c < 0 || c > 7) return;
  ty = (d[0] >> 4) & 3; tkl = d[0] & 15; code = d[1];
  if (!code || ty > 1 || tkl > 8) return;
  tr_hex(tok, d + 4, (size_t)tkl);
  i = 4 + (size_t)tkl;
  while (i < dg->len && d[i] != 0xff) {
    size_t dl = d[i] >> 4, l = d[i] & 15;
    i++;
    if (dl == 13) { dl = d[i] + 13u; i++; } else if (dl == 14) { dl = (size_t)((d[i] << 8) | d[i + 1]) + 269; i += 2; }
    if (l == 13) { l = d[i] + 13u; i++; } else if (l == 14) { l = (size_t)((d[i] << 8) | d[i + 1]) + 269; i += 2; }
    num += dl;
    if (num == 6) { size_t k; obs = 0; for (k = 0; k < l; k++) obs = (obs << 8) | d[i + k]; }
    i += l;
  }
  if (obs >= 0) ev("{\"e\":\"Sent\",\"c\":%d,\"obs\":%d,\"tok\":\"%s\"}\n", c, obs, tok);
}
static void on_peer_rx(const sim_dgram_t *dg) {
  const uint8_t *d = dg->data;
  int c = (int)sim_port(&dg->dst) - 42000, ty, tkl, code, mid, obs = -1;
  size_t i, num = 0;
  char tok[20] = "";
  if (dg->len < 4 || c < 0 || c > 7) return;
  ty = (d[0] >> 4) & 3; tkl = d[0] & 15; code = d[1]; mid = (d[2] << 8) | d[3];
  if (tkl <= 8) tr_hex(tok, d + 4, (size_t)tkl);
  i = 4 + (size_t)tkl;
  while (i < dg->len && d[i] != 0xff) {
    size_t dl = d[i] >> 4, l = d[i] & 15;
    i++;
    if (dl == 13) { dl = d[i] + 13u; i++; } else if (dl == 14) { dl = (size_t)((d[i] << 8) | d[i + 1]) + 269; i += 2; }
    if (l == 13) { l = d[i] + 13u; i++; } else if (l == 14) { l = (size_t)((d[i] << 8) | d[i + 1]) + 269; i += 2; }
    num += dl;
    if (num == 6) { size_t k; obs = 0; for (k = 0; k < l; k++) obs = (obs << 8) | d[i + k]; }
    i += l;
  }
  last_code[c] = code;
  if (code && (ty == 0 || ty == 1)) {
    ev("{\"e\":\"Notif\",\"c\":%d,\"ty\":%d,\"code\":%d,\"obs\":%d,\"tok\":\"%s\",\"mid\":%d}\n", c, ty, code, obs, tok, mid);
    if (ty == 0) {
      uint8_t a[4] = {0x60, 0, (uint8_t)(mid >> 8), (uint8_t)mid};
      sim_inject(&dg->dst, &dg->src, a, 4, 0, -1);
    }
  } else if (code)
    ev("{\"e\":\"Reply\",\"c\":%d,\"code\":%d,\"obs\":%d,\"tok\":\"%s\"}\n", c, code, obs, tok);
}

static void request(int c, int method, const char *name, const char *tokhex, int obsval) {
  uint8_t b[96], tok[8];
  size_t tl = 0, n = 0, nl = strlen(name);
  coap_address_t peer;
  uint16_t mid = cmid++;
  while (tokhex && tokhex[0] && tokhex[1] && tl < 8) { unsigned x; sscanf(tokhex, "%2x", &x); tok[tl++] = (uint8_t)x; tokhex += 2; }
  sim_addr(&peer, "127.0.0.1", (uint16_t)(42000 + c));
  b[n++] = (uint8_t)(0x40 | tl); b[n++] = (uint8_t)method; b[n++] = mid >> 8; b[n++] = mid & 255;
  memcpy(b + n, tok, tl); n += tl;
  if (obsval == 0) { b[n++] = 0x60; b[n++] = (uint8_t)(0x50 | nl); }
  else if (obsval == 1) { b[n++] = 0x61; b[n++] = 1; b[n++] = (uint8_t)(0x50 | nl); }
  else b[n++] = (uint8_t)(0xb0 | nl);
  memcpy(b + n, name, nl); n += nl;
  last_code[c] = -1;
  sim_inject(&peer, &srv_addr, b, n, 0, -1);
  sim_run(sim_now + 20);
}

static void snapshot(int j) {
  static const char *names[] = {"dyn", "obs", "cnt"};
  int k;
  fprintf(sim_trace, "{\"e\":\"Snap\",\"j\":%d", j);
  for (k = 0; k < 3; k++) {
    char p[512];
    FILE *f;
    int ch;
    snprintf(p, sizeof(p), "%s/%s", dir, names[k]);
    f = __real_fopen(p, "rb");
    fprintf(sim_trace, ",\"%s\":\"", names[k]);
    if (f) { while ((ch = fgetc(f)) != EOF) fprintf(sim_trace, "%02x", ch); __real_fclose(f); } else fputs("-", sim_trace);
    fputs("\"", sim_trace);
  }
  fputs("}\n", sim_trace);
  __real_fflush(sim_trace);
}

static int prng(void *out, size_t len) {
  static uint32_t st = 31;
  uint8_t *o = out;
  size_t i;
  for (i = 0; i < len; i++) { st = st * 1664525u + 1013904223u; o[i] = (uint8_t)(st >> 24); }
  return 1;
}

int main(int argc, char **argv) {
  FILE *in;
  char line[512], p1[512], p2[512], p3[512];
  coap_resource_t *ur;
  coap_endpoint_t *ep;
  int freq = 1;
  if (argc < 6) return 2;
  dir = argv[1];
  in = __real_fopen(argv[3], "r");
  sim_trace = __real_fopen(argv[4], "a");
  if (sim_trace) setvbuf(sim_trace, NULL, _IOLBF, 0);
  kill_at = atol(argv[5]);
  if (argc > 6) freq = atoi(argv[6]);
  if (argc > 7) opno = atoi(argv[7]);           /* a later generation of the history: operations before this process, the restart included */
  if (!in || !sim_trace) return 2;
  coap_startup();
  coap_set_log_level(getenv("DRV_DEBUG") ? COAP_LOG_DEBUG : COAP_LOG_EMERG);
  coap_set_prng(prng);
  sim_hooks.on_peer_rx = on_peer_rx;
  sim_hooks.on_tx = on_tx;
  sim_trace_io = 0;
  sim_reset(1000);
  {
    FILE *keep = sim_trace;   /* the simulator's own Tick lines are not wanted here */
    (void)keep;
  }
  ctx = coap_new_context(NULL);
  sim_addr(&srv_addr, "127.0.0.1", (uint16_t)atoi(argv[2]));
  ep = coap_new_endpoint(ctx, &srv_addr, COAP_PROTO_UDP);
  if (!ep) { ev("{\"e\":\"Crash\",\"why\":\"bind\"}\n"); return 3; }
  sim_add_node(ctx);
  ur = coap_resource_unknown_init2(hnd_put_unknown, 0);
  coap_add_resource(ctx, ur);
  snprintf(p1, sizeof(p1), "%s/dyn", dir); snprintf(p2, sizeof(p2), "%s/obs", dir); snprintf(p3, sizeof(p3), "%s/cnt", dir);
  if (opno > 0) ev("{\"e\":\"Op\",\"j\":%d,\"k\":\"restart\",\"name\":\"\"}\n", opno);     /* the restart is an operation of the history */
  {
    /* a restarted process does not get the addresses its predecessor had (the persisted observe keys are subscription pointers) */
    static const size_t szs[] = {24, 32, 48, 64, 80, 96, 112, 128, 160, 192, 224, 256, 320, 384, 512, 640, 768, 1024};
    unsigned i, k;
    for (k = 0; k < sizeof(szs) / sizeof(szs[0]); k++)
      for (i = 0; i < (unsigned)(opno % 7 + (opno ? 1 : 0)); i++) if (nperturb < 512) perturb[nperturb++] = malloc(szs[k]);
  }
  ev("{\"e\":\"Start\",\"kill\":%ld,\"freq\":%d}\n", kill_at, freq);
  coap_persist_startup(ctx, p1, p2, p3, (uint32_t)freq);
  sim_run(sim_now + 20);
  ev("{\"e\":\"Loaded\",\"calls\":%ld}\n", ncall);
  while (fgets(line, sizeof(line), in)) {
    char a[64] = "", b[64] = "";
    int v = 0, k = 1;
    switch (line[0]) {
    case 'C': sscanf(line + 1, "%63s", a); opno++; ev("{\"e\":\"Op\",\"j\":%d,\"k\":\"create\",\"name\":\"%s\"}\n", opno, a); request(0, 3, a, "c0", -1); break;
    case 'X': sscanf(line + 1, "%63s", a); opno++; ev("{\"e\":\"Op\",\"j\":%d,\"k\":\"delete\",\"name\":\"%s\"}\n", opno, a); request(0, 4, a, "d0", -1); break;
    case 'O': sscanf(line + 1, "%d %63s %63s", &v, a, b); opno++; ev("{\"e\":\"Op\",\"j\":%d,\"k\":\"register\",\"name\":\"%s\",\"c\":%d,\"tok\":\"%s\"}\n", opno, a, v, b); request(v, 1, a, b, 0); break;
    case 'U': sscanf(line + 1, "%d %63s %63s", &v, a, b); opno++; ev("{\"e\":\"Op\",\"j\":%d,\"k\":\"cancel\",\"name\":\"%s\",\"c\":%d,\"tok\":\"%s\"}\n", opno, a, v, b); request(v, 1, a, b, 1); break;
    case 'H': {
      coap_str_const_t nm;
      coap_resource_t *r;
      int j;
      sscanf(line + 1, "%63s %d", a, &k);
      opno++;
      ev("{\"e\":\"Op\",\"j\":%d,\"k\":\"change\",\"name\":\"%s\",\"n\":%d}\n", opno, a, k);
      nm.s = (const uint8_t *)a; nm.length = strlen(a);
      r = coap_get_resource_from_uri_path(ctx, &nm);
      for (j = 0; r && j < k; j++) { coap_resource_notify_observers(r, NULL); sim_run(sim_now + 20); }
      break;
    }
    case 'S': sscanf(line + 1, "%d", &v); snapshot(v); break;
    case 'Q': {
      char *t;
      for (t = strtok(line + 1, " \n"); t; t = strtok(NULL, " \n")) {
        request(7, 1, t, "ee", -1);
        ev("{\"e\":\"Exists\",\"name\":\"%s\",\"code\":%d}\n", t, last_code[7]);
      }
      break;
    }
    case 'N': {
      char *t;
      for (t = strtok(line + 1, " \n"); t; t = strtok(NULL, " \n")) {
        coap_str_const_t nm;
        coap_resource_t *r;
        nm.s = (const uint8_t *)t; nm.length = strlen(t);
        r = coap_get_resource_from_uri_path(ctx, &nm);
        ev("{\"e\":\"Probe\",\"name\":\"%s\",\"found\":%s}\n", t, r ? "true" : "false");
        if (r) { coap_resource_notify_observers(r, NULL); sim_run(sim_now + 50); }
        ev("{\"e\":\"ProbeEnd\",\"name\":\"%s\"}\n", t);
      }
      break;
    }
    default: break;
    }
  }
  ev("{\"e\":\"Finished\",\"calls\":%ld}\n", ncall);
  coap_persist_stop(ctx);             /* a clean shutdown leaves the persisted state in the files */
  sim_remove_node(ctx);
  coap_free_context(ctx);
  coap_cleanup();
  return 0;
}
