/* drv_rel.c -- driver for the message-layer family (C06, C07, C08):
 * a libcoap client context on the simulator against scripted raw peers.
 *
 * usage: drv_rel <cases.txt> <out.ndjson>
 *
 * case file, one directive per line:
 *   X id=<n> ato=<ms> rf=<milli> mr=<n> ns=<n> nsess=<n> until=<ms> [ka=<s>: keepalive - an idle session pings its peer every <s> seconds]
 *   A <t> <sess> <CON|NON> <tokbyte> [F] [m=<mid>]  application submits a GET at virtual time t (ms after start), optionally with
 *                                          a message id of its own choosing (sessions of one context may use the same id at the same time)
 *   N <gap> <sess> <CON|NON> <tokbyte> [F] like A, but <gap> ms after the previous exchange on <sess> concluded
 *   R <tok> <c> <kind>+<d>[+<d>..] [..]    reaction of the peer to the c-th copy (0-based) it receives of the
 *                                          request with token byte <tok>; default: pig+0 (CON), sepnon+0 (NON)
 *          kinds: ack rst pig sepcon sepnon none, xack xrst (ACK/RST with this message id sent by the OTHER peer
 *          to the other session) ; each +<d> sends one copy after d ms (same bytes)
 *   L <j>                                  j-th datagram emitted by the client is lost
 *   D <j> <d1> <d2>                        j-th datagram emitted by the client arrives twice (delays d1,d2)
 *   Y <j> <d>                              j-th datagram emitted by the client is delayed by d ms
 *   F <j>                                  the send call for the j-th datagram of the client fails (ENOBUFS): nothing leaves
 *   E                                      end of case (run it)
 *
 * With srv=1 on the X line the peer is not scripted: a real libcoap server context (node 1 of the simulator) listens on the
 * peers' addresses, with the resources  r (answers at once),  w (defers its answer with coap_register_async(delay 0); the
 * server application releases it trig ms later with coap_async_trigger()),  v (defers it for trig ms with a timed async).
 * A / N lines then name the resource (p=<r|w|v>), R lines are ignored, and
 *   LS <j> / DS <j> <d1> <d2> / YS <j> <d>   do to the j-th datagram emitted by the SERVER what L / D / Y do to the client's
 */
#include "simnet.h"
#include <string.h>
#include <stdlib.h>

#define MAXA 64
#define MAXR 256
#define MAXS 4
#define MAXC 10

typedef struct { uint64_t t; int sess; int con; int tok; int fail; int done; int after_prev; int nprev; char path; int mid; } app_t;
typedef struct { int n; struct { char kind[8]; int nd; int d[4]; } a[4]; } react_t;
typedef struct { int kind; /*0 pass 1 lost 2 dup 3 delay*/ int d1, d2; } txv_t;

static struct {
  int id, ato, rf, mr, ns, nsess, tol, srv, trig, ka;
  uint64_t until;
  app_t app[MAXA]; int napp;
  react_t react[256][MAXC]; int have_react[256][MAXC];
  txv_t txv[MAXR];
  txv_t stxv[MAXR];
} cs;

static coap_context_t *ctx, *sctx;
static int server_tx_count;
#define MAXDEF 32
static struct { coap_async_t *a; uint64_t at; } deferred[MAXDEF];
static int ndeferred;
static coap_session_t *sess[MAXS];
static coap_address_t peer_addr[MAXS];
static uint64_t t_start;
static int peer_rx_count, client_tx_count;
static uint16_t peer_mid;
static int fail_tok[256];
static int copies_seen[256];
static int nconcl[MAXS];
static uint64_t last_concl[MAXS];
static struct { uint16_t port, rmid, smid; } sepmap[256];
static int nsepmap;

static int
prng(void *out, size_t len) {
  static uint32_t st = 12345;
  uint8_t *o = out;
  size_t i;
  for (i = 0; i < len; i++) {
    st = st * 1103515245u + 12345u;
    o[i] = (uint8_t)(st >> 16);
  }
  return 1;
}
static uint32_t prng_seed = 1;
static int
prng2(void *out, size_t len) {
  uint8_t *o = out;
  size_t i;
  for (i = 0; i < len; i++) {
    prng_seed = prng_seed * 1664525u + 1013904223u;
    o[i] = (uint8_t)(prng_seed >> 24);
  }
  return 1;
}

static int
sidx(coap_session_t *s) {
  int i;
  for (i = 0; i < cs.nsess; i++)
    if (sess[i] == s)
      return i + 1;
  return 0;
}

static coap_response_t
h_resp(coap_session_t *s, const coap_pdu_t *sent, const coap_pdu_t *rcv, const coap_mid_t mid) {
  char tok[64] = "", stok[64] = "";
  coap_bin_const_t t = coap_pdu_get_token(rcv);
  int fail = 0;
  tr_hex(tok, t.s, t.length > 24 ? 24 : t.length);
  if (sent) {
    coap_bin_const_t st = coap_pdu_get_token(sent);
    tr_hex(stok, st.s, st.length > 24 ? 24 : st.length);
  }
  if (t.length == 1 && fail_tok[t.s[0]])
    fail = 1;
  tr("\"e\":\"Resp\",\"s\":%d,\"tok\":\"%s\",\"ty\":%d,\"code\":%d,\"mid\":%d,\"sent\":%d,\"stok\":\"%s\",\"verdict\":\"%s\"",
     sidx(s), tok, coap_pdu_get_type(rcv), coap_pdu_get_code(rcv), mid, sent ? 1 : 0, stok,
     fail ? "FAIL" : "OK");
  if (sidx(s) > 0) { nconcl[sidx(s) - 1]++; last_concl[sidx(s) - 1] = sim_now; }
  return fail ? COAP_RESPONSE_FAIL : COAP_RESPONSE_OK;
}

static void
h_nack(coap_session_t *s, const coap_pdu_t *sent, const coap_nack_reason_t reason, const coap_mid_t mid) {
  char stok[64] = "";
  if (sent) {
    coap_bin_const_t st = coap_pdu_get_token(sent);
    tr_hex(stok, st.s, st.length > 24 ? 24 : st.length);
  }
  tr("\"e\":\"Nack\",\"s\":%d,\"mid\":%d,\"reason\":%d,\"sent\":%d,\"stok\":\"%s\"", sidx(s), mid, (int)reason,
     sent ? 1 : 0, stok);
  if (sidx(s) > 0 && sent) { nconcl[sidx(s) - 1]++; last_concl[sidx(s) - 1] = sim_now; }
}

static int
h_event(coap_session_t *s, const coap_event_t ev) {
  tr("\"e\":\"Event\",\"s\":%d,\"ev\":%d", sidx(s), (int)ev);
  return 0;
}

static void
on_tx(int node, coap_session_t *s, const sim_dgram_t *dg, sim_verdict_t *v) {
  int srv = sctx && s && s->context == sctx;
  int j = srv ? server_tx_count++ : client_tx_count++;
  const txv_t *x = srv ? cs.stxv : cs.txv;
  (void)node; (void)dg;
  if (j < MAXR) {
    switch (x[j].kind) {
    case 1: v->copies = 0; break;
    case 2: v->copies = 2; v->delay[0] = x[j].d1; v->delay[1] = x[j].d2; break;
    case 3: v->copies = 1; v->delay[0] = x[j].d1; break;
    case 4: v->copies = -1; break;
    default: break;
    }
  }
}

/* ---- the server application (srv=1) ---- */
static void
h_srv(coap_resource_t *r, coap_session_t *s, const coap_pdu_t *req, const coap_string_t *q, coap_pdu_t *resp) {
  coap_str_const_t *path = coap_resource_get_uri_path(r);
  char tok[32] = "";
  coap_bin_const_t t = coap_pdu_get_token(req);
  coap_async_t *as = NULL;
  (void)q;
  tr_hex(tok, t.s, t.length > 8 ? 8 : t.length);
  if (path->s[0] != 'r')
    as = coap_find_async(s, t);
  tr("\"e\":\"SrvHandler\",\"path\":\"%c\",\"tok\":\"%s\",\"ty\":%d,\"mid\":%d,\"again\":%d", path->s[0], tok,
     coap_pdu_get_type(req), coap_pdu_get_mid(req), as ? 1 : 0);
  if (path->s[0] != 'r' && !as) {
    as = coap_register_async(s, req, path->s[0] == 'w' ? 0 : (coap_tick_t)cs.trig * COAP_TICKS_PER_SECOND / 1000);
    if (as && path->s[0] == 'w' && ndeferred < MAXDEF) {
      deferred[ndeferred].a = as;
      deferred[ndeferred].at = sim_now + (uint64_t)cs.trig;
      ndeferred++;
    }
    return;
  }
  coap_pdu_set_code(resp, COAP_RESPONSE_CODE_CONTENT);
  coap_add_data(resp, 1, path->s);
}

static void
peer_send(const sim_dgram_t *in, const uint8_t *b, size_t n, int d, const char *kind) {
  int id = sim_inject(&in->dst, &in->src, b, n, (uint32_t)d, -1);
  unsigned ty = (b[0] >> 4) & 3, tkl = b[0] & 15;
  char tok[32] = "";
  tr_hex(tok, b + 4, tkl);
  tr("\"e\":\"PeerTx\",\"kind\":\"%s\",\"dg\":%d,\"ty\":%u,\"code\":%u,\"mid\":%u,\"tok\":\"%s\",\"delay\":%d,\"sig\":%u,\"to\":%u",
     kind, id, ty, b[1], (b[2] << 8) | b[3], tok, d, sim_sig(b, n), sim_port(&in->src));
}

static void
on_peer_rx(const sim_dgram_t *dg) {
  int k = peer_rx_count++;
  const uint8_t *d = dg->data;
  unsigned ty, tkl, code, mid;
  char tok[32] = "";
  react_t dflt, *r;
  int i, j;
  if (dg->len < 4)
    return;
  ty = (d[0] >> 4) & 3; tkl = d[0] & 15; code = d[1]; mid = (d[2] << 8) | d[3];
  if (tkl > 8) tkl = 0;
  tr_hex(tok, d + 4, tkl);
  tr("\"e\":\"PeerRx\",\"k\":%d,\"dg\":%d,\"org\":%d,\"ty\":%u,\"code\":%u,\"mid\":%u,\"tok\":\"%s\",\"sig\":%u,\"port\":%u,\"from\":%u",
     k, dg->id, dg->origin, ty, code, mid, tok, sim_sig(dg->data, dg->len), sim_port(&dg->dst), sim_port(&dg->src));
  if (ty == 0 && code == 0 && dg->len == 4) {
    /* an Empty Confirmable message (a ping): every CoAP endpoint answers it with a Reset */
    uint8_t b[4] = { 0x70, 0, d[2], d[3] };
    peer_send(dg, b, 4, 3, "pong");
    return;
  }
  if (code >= 1 && code < 32 && tkl == 1 && copies_seen[d[4]] < MAXC && cs.have_react[d[4]][copies_seen[d[4]]]) {
    r = &cs.react[d[4]][copies_seen[d[4]]++];
  } else if (code >= 1 && code < 32 && tkl == 1 && copies_seen[d[4]] > 0 && copies_seen[d[4]] < MAXC &&
             cs.have_react[d[4]][copies_seen[d[4]] - 1]) {
    /* a de-duplicating server answers a further copy of a request like the previous one */
    cs.react[d[4]][copies_seen[d[4]]] = cs.react[d[4]][copies_seen[d[4]] - 1];
    cs.have_react[d[4]][copies_seen[d[4]]] = 1;
    r = &cs.react[d[4]][copies_seen[d[4]]++];
  } else {
    if (code >= 1 && code < 32 && tkl == 1)
      copies_seen[d[4]]++;
    memset(&dflt, 0, sizeof(dflt));
    r = &dflt;
    if (code >= 1 && code < 32 && ty == 0) {
      dflt.n = 1; strcpy(dflt.a[0].kind, "pig"); dflt.a[0].nd = 1;
    } else if (code >= 1 && code < 32 && ty == 1) {
      dflt.n = 1; strcpy(dflt.a[0].kind, "sepnon"); dflt.a[0].nd = 1;
    }
  }
  for (i = 0; i < r->n; i++) {
    uint8_t b[64];
    size_t n = 0;
    const char *kd = r->a[i].kind;
    int cross = 0;
    if (!strcmp(kd, "none"))
      continue;
    if (kd[0] == 'x' && cs.nsess > 1) {
      cross = 1;
      kd++;
    }
    if (!strcmp(kd, "ack")) {
      b[0] = 0x60; b[1] = 0; b[2] = mid >> 8; b[3] = mid & 255; n = 4;
    } else if (!strcmp(kd, "rst")) {
      b[0] = 0x70; b[1] = 0; b[2] = mid >> 8; b[3] = mid & 255; n = 4;
    } else if (!strcmp(kd, "pig")) {
      b[0] = 0x60 | tkl; b[1] = 0x45; b[2] = mid >> 8; b[3] = mid & 255;
      memcpy(b + 4, d + 4, tkl); n = 4 + tkl; b[n++] = 0xff; b[n++] = 'p';
    } else if (!strcmp(kd, "sepcon") || !strcmp(kd, "sepnon")) {
      uint16_t m = 0;
      int q;
      for (q = 0; q < nsepmap; q++)
        if (sepmap[q].port == sim_port(&dg->dst) && sepmap[q].rmid == mid)
          m = sepmap[q].smid;
      if (!m) {
        m = ++peer_mid;
        if (nsepmap < 256) {
          sepmap[nsepmap].port = sim_port(&dg->dst); sepmap[nsepmap].rmid = (uint16_t)mid; sepmap[nsepmap].smid = m;
          nsepmap++;
        }
      }
      b[0] = (kd[3] == 'c' ? 0x40 : 0x50) | tkl; b[1] = 0x45; b[2] = m >> 8; b[3] = m & 255;
      memcpy(b + 4, d + 4, tkl); n = 4 + tkl; b[n++] = 0xff; b[n++] = 's';
    } else
      continue;
    for (j = 0; j < r->a[i].nd; j++) {
      if (cross) {
        /* same bytes, but from the other peer to the other session's socket */
        int me = sim_port(&dg->dst) - 40001, other = (me + 1) % cs.nsess;
        sim_dgram_t x = *dg;
        x.dst = peer_addr[other];
        x.src = sess[other]->addr_info.local;
        peer_send(&x, b, n, r->a[i].d[j], kd);
      } else
        peer_send(dg, b, n, r->a[i].d[j], kd);
    }
  }
}

static int
on_round(void) {
  int i, n = 0;
  for (i = 0; i < ndeferred; i++)
    if (deferred[i].a && deferred[i].at <= sim_now) {
      coap_async_t *a = deferred[i].a;
      deferred[i].a = NULL;
      tr("\"e\":\"SrvRelease\"");
      coap_async_trigger(a);
      n++;
    }
  for (i = 0; i < cs.napp; i++) {
    app_t *a = &cs.app[i];
    coap_pdu_t *pdu;
    uint8_t tk;
    coap_mid_t mid, ret;
    if (a->done)
      continue;
    if (a->after_prev) {
      if (nconcl[a->sess] < a->nprev || last_concl[a->sess] + a->t > sim_now)
        continue;
    } else if (t_start + a->t > sim_now)
      continue;
    a->done = 1;
    n++;
    pdu = coap_new_pdu(a->con ? COAP_MESSAGE_CON : COAP_MESSAGE_NON, COAP_REQUEST_CODE_GET, sess[a->sess]);
    if (!pdu)
      continue;
    tk = (uint8_t)a->tok;
    coap_add_token(pdu, 1, &tk);
    coap_add_option(pdu, COAP_OPTION_URI_PATH, 1, (const uint8_t *)(a->path ? &a->path : "r"));
    if (a->mid >= 0)
      coap_pdu_set_mid(pdu, (coap_mid_t)a->mid);       /* the application chooses the message id (coap_pdu_init / coap_pdu_set_mid) */
    mid = coap_pdu_get_mid(pdu);
    tr("\"e\":\"Call\",\"api\":\"send\",\"s\":%d,\"ty\":%d,\"mid\":%d,\"tok\":\"%02x\"", a->sess + 1,
       a->con ? 0 : 1, mid, tk);
    ret = coap_send(sess[a->sess], pdu);
    tr("\"e\":\"Ret\",\"api\":\"send\",\"s\":%d,\"ret\":%d", a->sess + 1, ret);
  }
  return n;
}

static uint64_t
next_app_time(void) {
  uint64_t nx = UINT64_MAX;
  int i;
  for (i = 0; i < ndeferred; i++)
    if (deferred[i].a && deferred[i].at < nx)
      nx = deferred[i].at;
  for (i = 0; i < cs.napp; i++) {
    if (cs.app[i].done)
      continue;
    if (cs.app[i].after_prev) {
      if (nconcl[cs.app[i].sess] >= cs.app[i].nprev && last_concl[cs.app[i].sess] + cs.app[i].t < nx)
        nx = last_concl[cs.app[i].sess] + cs.app[i].t;
    } else if (t_start + cs.app[i].t < nx)
      nx = t_start + cs.app[i].t;
  }
  return nx;
}

static void
run_case(void) {
  int i;
  coap_fixed_point_t fp;
  sim_reset(1000);
  t_start = sim_now;
  peer_rx_count = client_tx_count = server_tx_count = 0;
  ndeferred = 0;
  peer_mid = 0x7000;
  nsepmap = 0;
  memset(nconcl, 0, sizeof(nconcl));
  memset(last_concl, 0, sizeof(last_concl));
  memset(fail_tok, 0, sizeof(fail_tok));
  memset(copies_seen, 0, sizeof(copies_seen));
  prng_seed = 7 + (uint32_t)cs.id * 2654435761u;
  coap_set_prng(prng2);
  ctx = coap_new_context(NULL);
  sim_add_node(ctx);
  coap_register_response_handler(ctx, h_resp);
  coap_register_nack_handler(ctx, h_nack);
  coap_register_event_handler(ctx, h_event);
  if (cs.ka)
    coap_context_set_keepalive(ctx, (unsigned)cs.ka);
  sctx = NULL;
  if (cs.srv) {
    const char *paths[] = { "r", "w", "v" };
    sctx = coap_new_context(NULL);
    for (i = 0; i < cs.nsess; i++) {
      coap_address_t a;
      coap_endpoint_t *ep;
      sim_addr(&a, "127.0.0.1", 0);          /* a real socket underneath: let the kernel pick the port (drivers run in parallel) */
      ep = coap_new_endpoint(sctx, &a, COAP_PROTO_UDP);
      if (!ep) {
        fprintf(stderr, "drv_rel: cannot create the server endpoint\n");
        exit(2);
      }
      peer_addr[i] = ep->bind_addr;
    }
    for (i = 0; i < 3; i++) {
      coap_resource_t *r = coap_resource_init(coap_make_str_const(paths[i]), 0);
      coap_register_request_handler(r, COAP_REQUEST_GET, h_srv);
      coap_add_resource(sctx, r);
    }
    sim_add_node(sctx);
  }
  for (i = 0; i < cs.nsess; i++) {
    if (!cs.srv)
      sim_addr(&peer_addr[i], "127.0.0.1", (uint16_t)(40001 + i));
    sess[i] = coap_new_client_session(ctx, NULL, &peer_addr[i], COAP_PROTO_UDP);
    fp.integer_part = (uint16_t)(cs.ato / 1000); fp.fractional_part = (uint16_t)(cs.ato % 1000);
    coap_session_set_ack_timeout(sess[i], fp);
    fp.integer_part = (uint16_t)(cs.rf / 1000); fp.fractional_part = (uint16_t)(cs.rf % 1000);
    coap_session_set_ack_random_factor(sess[i], fp);
    coap_session_set_max_retransmit(sess[i], (uint16_t)cs.mr);
    coap_session_set_nstart(sess[i], (uint16_t)cs.ns);
  }
  {
    /* what the session itself reports (a refused setting keeps the default) */
    coap_fixed_point_t a = coap_session_get_ack_timeout(sess[0]), r = coap_session_get_ack_random_factor(sess[0]);
    tr("\"e\":\"Reset\",\"id\":%d,\"ato\":%d,\"rf\":%d,\"mr\":%d,\"ns\":%d,\"nsess\":%d,\"tol\":%d,\"srv\":%d,\"trig\":%d", cs.id,
       a.integer_part * 1000 + a.fractional_part, r.integer_part * 1000 + r.fractional_part,
       (int)coap_session_get_max_retransmit(sess[0]), (int)coap_session_get_nstart(sess[0]), cs.nsess, cs.tol, cs.srv, cs.trig);
  }
  for (i = 0; i < cs.napp; i++)
    if (cs.app[i].fail)
      fail_tok[cs.app[i].tok & 255] = 1;
  sim_run(t_start + cs.until);
  tr("\"e\":\"Quiet\"");
  for (i = 0; i < cs.nsess; i++) {
    tr("\"e\":\"Call\",\"api\":\"release\",\"s\":%d", i + 1);
    coap_session_release(sess[i]);
    sess[i] = NULL;
  }
  sim_remove_node(ctx);
  coap_free_context(ctx);
  ctx = NULL;
  if (sctx) {
    sim_remove_node(sctx);
    coap_free_context(sctx);
    sctx = NULL;
  }
  tr("\"e\":\"End\",\"steps\":%d", sim_steps);
}

static int
kv(const char *s, const char *k, int dflt) {
  const char *p = strstr(s, k);
  size_t n = strlen(k);
  while (p) {
    if ((p == s || p[-1] == ' ') && p[n] == '=')
      return atoi(p + n + 1);
    p = strstr(p + 1, k);
  }
  return dflt;
}

int
main(int argc, char **argv) {
  FILE *in;
  char line[1024];
  if (argc < 3) {
    fprintf(stderr, "usage: drv_rel cases out\n");
    return 2;
  }
  in = fopen(argv[1], "r");
  sim_trace = fopen(argv[2], "w");
  if (!in || !sim_trace)
    return 2;
  setvbuf(sim_trace, NULL, _IOFBF, 1 << 20);
  coap_startup();
  coap_set_log_level(COAP_LOG_EMERG);
  (void)prng;
  sim_hooks.sess_id = sidx;
  sim_hooks.on_tx = on_tx;
  sim_hooks.on_peer_rx = on_peer_rx;
  sim_hooks.on_round = on_round;
  sim_hooks.next_app_time = next_app_time;
  while (fgets(line, sizeof(line), in)) {
    if (line[0] == 'X') {
      memset(&cs, 0, sizeof(cs));
      cs.id = kv(line, "id", 0);
      cs.ato = kv(line, "ato", 2000);
      cs.rf = kv(line, "rf", 1500);
      cs.mr = kv(line, "mr", 4);
      cs.ns = kv(line, "ns", 1);
      cs.nsess = kv(line, "nsess", 1);
      cs.tol = kv(line, "tol", 16);
      cs.until = (uint64_t)kv(line, "until", 300000);
      cs.srv = kv(line, "srv", 0);
      cs.trig = kv(line, "trig", 5000);
      cs.ka = kv(line, "ka", 0);
      if (cs.nsess > MAXS) cs.nsess = MAXS;
    } else if ((line[0] == 'A' || line[0] == 'N') && cs.napp < MAXA) {
      app_t *a = &cs.app[cs.napp];
      char ty[8] = "", f[8] = "";
      unsigned long long t;
      int n = sscanf(line + 1, "%llu %d %7s %d %7s", &t, &a->sess, ty, &a->tok, f);
      if (n >= 4) {
        a->t = t;
        a->con = !strcmp(ty, "CON");
        a->fail = n >= 5 && f[0] == 'F';
        a->done = 0;
        a->after_prev = line[0] == 'N';
        a->nprev = 0;
        a->path = strstr(line, " p=") ? strstr(line, " p=")[3] : 0;
        a->mid = kv(line, "m", -1);
        if (a->sess >= 0 && a->sess < cs.nsess) {
          int q;
          for (q = 0; q < cs.napp; q++)
            if (cs.app[q].sess == a->sess)
              a->nprev++;
          cs.napp++;
        }
      }
    } else if (line[0] == 'R') {
      int k, c, off = 0;
      char *p = line + 1;
      if (sscanf(p, "%d %d%n", &k, &c, &off) == 2 && k >= 0 && k < 256 && c >= 0 && c < MAXC) {
        react_t *r = &cs.react[k][c];
        char *tokp;
        cs.have_react[k][c] = 1;
        r->n = 0;
        p += off;
        for (tokp = strtok(p, " \n"); tokp && r->n < 4; tokp = strtok(NULL, " \n")) {
          char *plus = strchr(tokp, '+');
          size_t kl = plus ? (size_t)(plus - tokp) : strlen(tokp);
          if (kl > 7) kl = 7;
          memcpy(r->a[r->n].kind, tokp, kl);
          r->a[r->n].kind[kl] = 0;
          r->a[r->n].nd = 0;
          while (plus && r->a[r->n].nd < 4) {
            r->a[r->n].d[r->a[r->n].nd++] = atoi(plus + 1);
            plus = strchr(plus + 1, '+');
          }
          if (r->a[r->n].nd == 0 && strcmp(r->a[r->n].kind, "none")) {
            r->a[r->n].nd = 1;
            r->a[r->n].d[0] = 0;
          }
          r->n++;
        }
      }
    } else if (line[0] == 'L') {
      int sv = line[1] == 'S', j = atoi(line + 1 + sv);
      if (j >= 0 && j < MAXR) (sv ? cs.stxv : cs.txv)[j].kind = 1;
    } else if (line[0] == 'F') {
      int j = atoi(line + 1);
      if (j >= 0 && j < MAXR) cs.txv[j].kind = 4;
    } else if (line[0] == 'D') {
      int sv = line[1] == 'S', j, d1, d2;
      if (sscanf(line + 1 + sv, "%d %d %d", &j, &d1, &d2) == 3 && j >= 0 && j < MAXR) {
        txv_t *x = &(sv ? cs.stxv : cs.txv)[j];
        x->kind = 2; x->d1 = d1; x->d2 = d2;
      }
    } else if (line[0] == 'Y') {
      int sv = line[1] == 'S', j, d1;
      if (sscanf(line + 1 + sv, "%d %d", &j, &d1) == 2 && j >= 0 && j < MAXR) {
        txv_t *x = &(sv ? cs.stxv : cs.txv)[j];
        x->kind = 3; x->d1 = d1;
      }
    } else if (line[0] == 'E') {
      run_case();
    }
  }
  fclose(sim_trace);
  coap_cleanup();
  return 0;
}
