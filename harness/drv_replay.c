/* drv_replay.c -- driver for C15: OSCORE replay window / forgeries / partial-IV reuse, on the simulator.
 * A real libcoap OSCORE server (recipient) and a real libcoap OSCORE client (sender); every protected request the
 * client emits is captured, so that byte-identical replays and forgeries can be injected from another source.
 *
 * usage: drv_replay <cases.txt> <out.ndjson>
 *   X id=<n> win=<replay window> b12=<0|1> freq=<ssn_freq>
 *   F <piv>      fresh request whose partial IV is <piv> (client's sender sequence number is set to it first)
 *   N            fresh request with the client's next partial IV
 *   h            fresh request with the client's next partial IV that the network holds back (sender-side histories; numbers beyond 2^32)
 *   H <piv>      fresh request with partial IV <piv> that the network holds back: captured, every copy lost; R <piv> is then its (late) first arrival
 *   R <piv>      replay the captured request that carried <piv>, byte for byte
 *   G <piv> <claimed>   forgery: captured request <piv> with the partial IV field rewritten to <claimed> and one
 *                ciphertext bit flipped (claimed == piv: only the ciphertext is damaged)
 *   C            the client process "crashes" and restarts from the sequence number last handed to the save callback
 * Every AEAD encryption either endpoint performs is logged at the crypto seam (key, nonce, what is protected): a (key, nonce)
 * pair protects one message, whoever the sender is - requests of the client as well as responses of the server.
 *   E
 */
#include "simnet.h"
#include "oscore/oscore_context.h"
#include <string.h>
#include <stdlib.h>

#define MAXCAP 512
static coap_context_t *sctx, *cctx;
static coap_session_t *csess;
static coap_address_t srv_addr;
static int handled, resp_code, resp_count, win, b12, freq, inj_port;
static uint64_t saved_seq;
static int have_saved;
static struct { uint64_t piv; uint8_t *d; size_t n; } cap[MAXCAP];
static int ncap;
static int holding;            /* the client's datagrams are lost (held back in the network) */
static int peer_code;

static int prng(void *out, size_t len) {
  static uint32_t st = 4242;
  uint8_t *o = out;
  size_t i;
  for (i = 0; i < len; i++) { st = st * 1664525u + 1013904223u; o[i] = (uint8_t)(st >> 24); }
  return 1;
}

/* locate the OSCORE option (9) in a datagram: returns pointer to value and length, and where the header byte is */
static int find_oscore(const uint8_t *d, size_t n, size_t *voff, size_t *vlen, size_t *hoff) {
  size_t i = 4 + (d[0] & 15), num = 0;
  if (n < 4) return 0;
  while (i < n && d[i] != 0xff) {
    size_t h = i, dl = d[i] >> 4, l = d[i] & 15;
    i++;
    if (dl == 13) { dl = d[i] + 13; i++; } else if (dl == 14) { dl = ((d[i] << 8) | d[i + 1]) + 269; i += 2; }
    if (l == 13) { l = d[i] + 13; i++; } else if (l == 14) { l = ((d[i] << 8) | d[i + 1]) + 269; i += 2; }
    num += dl;
    if (num == 9) { *voff = i; *vlen = l; *hoff = h; return 1; }
    i += l;
  }
  return 0;
}
static int piv_of(const uint8_t *d, size_t n, uint64_t *piv) {
  size_t vo, vl, ho, k, pl;
  if (!find_oscore(d, n, &vo, &vl, &ho) || vl < 1) return 0;
  pl = d[vo] & 7;
  if (pl == 0 || vl < 1 + pl) return 0;
  *piv = 0;
  for (k = 0; k < pl; k++) *piv = (*piv << 8) | d[vo + 1 + k];
  return 1;
}

static void on_tx(int node, coap_session_t *s, const sim_dgram_t *dg, sim_verdict_t *v) {
  uint64_t piv;
  if (!s || s->context != cctx) return;
  if (holding) v->copies = 0;
  (void)node;
  if (dg->len >= 4 && dg->data[1] >= 1 && dg->data[1] <= 31 && piv_of(dg->data, dg->len, &piv)) {
    int i;
    /* the client protected a request with this partial IV */
    /* TLC integers are 32 bits wide: the number itself where it fits (-1 otherwise), and always its two halves */
    fprintf(sim_trace, "{\"e\":\"Piv\",\"piv\":%lld,\"ph\":%llu,\"pl\":%llu,\"sig\":%u}\n", piv < (1ull << 30) ? (long long)piv : -1ll,
            (unsigned long long)(piv >> 20), (unsigned long long)(piv & 0xfffff), sim_sig(dg->data, dg->len));
    for (i = 0; i < ncap; i++)
      if (cap[i].piv == piv) return;
    if (ncap < MAXCAP) {
      cap[ncap].piv = piv;
      cap[ncap].d = malloc(dg->len);
      memcpy(cap[ncap].d, dg->data, dg->len);
      cap[ncap].n = dg->len;
      ncap++;
    }
  }
}
/* ---- the AEAD seam: one event per protection, by either endpoint ---- */
int __real_coap_crypto_aead_encrypt(const coap_crypto_param_t *params, coap_bin_const_t *data, coap_bin_const_t *aad, uint8_t *result, size_t *max_result_len);
int __wrap_coap_crypto_aead_encrypt(const coap_crypto_param_t *params, coap_bin_const_t *data, coap_bin_const_t *aad, uint8_t *result, size_t *max_result_len) {
  int r = __real_coap_crypto_aead_encrypt(params, data, aad, result, max_result_len);
  if (sim_trace && r) {
    size_t i, nl = 15 - params->params.aes.l;
    uint32_t m = sim_sig(aad->s, aad->length) * 31u + sim_sig(data->s, data->length);
    fprintf(sim_trace, "{\"e\":\"Aead\",\"key\":%u,\"nonce\":[", sim_sig(params->params.aes.key.s, params->params.aes.key.length));
    for (i = 0; i < nl; i++) fprintf(sim_trace, "%s%u", i ? "," : "", params->params.aes.nonce[i]);
    fprintf(sim_trace, "],\"msg\":%u}\n", m & 0x3fffffffu);
  }
  return r;
}

static void on_peer_rx(const sim_dgram_t *dg) {
  if (dg->len >= 4) peer_code = dg->data[1];
}

static void h_get(coap_resource_t *r, coap_session_t *s, const coap_pdu_t *req, const coap_string_t *q, coap_pdu_t *resp) {
  (void)r; (void)s; (void)req; (void)q;
  handled++;
  coap_pdu_set_code(resp, COAP_RESPONSE_CODE_CONTENT);
  coap_add_data(resp, 2, (const uint8_t *)"ok");
}
static coap_response_t h_resp(coap_session_t *s, const coap_pdu_t *sent, const coap_pdu_t *rcv, const coap_mid_t mid) {
  (void)s; (void)sent; (void)mid;
  resp_code = coap_pdu_get_code(rcv);
  resp_count++;
  return COAP_RESPONSE_OK;
}
static int save_seq(uint64_t v, void *p) {
  (void)p;
  saved_seq = v;
  have_saved = 1;
  fprintf(sim_trace, "{\"e\":\"Save\",\"v\":%llu}\n", (unsigned long long)v);
  return 1;
}

static coap_oscore_conf_t *mkconf(int client, uint64_t start) {
  char txt[512];
  coap_str_const_t c;
  snprintf(txt, sizeof(txt),
           "master_secret,hex,\"0102030405060708090a0b0c0d0e0f10\"\nmaster_salt,hex,\"9e7ca92223786340\"\n"
           "sender_id,hex,\"%s\"\nrecipient_id,hex,\"%s\"\nreplay_window,integer,%d\nssn_freq,integer,%d\nrfc8613_b_1_2,bool,%s\n",
           client ? "" : "01", client ? "01" : "", win, freq, b12 ? "true" : "false");
  c.s = (const uint8_t *)txt;
  c.length = strlen(txt);
  return coap_new_oscore_conf(c, client ? save_seq : NULL, NULL, start);
}

static void new_client(uint64_t start) {
  cctx = coap_new_context(NULL);
  coap_context_set_block_mode(cctx, COAP_BLOCK_USE_LIBCOAP);
  coap_register_response_handler(cctx, h_resp);
  sim_add_node(cctx);
  csess = coap_new_client_session_oscore(cctx, NULL, &srv_addr, COAP_PROTO_UDP, mkconf(1, start));
}
static void free_client(void) {
  if (csess) coap_session_release(csess);
  csess = NULL;
  if (cctx) { sim_remove_node(cctx); coap_free_context(cctx); }
  cctx = NULL;
}

static void send_req(void) {
  coap_pdu_t *pdu = coap_new_pdu(COAP_MESSAGE_CON, COAP_REQUEST_CODE_GET, csess);
  uint8_t tk[2];
  static unsigned t;
  t++;
  tk[0] = (uint8_t)(t >> 8); tk[1] = (uint8_t)t;
  coap_add_token(pdu, 2, tk);
  coap_add_option(pdu, COAP_OPTION_URI_PATH, 1, (const uint8_t *)"r");
  coap_send(csess, pdu);
  sim_run(sim_now + 200000);
}

static void inject(const uint8_t *d, size_t n) {
  coap_address_t peer;
  sim_addr(&peer, "127.0.0.1", (uint16_t)(30000 + (inj_port++ % 20000)));
  peer_code = -1;
  sim_inject(&peer, &srv_addr, d, n, 0, -1);
  sim_run(sim_now + 1000);
}

int main(int argc, char **argv) {
  FILE *in;
  char line[256];
  if (argc < 3) return 2;
  in = fopen(argv[1], "r");
  sim_trace = fopen(argv[2], "w");
  if (!in || !sim_trace) return 2;
  setvbuf(sim_trace, NULL, _IOFBF, 1 << 20);
  coap_startup();
  coap_set_log_level(COAP_LOG_EMERG);
  coap_set_prng(prng);
  sim_hooks.on_tx = on_tx;
  sim_hooks.on_peer_rx = on_peer_rx;
  sim_trace_io = 0;
  sim_nested_wait = 1;   /* a client whose first protected request got no answer waits before the next one (coap_client_delay_first): in virtual time */
  while (fgets(line, sizeof(line), in)) {
    if (line[0] == 'X') {
      int id = 0, i;
      char *p;
      coap_endpoint_t *ep;
      coap_resource_t *r;
      if ((p = strstr(line, "id="))) id = atoi(p + 3);
      win = (p = strstr(line, "win=")) ? atoi(p + 4) : 32;
      b12 = (p = strstr(line, "b12=")) ? atoi(p + 4) : 1;
      freq = (p = strstr(line, "freq=")) ? atoi(p + 5) : 1;
      free_client();
      if (sctx) { sim_remove_node(sctx); coap_free_context(sctx); }
      for (i = 0; i < ncap; i++) free(cap[i].d);
      ncap = 0; have_saved = 0; saved_seq = 0; inj_port = 0;
      sim_reset(1000);
      sctx = coap_new_context(NULL);
      coap_context_set_block_mode(sctx, COAP_BLOCK_USE_LIBCOAP);
      sim_addr(&srv_addr, "127.0.0.1", 0);
      ep = coap_new_endpoint(sctx, &srv_addr, COAP_PROTO_UDP);
      srv_addr = ep->bind_addr;
      r = coap_resource_init(coap_make_str_const("r"), COAP_RESOURCE_FLAGS_OSCORE_ONLY);
      coap_register_request_handler(r, COAP_REQUEST_GET, h_get);
      coap_add_resource(sctx, r);
      coap_context_oscore_server(sctx, mkconf(0, 0));
      sim_add_node(sctx);
      new_client(0);
      fprintf(sim_trace, "{\"e\":\"Reset\",\"id\":%d,\"win\":%d,\"b12\":%s,\"freq\":%d}\n", id, win, b12 ? "true" : "false", freq);
      fflush(sim_trace);
    } else if (!sctx || !csess) {
      continue;
    } else if (line[0] == 'F' || line[0] == 'N' || line[0] == 'H' || line[0] == 'h') {
      unsigned long long n = 0;
      uint64_t before;
      holding = line[0] == 'H' || line[0] == 'h';
      if (line[0] == 'F' || line[0] == 'H') {
        sscanf(line + 1, "%llu", &n);
        if (csess->recipient_ctx && csess->recipient_ctx->osc_ctx)
        {
          /* jump ahead the way the library itself would have got there: keep the save threshold consistent */
          oscore_sender_ctx_t *sc = csess->recipient_ctx->osc_ctx->sender_context;
          sc->seq = n;
          sc->next_seq = n - (n % (uint64_t)(freq > 0 ? freq : 1));
        }
      }
      before = csess->recipient_ctx ? csess->recipient_ctx->osc_ctx->sender_context->seq : 0;
      handled = 0; resp_count = 0; resp_code = -1;
      send_req();
      fprintf(sim_trace, "{\"e\":\"Step\",\"kind\":\"%s\",\"n\":%lld,\"handled\":%d,\"resp\":%d,\"nresp\":%d}\n", holding ? "held" : "fresh",
              before < (1ull << 30) ? (long long)before : -1ll, handled, resp_code, resp_count);
      holding = 0;
    } else if (line[0] == 'R' || line[0] == 'G') {
      unsigned long long n = 0, claimed = 0;
      int i, k = sscanf(line + 1, "%llu %llu", &n, &claimed);
      for (i = 0; i < ncap; i++)
        if (cap[i].piv == n) break;
      if (i == ncap) {
        fprintf(sim_trace, "{\"e\":\"Skip\",\"why\":\"no captured request with piv %llu\"}\n", n);
        continue;
      }
      handled = 0;
      if (line[0] == 'R') {
        inject(cap[i].d, cap[i].n);
        fprintf(sim_trace, "{\"e\":\"Step\",\"kind\":\"replay\",\"n\":%llu,\"handled\":%d,\"resp\":%d,\"nresp\":0}\n", n, handled, peer_code);
      } else {
        uint8_t *f = malloc(cap[i].n + 8);
        size_t vo, vl, ho, fn = cap[i].n;
        memcpy(f, cap[i].d, fn);
        if (k < 2) claimed = n;
        if (find_oscore(f, fn, &vo, &vl, &ho)) {
          size_t pl = f[vo] & 7, j;
          /* rewrite the partial IV in place, keeping its encoded length (claimed values that do not fit are truncated) */
          for (j = 0; j < pl; j++) f[vo + pl - j] = (uint8_t)(claimed >> (8 * j));
        }
        f[fn - 1] ^= 0x01;
        inject(f, fn);
        free(f);
        fprintf(sim_trace, "{\"e\":\"Step\",\"kind\":\"forged\",\"n\":%llu,\"handled\":%d,\"resp\":%d,\"nresp\":0}\n", claimed, handled, peer_code);
      }
    } else if (line[0] == 'C') {
      uint64_t start = have_saved ? saved_seq : 0;
      free_client();
      fprintf(sim_trace, "{\"e\":\"Restart\",\"restart_from\":%lld}\n", start < (1ull << 30) ? (long long)start : -1ll);
      new_client(start);
    }
  }
  free_client();
  if (sctx) { sim_remove_node(sctx); coap_free_context(sctx); }
  fclose(sim_trace);
  coap_cleanup();
  return 0;
}
