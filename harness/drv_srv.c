/* drv_srv.c -- driver for C10: request datagrams injected into a real libcoap server on the simulator.
 *
 * usage: drv_srv <cases.txt> <out.ndjson>
 *   X id=<n> table=<k>
 *   I <hex> [m]          inject this datagram from a fresh peer ("m": addressed to the All-CoAP-Nodes multicast group)
 *   J <hex> <p>          inject this datagram from peer number <p> (the same peer may speak again: repeats, duplicates)
 *   T                    the application releases every answer it has deferred (coap_async_trigger)
 *   W <ms>               let <ms> of virtual time pass
 *   E
 * tables (k):  0 empty | 1 plain resources | 2 = 1 + unknown-resource handler (PUT, GET) | 3 = 2 with the
 *              HANDLE_WELLKNOWN_CORE flag | 4 = 1 + application-registered critical option 65001 | 5 = 1 + proxy resource
 *              6 = 1 + resources whose GET handler defers its answer (coap_register_async): "w" until the application
 *                  releases it, "v" for 3 s
 */
#include "simnet.h"
#include <string.h>
#include <stdlib.h>

typedef struct { const char *path; struct { int m; int code; } h[8]; const char *segs; } rdef_t;
static const rdef_t RES[] = {
  { "a",   { {1, 69}, {3, 68}, {0, 0} } },
  { "a/b", { {1, 69}, {0, 0} } },
  { "q",   { {1, 0}, {2, 65}, {0, 0} } },               /* GET handler sets nothing */
  { "e",   { {1, 163}, {3, 128}, {0, 0} } },            /* handlers answer 5.03 / 4.00 */
  { "x%20y", { {1, 69}, {0, 0} }, "x y" },              /* a segment that needs escaping: registered in escaped form */
  { "d",   { {4, 66}, {5, 69}, {6, 68}, {7, 68}, {2, 68}, {0, 0} } },
  { "a//c", { {1, 69}, {0, 0} } },                      /* empty interior segment */
  { NULL,  { {0, 0} } }
};
#define NRES 7
/* deferring resources (table 6): the first call registers an async entry and sets nothing, the released call answers 2.05 */
static const rdef_t ASY[] = {
  { "w", { {1, 0}, {0, 0} } },
  { "v", { {1, 0}, {0, 0} } },
  { NULL, { {0, 0} } }
};
#define MAXDEF 64
static coap_async_t *deferred[MAXDEF];
static int ndeferred;
static const rdef_t UNK = { "-unknown-", { {3, 65}, {1, 69}, {0, 0} } };

static coap_context_t *ctx;
static coap_address_t srv_addr, mc_addr;
static int table, ninj;

static void arr(const uint8_t *b, size_t n) {
  size_t i;
  fputc('[', sim_trace);
  for (i = 0; i < n; i++) fprintf(sim_trace, "%s%u", i ? "," : "", b[i]);
  fputc(']', sim_trace);
}

static const rdef_t *def_of(coap_resource_t *r) {
  return (const rdef_t *)coap_resource_get_userdata(r);
}

static void hnd(coap_resource_t *r, coap_session_t *s, const coap_pdu_t *req, const coap_string_t *q, coap_pdu_t *resp) {
  const rdef_t *d = def_of(r);
  int m = coap_pdu_get_code(req), i, code = 0, idx = 0;
  coap_opt_iterator_t oi;
  coap_opt_t *o;
  size_t dl = 0;
  const uint8_t *dp = NULL;
  coap_bin_const_t t = coap_pdu_get_token(req);
  int first = 1;
  for (i = 0; d->h[i].m; i++)
    if (d->h[i].m == m) code = d->h[i].code;
  coap_async_t *as = NULL;
  int isdef = d >= ASY && d < ASY + 2;
  if (isdef) {
    idx = NRES + 1 + (int)(d - ASY);
    as = coap_find_async(s, t);
  } else if (d != &UNK)
    idx = (int)(d - RES) + 1;
  fprintf(sim_trace, "{\"e\":\"Handler\",\"res\":%d,\"again\":%s,\"method\":%d,\"hasq\":%s,\"query\":", idx, as ? "true" : "false", m,
          q ? "true" : "false");
  if (q) arr(q->s, q->length); else fputs("[]", sim_trace);
  fputs(",\"tok\":", sim_trace);
  arr(t.s, t.length);
  fputs(",\"opts\":[", sim_trace);
  coap_option_iterator_init(req, &oi, COAP_OPT_ALL);
  while ((o = coap_option_next(&oi))) {
    fprintf(sim_trace, "%s[%u,", first ? "" : ",", oi.number);
    first = 0;
    arr(coap_opt_value(o), coap_opt_length(o));
    fputc(']', sim_trace);
  }
  fputs("],\"pl\":", sim_trace);
  if (coap_get_data(req, &dl, &dp) && dl) arr(dp, dl); else fputs("[]", sim_trace);
  fputs("}\n", sim_trace);
  if (isdef && !as) {
    /* defer: "w" until the application says so, "v" for three seconds */
    as = coap_register_async(s, req, d == &ASY[0] ? 0 : 3 * COAP_TICKS_PER_SECOND);
    if (as && d == &ASY[0] && ndeferred < MAXDEF)
      deferred[ndeferred++] = as;
    return;
  }
  if (isdef) {
    coap_pdu_set_code(resp, COAP_RESPONSE_CODE_CONTENT);
    coap_add_data(resp, 1, (const uint8_t *)"D");
    return;
  }
  if (code) {
    coap_pdu_set_code(resp, (coap_pdu_code_t)code);
    if (code == 69)
      coap_add_data(resp, 1, (const uint8_t *)"H");
  }
}

static void on_peer_rx(const sim_dgram_t *dg) {
  fputs("{\"e\":\"Reply\",\"w\":", sim_trace);
  arr(dg->data, dg->len);
  fprintf(sim_trace, ",\"t\":%llu,\"peer\":%u}\n", (unsigned long long)sim_now, sim_port(&dg->dst));
  if (dg->len >= 4 && (dg->data[0] & 0x30) == 0x00 && dg->data[1] >= 64) {
    /* a Confirmable (separate) response: the peer acknowledges it */
    uint8_t a[4] = { 0x60, 0, dg->data[2], dg->data[3] };
    sim_inject(&dg->dst, &dg->src, a, 4, 0, -1);
  }
}

static void add_res(const rdef_t *d, int unknown, int wk, int proxy) {
  coap_resource_t *r;
  int i;
  if (unknown)
    r = coap_resource_unknown_init2(hnd, wk ? COAP_RESOURCE_HANDLE_WELLKNOWN_CORE : 0);
  else if (proxy) {
    const char *names[] = { "proxy.example" };
    r = coap_resource_proxy_uri_init2(hnd, 1, names, 0);
  } else
    r = coap_resource_init(coap_make_str_const(d->path), 0);
  coap_resource_set_userdata(r, (void *)d);
  for (i = 0; d->h[i].m; i++)
    coap_register_request_handler(r, (coap_request_t)d->h[i].m, hnd);
  coap_add_resource(ctx, r);
}

static void table_json(void) {
  int i, j, first = 1;
  fprintf(sim_trace, "\"res\":[");
  for (i = 0; table >= 1 && RES[i].path; i++) {
    const char *p = RES[i].segs ? RES[i].segs : RES[i].path, *sl;
    fprintf(sim_trace, "%s{\"segs\":[", first ? "" : ",");
    first = 0;
    /* path as segment list */
    for (;;) {
      sl = strchr(p, '/');
      arr((const uint8_t *)p, sl ? (size_t)(sl - p) : strlen(p));
      if (!sl) break;
      fputc(',', sim_trace);
      p = sl + 1;
    }
    fputs("],\"methods\":[", sim_trace);
    for (j = 0; RES[i].h[j].m; j++) fprintf(sim_trace, "%s[%d,%d]", j ? "," : "", RES[i].h[j].m, RES[i].h[j].code);
    fputs("],\"defer\":false}", sim_trace);
  }
  for (i = 0; table == 6 && ASY[i].path; i++)
    fprintf(sim_trace, ",{\"segs\":[[%d]],\"methods\":[[1,0]],\"defer\":true}", ASY[i].path[0]);
  fprintf(sim_trace, "],\"unknown\":{\"present\":%s,\"wk\":%s,\"methods\":[", (table == 2 || table == 3) ? "true" : "false",
          table == 3 ? "true" : "false");
  for (j = 0; UNK.h[j].m; j++) fprintf(sim_trace, "%s[%d,%d]", j ? "," : "", UNK.h[j].m, UNK.h[j].code);
  fprintf(sim_trace, "]},\"proxy\":%s,\"known\":[%s]", table == 5 ? "true" : "false", table == 4 ? "65001" : "");
}

static size_t unhex(const char *h, uint8_t *b, size_t cap) {
  size_t n = 0;
  while (h[0] && h[1] && n < cap) {
    unsigned x;
    if (sscanf(h, "%2x", &x) != 1) break;
    b[n++] = (uint8_t)x;
    h += 2;
  }
  return n;
}

static int prng(void *out, size_t len) {
  static uint32_t st = 99;
  uint8_t *o = out;
  size_t i;
  for (i = 0; i < len; i++) { st = st * 1664525u + 1013904223u; o[i] = (uint8_t)(st >> 24); }
  return 1;
}

int main(int argc, char **argv) {
  FILE *in;
  static char line[1 << 14];
  static uint8_t b[1 << 13];
  if (argc < 3) return 2;
  in = fopen(argv[1], "r");
  sim_trace = fopen(argv[2], "w");
  if (!in || !sim_trace) return 2;
  setvbuf(sim_trace, NULL, _IOFBF, 1 << 20);
  coap_startup();
  coap_set_log_level(COAP_LOG_EMERG);
  coap_set_prng(prng);
  sim_hooks.on_peer_rx = on_peer_rx;
  sim_trace_io = 0;
  sim_addr(&mc_addr, "224.0.1.187", 5683);
  while (fgets(line, sizeof(line), in)) {
    if (line[0] == 'X') {
      int id = 0, i;
      char *p = strstr(line, "id=");
      coap_endpoint_t *ep;
      if (p) id = atoi(p + 3);
      p = strstr(line, "table=");
      table = p ? atoi(p + 6) : 1;
      if (ctx) { sim_remove_node(ctx); coap_free_context(ctx); }
      sim_reset(1000);
      ninj = 0;
      ctx = coap_new_context(NULL);
      sim_addr(&srv_addr, "127.0.0.1", 0);
      ep = coap_new_endpoint(ctx, &srv_addr, COAP_PROTO_UDP);
      if (!ep) return 2;
      srv_addr = ep->bind_addr;
      mc_addr.addr.sin.sin_port = srv_addr.addr.sin.sin_port;
      sim_add_node(ctx);
      for (i = 0; table >= 1 && RES[i].path; i++) add_res(&RES[i], 0, 0, 0);
      if (table == 2 || table == 3) add_res(&UNK, 1, table == 3, 0);
      if (table == 4) coap_register_option(ctx, 65001);
      if (table == 5) add_res(&UNK, 0, 0, 1);
      for (i = 0; table == 6 && ASY[i].path; i++) add_res(&ASY[i], 0, 0, 0);
      ndeferred = 0;
      fprintf(sim_trace, "{\"e\":\"Reset\",\"id\":%d,", id);
      table_json();
      fputs("}\n", sim_trace);
      fflush(sim_trace);
    } else if (line[0] == 'T' && ctx) {
      int i;
      fprintf(sim_trace, "{\"e\":\"Trigger\",\"n\":%d}\n", ndeferred);
      for (i = 0; i < ndeferred; i++)
        coap_async_trigger(deferred[i]);
      ndeferred = 0;
      sim_run(sim_now + 1000);
      fprintf(sim_trace, "{\"e\":\"TDone\",\"n\":%d}\n", ninj);
    } else if (line[0] == 'W' && ctx) {
      int ms = atoi(line + 1);
      fprintf(sim_trace, "{\"e\":\"Wait\",\"ms\":%d}\n", ms);
      sim_run(sim_now + (uint64_t)ms);
      fprintf(sim_trace, "{\"e\":\"WDone\",\"ms\":%d}\n", ms);
    } else if ((line[0] == 'I' || line[0] == 'J') && ctx) {
      char h[1 << 14] = "", m[8] = "";
      size_t n;
      coap_address_t peer;
      int mc, port = 20000 + (ninj % 20000);
      sscanf(line + 1, "%16383s %7s", h, m);
      n = unhex(h, b, sizeof(b));
      mc = line[0] == 'I' && m[0] == 'm';
      if (line[0] == 'J') port = 45000 + atoi(m);
      sim_addr(&peer, "127.0.0.1", (uint16_t)port);
      fprintf(sim_trace, "{\"e\":\"Inject\",\"n\":%d,\"peer\":%d,\"mcast\":%s,\"w\":", ninj, port, mc ? "true" : "false");
      arr(b, n);
      fputs("}\n", sim_trace);
      sim_inject(&peer, mc ? &mc_addr : &srv_addr, b, n, 0, -1);
      sim_run(sim_now + (line[0] == 'J' ? 1000 : 6000));         /* covers the multicast leisure delay */
      fprintf(sim_trace, "{\"e\":\"Done\",\"n\":%d}\n", ninj);
      ninj++;
    }
  }
  if (ctx) { sim_remove_node(ctx); coap_free_context(ctx); }
  fclose(sim_trace);
  coap_cleanup();
  return 0;
}
