/* drv_oscore.c -- driver for C14 (OSCORE protection matches RFC 8613, round-trips, tampering is rejected).
 * A real libcoap OSCORE client and server on the simulator.  The AEAD primitive is tapped at link time
 * (coap_crypto_aead_encrypt): key, nonce, AAD, plaintext and ciphertext of every protection are logged, as are the
 * application's original message, the protected datagram and what the peer's handler obtains after unprotecting.
 *
 * usage: drv_oscore <cases.txt> <out.ndjson>
 *   X id=<n> sid=<hex|-> rid=<hex|-> idctx=<hex|-> salt=<hex|-> secret=<hex>     (sid: client's sender id, rid: server's sender id)
 *   M <method> <seq|-1> <opts|-> <payload hex|-> <response code> <response opts|-> <response payload hex|->
 *        one exchange; opts = num:hex,num:hex,... ; seq: the client's sender sequence number is set to it first
 *   O <n>      observe: register GET /o (Observe=0) under one token, n notifications, then cancel (Observe=1) under the SAME token
 *   T <step>   tamper with the request of the last M line: every <step>-th single-bit flip and every truncation of the protected
 *        datagram (each on a fresh protection of the same request, the genuine datagram being withheld), then a request
 *        protected under a different master secret, then an untouched request
 *   E
 */
#include "simnet.h"
#include "oscore/oscore_context.h"
#include <string.h>
#include <stdlib.h>

#define MAXO 24
typedef struct { int num; uint8_t v[64]; size_t n; } optv_t;
static coap_context_t *sctx, *cctx, *xctx;
static coap_session_t *csess, *xsess;
static coap_address_t srv_addr;
static char sid[32], rid[32], idctx[64], salt[64], secret[128];
static optv_t ropts[MAXO], popts[MAXO];
static int nropts, npopts, rcode, method, handled;
static uint8_t rpl[2048], ppl[2048];
static size_t nrpl, nppl;
static uint8_t cap[4096];
static size_t ncap;
static int capture_and_drop, peer_code;
static unsigned tokc;
static int notifying;                /* the handler runs for a notification, not for a received request */
static coap_resource_t *res_o;
static int ostate;
static int quiet;                    /* tamper loops: only the Tamper summary lines are logged */

static void arr(const uint8_t *b, size_t n) {
  size_t i;
  fputc('[', sim_trace);
  for (i = 0; i < n; i++) fprintf(sim_trace, "%s%u", i ? "," : "", b[i]);
  fputc(']', sim_trace);
}
static size_t unhex(const char *h, uint8_t *b, size_t cap_) {
  size_t n = 0;
  if (!h || h[0] == '-') return 0;
  while (h[0] && h[1] && n < cap_) { unsigned x; if (sscanf(h, "%2x", &x) != 1) break; b[n++] = (uint8_t)x; h += 2; }
  return n;
}
static int parse_opts(char *s, optv_t *o) {
  int n = 0;
  char *t, *save = NULL;
  if (!s || s[0] == '-') return 0;
  for (t = strtok_r(s, ",", &save); t && n < MAXO; t = strtok_r(NULL, ",", &save)) {
    char *c = strchr(t, ':');
    o[n].num = atoi(t);
    o[n].n = c ? unhex(c + 1, o[n].v, sizeof(o[n].v)) : 0;
    n++;
  }
  return n;
}
static void log_pdu(const char *ev, const char *side, const coap_pdu_t *p) {
  coap_opt_iterator_t oi;
  coap_opt_t *o;
  size_t n = 0;
  const uint8_t *d = NULL;
  int first = 1;
  if (quiet) return;
  fprintf(sim_trace, "{\"e\":\"%s\",\"side\":\"%s\",\"code\":%d,\"opts\":[", ev, side, coap_pdu_get_code(p));
  coap_option_iterator_init(p, &oi, COAP_OPT_ALL);
  while ((o = coap_option_next(&oi))) {
    fprintf(sim_trace, "%s[%d,", first ? "" : ",", oi.number);
    arr(coap_opt_value(o), coap_opt_length(o));
    fputc(']', sim_trace);
    first = 0;
  }
  fputs("],\"pl\":", sim_trace);
  if (coap_get_data(p, &n, &d) && n) arr(d, n); else fputs("[]", sim_trace);
  fputs("}\n", sim_trace);
}

/* ---- the AEAD seam ---------------------------------------------------------------------------------------------- */
int __real_coap_crypto_aead_encrypt(const coap_crypto_param_t *params, coap_bin_const_t *data, coap_bin_const_t *aad, uint8_t *result, size_t *max_result_len);
int __wrap_coap_crypto_aead_encrypt(const coap_crypto_param_t *params, coap_bin_const_t *data, coap_bin_const_t *aad, uint8_t *result, size_t *max_result_len) {
  int r = __real_coap_crypto_aead_encrypt(params, data, aad, result, max_result_len);
  if (sim_trace && !quiet) {
    fprintf(sim_trace, "{\"e\":\"Aead\",\"ok\":%d,\"alg\":%d,\"taglen\":%zu,\"key\":", r, (int)params->alg, params->params.aes.tag_len);
    arr(params->params.aes.key.s, params->params.aes.key.length);
    fputs(",\"nonce\":", sim_trace);
    arr(params->params.aes.nonce, 15 - params->params.aes.l);
    fputs(",\"aad\":", sim_trace);
    arr(aad->s, aad->length);
    fputs(",\"pt\":", sim_trace);
    arr(data->s, data->length);
    fputs(",\"ct\":", sim_trace);
    if (r) arr(result, *max_result_len); else fputs("[]", sim_trace);
    fputs("}\n", sim_trace);
  }
  return r;
}

/* ---- applications ------------------------------------------------------------------------------------------------- */
static void h_req(coap_resource_t *r, coap_session_t *s, const coap_pdu_t *req, const coap_string_t *q, coap_pdu_t *resp) {
  int i;
  (void)r; (void)s; (void)q;
  handled++;
  if (r == res_o) {
    char b[16];
    if (!notifying) log_pdu("Got", "s", req);
    coap_pdu_set_code(resp, COAP_RESPONSE_CODE_CONTENT);
    coap_insert_option(resp, COAP_OPTION_CONTENT_FORMAT, 1, (const uint8_t *)"\x00");
    snprintf(b, sizeof(b), "state-%d", ostate);
    coap_add_data(resp, strlen(b), (const uint8_t *)b);
    log_pdu("Msg", "s", resp);
    return;
  }
  log_pdu("Got", "s", req);
  coap_pdu_set_code(resp, (coap_pdu_code_t)rcode);
  for (i = 0; i < npopts; i++) coap_insert_option(resp, (coap_option_num_t)popts[i].num, popts[i].n, popts[i].v);
  if (nppl) coap_add_data(resp, nppl, ppl);
  log_pdu("Msg", "s", resp);
}
static coap_response_t h_resp(coap_session_t *s, const coap_pdu_t *sent, const coap_pdu_t *rcv, const coap_mid_t mid) {
  (void)s; (void)sent; (void)mid;
  log_pdu("Got", "c", rcv);
  return COAP_RESPONSE_OK;
}
static void on_tx(int node, coap_session_t *s, const sim_dgram_t *dg, sim_verdict_t *v) {
  (void)node;
  if (!quiet) {
    fprintf(sim_trace, "{\"e\":\"Wire\",\"from\":\"%s\",\"w\":", (s && s->context == sctx) ? "s" : "c");
    arr(dg->data, dg->len);
    fputs("}\n", sim_trace);
  }
  if (capture_and_drop && s && s->context != sctx && dg->len >= 4 && dg->data[1] >= 1 && dg->data[1] <= 31) {
    ncap = dg->len < sizeof(cap) ? dg->len : sizeof(cap);
    memcpy(cap, dg->data, ncap);
    v->copies = 0;
  }
}
/* which part of a protected datagram byte k belongs to: h header+token, o OSCORE option value, x other option bytes, m marker, c ciphertext */
static char region(const uint8_t *d, size_t n, size_t k) {
  size_t i = 4 + (d[0] & 15u), num = 0;
  if (k < i) return 'h';
  while (i < n && d[i] != 0xff) {
    size_t dl = d[i] >> 4, l = d[i] & 15, h = i;
    i++;
    if (dl == 13) { dl = d[i] + 13u; i++; } else if (dl == 14) { dl = (size_t)((d[i] << 8) | d[i + 1]) + 269; i += 2; }
    if (l == 13) { l = d[i] + 13u; i++; } else if (l == 14) { l = (size_t)((d[i] << 8) | d[i + 1]) + 269; i += 2; }
    num += dl;
    if (k >= h && k < i) return 'x';
    if (k >= i && k < i + l) return num == 9 ? (k == i ? 'O' : 'o') : 'x';      /* O: the flag byte of the OSCORE option */
    i += l;
  }
  if (k == i) return 'm';
  return 'c';
}
/* the k flag of the option's first byte says "a kid follows": with an empty kid the two encodings denote the same COSE object, and the flag
   byte itself is not covered by the AAD (RFC 8613 5.4) - such a flip changes nothing that is protected: region f (either) */
static char flipreg(char r, int bit) {
  if (r != 'O') return r;
  return (bit == 3 && sid[0] == '-') ? 'f' : 'o';
}
static void on_peer_rx(const sim_dgram_t *dg) { if (dg->len >= 4) peer_code = dg->data[1]; }

static coap_oscore_conf_t *mkconf(int client, const char *sec) {
  char txt[1024];
  size_t n;
  coap_str_const_t c;
  n = (size_t)snprintf(txt, sizeof(txt), "master_secret,hex,\"%s\"\n", sec);
  if (salt[0] != '-') n += (size_t)snprintf(txt + n, sizeof(txt) - n, "master_salt,hex,\"%s\"\n", salt);
  if (idctx[0] != '-') n += (size_t)snprintf(txt + n, sizeof(txt) - n, "id_context,hex,\"%s\"\n", idctx);
  n += (size_t)snprintf(txt + n, sizeof(txt) - n, "sender_id,hex,\"%s\"\nrecipient_id,hex,\"%s\"\nreplay_window,integer,32\nrfc8613_b_1_2,bool,false\n",
                        client ? (sid[0] == '-' ? "" : sid) : (rid[0] == '-' ? "" : rid), client ? (rid[0] == '-' ? "" : rid) : (sid[0] == '-' ? "" : sid));
  c.s = (const uint8_t *)txt;
  c.length = n;
  return coap_new_oscore_conf(c, NULL, NULL, 0);
}
static int prng(void *out, size_t len) {
  static uint32_t st = 1414;
  uint8_t *o = out;
  size_t i;
  for (i = 0; i < len; i++) { st = st * 1664525u + 1013904223u; o[i] = (uint8_t)(st >> 24); }
  return 1;
}

static coap_pdu_t *build(coap_session_t *s) {
  coap_pdu_t *pdu = coap_new_pdu(COAP_MESSAGE_NON, (coap_pdu_code_t)method, s);
  uint8_t tk[2];
  int i;
  tokc++;
  tk[0] = (uint8_t)(tokc >> 8); tk[1] = (uint8_t)tokc;
  coap_add_token(pdu, 2, tk);
  for (i = 0; i < nropts; i++) coap_insert_option(pdu, (coap_option_num_t)ropts[i].num, ropts[i].n, ropts[i].v);
  if (nrpl) coap_add_data(pdu, nrpl, rpl);
  return pdu;
}
static void set_seq(coap_session_t *s, long long seq) {
  if (seq >= 0 && s->recipient_ctx && s->recipient_ctx->osc_ctx) {
    oscore_sender_ctx_t *sc = s->recipient_ctx->osc_ctx->sender_context;
    sc->seq = (uint64_t)seq;
    sc->next_seq = (uint64_t)seq;
  }
}
static void teardown(void) {
  if (csess) coap_session_release(csess);
  if (xsess) coap_session_release(xsess);
  csess = xsess = NULL;
  if (cctx) { sim_remove_node(cctx); coap_free_context(cctx); }
  if (xctx) { sim_remove_node(xctx); coap_free_context(xctx); }
  if (sctx) { sim_remove_node(sctx); coap_free_context(sctx); }
  cctx = xctx = sctx = NULL;
}

int main(int argc, char **argv) {
  FILE *in;
  static char line[16384];
  if (argc < 3) return 2;
  in = fopen(argv[1], "r");
  sim_trace = fopen(argv[2], "w");
  if (!in || !sim_trace) return 2;
  setvbuf(sim_trace, NULL, _IOFBF, 1 << 20);
  coap_startup();
  coap_set_log_level(getenv("DRV_DEBUG") ? COAP_LOG_DEBUG : COAP_LOG_EMERG);
  coap_set_prng(prng);
  sim_hooks.on_tx = on_tx;
  sim_hooks.on_peer_rx = on_peer_rx;
  sim_trace_io = 0;
  sim_trace_dg = 0;
  sim_nested_wait = 1;
  while (fgets(line, sizeof(line), in)) {
    if (line[0] == 'X') {
      int id = 0;
      char *p;
      coap_endpoint_t *ep;
      coap_resource_t *r;
      coap_oscore_conf_t *c;
      char other[128];
      teardown();
      sscanf(line, "X id=%d sid=%31s rid=%31s idctx=%63s salt=%63s secret=%127s", &id, sid, rid, idctx, salt, secret);
      (void)p;
      sim_reset(1000);
      {
        uint8_t b[128];
        size_t n;
        fprintf(sim_trace, "{\"e\":\"Reset\",\"id\":%d,\"hasidctx\":%s,\"hassalt\":%s,\"sidb\":", id, idctx[0] != '-' ? "true" : "false", salt[0] != '-' ? "true" : "false");
        n = unhex(sid, b, sizeof(b)); arr(b, n);
        fputs(",\"ridb\":", sim_trace); n = unhex(rid, b, sizeof(b)); arr(b, n);
        fputs(",\"idctxb\":", sim_trace); n = unhex(idctx, b, sizeof(b)); arr(b, n);
        fputs(",\"saltb\":", sim_trace); n = unhex(salt, b, sizeof(b)); arr(b, n);
        fputs(",\"secretb\":", sim_trace); n = unhex(secret, b, sizeof(b)); arr(b, n);
        fputs("}\n", sim_trace);
      }
      fflush(sim_trace);
      sctx = coap_new_context(NULL);
      sim_addr(&srv_addr, "127.0.0.1", 0);
      ep = coap_new_endpoint(sctx, &srv_addr, COAP_PROTO_UDP);
      srv_addr = ep->bind_addr;
      r = coap_resource_unknown_init2(h_req, COAP_RESOURCE_FLAGS_OSCORE_ONLY);
      { int m; for (m = 1; m <= 7; m++) coap_register_request_handler(r, (coap_request_t)m, h_req); }
      coap_add_resource(sctx, r);
      res_o = coap_resource_init(coap_make_str_const("o"), COAP_RESOURCE_FLAGS_OSCORE_ONLY);
      coap_register_request_handler(res_o, COAP_REQUEST_GET, h_req);
      coap_resource_set_get_observable(res_o, 1);
      coap_add_resource(sctx, res_o);
      ostate = 0;
      c = mkconf(0, secret);
      if (!c || !coap_context_oscore_server(sctx, c)) fputs("{\"e\":\"Skip\",\"why\":\"server context refused\"}\n", sim_trace);
      sim_add_node(sctx);
      cctx = coap_new_context(NULL);
      coap_register_response_handler(cctx, h_resp);
      sim_add_node(cctx);
      c = mkconf(1, secret);
      csess = c ? coap_new_client_session_oscore(cctx, NULL, &srv_addr, COAP_PROTO_UDP, c) : NULL;
      if (!csess) fputs("{\"e\":\"Skip\",\"why\":\"client context refused\"}\n", sim_trace);
      /* the same ids under another master secret */
      xctx = coap_new_context(NULL);
      sim_add_node(xctx);
      snprintf(other, sizeof(other), "ff%s", secret + 2);
      c = mkconf(1, other);
      xsess = c ? coap_new_client_session_oscore(xctx, NULL, &srv_addr, COAP_PROTO_UDP, c) : NULL;
    } else if (!csess) {
      continue;
    } else if (line[0] == 'M') {
      char o1[4096], p1[4200], o2[4096], p2[4200];
      long long seq = -1;
      coap_pdu_t *pdu;
      if (sscanf(line + 1, "%d %lld %4095s %4199s %d %4095s %4199s", &method, &seq, o1, p1, &rcode, o2, p2) != 7) continue;
      nropts = parse_opts(o1, ropts); nrpl = unhex(p1, rpl, sizeof(rpl));
      npopts = parse_opts(o2, popts); nppl = unhex(p2, ppl, sizeof(ppl));
      set_seq(csess, seq);
      {
        uint8_t pb[8];
        size_t pn = 0;
        int k;
        if (seq >= 0) { for (k = 7; k >= 0; k--) { uint8_t v = (uint8_t)((uint64_t)seq >> (8 * k)); if (v || pn || k == 0) pb[pn++] = v; } }
        fprintf(sim_trace, "{\"e\":\"Exchange\",\"pivb\":");
        if (seq >= 0) arr(pb, pn); else fputs("[-1]", sim_trace);
        fputs("}\n", sim_trace);
      }
      pdu = build(csess);
      log_pdu("Msg", "c", pdu);
      handled = 0;
      coap_send(csess, pdu);
      sim_run(sim_now + 2000);
      fprintf(sim_trace, "{\"e\":\"Done\",\"handled\":%d}\n", handled);
    } else if (line[0] == 'O') {
      int n = atoi(line + 1), k, step;
      uint8_t tk[2];
      tokc++;
      tk[0] = (uint8_t)(0xb0 | (tokc >> 8)); tk[1] = (uint8_t)tokc;
      for (step = 0; step < 2; step++) {                 /* 0: register, then notifications; 1: cancel under the same token */
        coap_pdu_t *pdu = coap_new_pdu(COAP_MESSAGE_NON, COAP_REQUEST_CODE_GET, csess);
        uint8_t ov = (uint8_t)step;
        coap_add_token(pdu, 2, tk);
        coap_insert_option(pdu, COAP_OPTION_OBSERVE, step ? 1 : 0, &ov);
        coap_insert_option(pdu, COAP_OPTION_URI_PATH, 1, (const uint8_t *)"o");
        fprintf(sim_trace, "{\"e\":\"Exchange\",\"pivb\":[-1],\"observe\":%d}\n", step);
        log_pdu("Msg", "c", pdu);
        handled = 0;
        coap_send(csess, pdu);
        sim_run(sim_now + 2000);
        fprintf(sim_trace, "{\"e\":\"Done\",\"handled\":%d}\n", handled);
        for (k = 0; step == 0 && k < n; k++) {
          ostate++;
          fprintf(sim_trace, "{\"e\":\"Notify\",\"k\":%d}\n", k + 1);
          notifying = 1;
          handled = 0;
          coap_resource_notify_observers(res_o, NULL);
          sim_run(sim_now + 2000);
          notifying = 0;
          fprintf(sim_trace, "{\"e\":\"NotifyDone\",\"handled\":%d}\n", handled);
        }
      }
    } else if (line[0] == 'T') {
      int step = atoi(line + 1), k;
      size_t nbits, i;
      coap_address_t from = csess->addr_info.local;
      if (step < 1) step = 1;
      /* a first protection to learn the datagram's length */
      capture_and_drop = 1; ncap = 0; quiet = 1;
      coap_send(csess, build(csess));
      sim_run(sim_now + 10);
      nbits = ncap * 8;
      for (i = 0; i < nbits + ncap; i += (i < nbits ? (size_t)step : 1)) {
        uint8_t t[4096];
        size_t tn;
        ncap = 0;
          coap_send(csess, build(csess));          /* fresh partial IV; the genuine datagram is withheld */
        sim_run(sim_now + 10);
        if (!ncap) break;
        memcpy(t, cap, ncap);
        tn = ncap;
        if (i < nbits) { if (i / 8 >= tn) continue; t[i / 8] ^= (uint8_t)(1u << (i % 8)); }
        else { tn = i - nbits; if (tn >= ncap) continue; }
        handled = 0; peer_code = -1;
        capture_and_drop = 0;
        sim_inject(&from, &srv_addr, t, tn, 0, -1);
        sim_run(sim_now + 10);
        capture_and_drop = 1;
        fprintf(sim_trace, "{\"e\":\"Tamper\",\"kind\":\"%s\",\"pos\":%zu,\"region\":\"%c\",\"handled\":%d}\n", i < nbits ? "flip" : "trunc", i < nbits ? i : tn,
                i < nbits ? flipreg(region(cap, ncap, i / 8), (int)(i % 8)) : 't', handled);
      }
      capture_and_drop = 0;
      /* the same request protected under another master secret (same ids) */
      if (xsess) {
        handled = 0;
          coap_send(xsess, build(xsess));
        sim_run(sim_now + 2000);
        fprintf(sim_trace, "{\"e\":\"Tamper\",\"kind\":\"ctx\",\"pos\":0,\"region\":\"k\",\"handled\":%d}\n", handled);
      }
      /* ... and the genuine peer is still served */
      handled = 0;
      coap_send(csess, build(csess));
      sim_run(sim_now + 2000);
      quiet = 0;
      fprintf(sim_trace, "{\"e\":\"Canary\",\"handled\":%d}\n", handled);
      (void)k;
    } else if (line[0] == 'E') {
      teardown();
      fputs("{\"e\":\"End\"}\n", sim_trace);
      fflush(sim_trace);
    }
  }
  teardown();
  fclose(sim_trace);
  sim_trace = NULL;
  coap_cleanup();
  return 0;
}
