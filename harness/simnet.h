/* simnet.h -- single-threaded network/clock simulator underneath libcoap.
 *
 * Binds to libcoap only through link-time interposition (ld --wrap) of
 *   coap_ticks, epoll_wait, epoll_ctl, coap_socket_send, coap_socket_recv
 * see DESIGN.md section 2.2/2.3.  No libcoap source is modified.
 */
#ifndef SIMNET_H
#define SIMNET_H
#include <coap3/coap_libcoap_build.h>
#include <stdio.h>
#include <stdint.h>

#define SIM_MAX_NODES 8
#define SIM_MAX_SOCKS 256
#define SIM_MAX_DG    65536

typedef struct sim_dgram {
  int id;                 /* emission / injection index (global, per execution) */
  int origin;             /* id of the datagram this one is a network copy of (== id if original) */
  uint64_t at;            /* virtual time at which it becomes deliverable */
  coap_address_t src;     /* as seen by the receiver */
  coap_address_t dst;     /* destination (may be multicast) */
  uint8_t *data;
  size_t len;
  int taken;              /* handed to libcoap (or to a scripted peer) */
  int to_peer;            /* destination is not a libcoap socket */
} sim_dgram_t;

/* verdict of the environment for one emitted datagram */
typedef struct sim_verdict {
  int copies;             /* 0 = drop, 1 = pass, n = duplicate, -1 = the send call itself fails (ENOBUFS) */
  uint32_t delay[4];      /* per copy: transit delay in ms */
} sim_verdict_t;

/* callbacks supplied by the driver */
typedef struct sim_hooks {
  /* decide fate of datagram emitted by libcoap; default: 1 copy, delay 0 */
  void (*on_tx)(int node, coap_session_t *s, const sim_dgram_t *dg, sim_verdict_t *v);
  /* a datagram reached an address that is not a libcoap socket */
  void (*on_peer_rx)(const sim_dgram_t *dg);
  /* called once per scheduler round; may perform application actions that are due;
     return non-zero if it did something */
  int (*on_round)(void);
  /* next virtual time at which on_round wants to run (UINT64_MAX: none) */
  uint64_t (*next_app_time)(void);
  /* optional: the driver's own numbering of sessions (0 = unknown -> simulator numbers by first appearance) */
  int (*sess_id)(coap_session_t *s);
} sim_hooks_t;

extern sim_hooks_t sim_hooks;
extern uint64_t sim_now;            /* virtual ms */
extern FILE *sim_trace;             /* ndjson */
extern int sim_trace_io;            /* log Io events */
extern int sim_nested_wait;         /* opt-in: waits that libcoap or the application start themselves block in virtual time */
extern int sim_trace_dg;            /* log the simulator's own Tx / Rx / Lost / Tick events (default on) */

void sim_reset(uint64_t start);     /* forget datagrams, sockets stay registered through epoll_ctl */
int  sim_add_node(coap_context_t *ctx);      /* returns node index */
void sim_remove_node(coap_context_t *ctx);
int  sim_node_of_ctx(coap_context_t *ctx);
int  sim_session_id(coap_session_t *s);     /* small stable integer per session pointer (per execution) */
void sim_forget_session(coap_session_t *s);

/* inject a datagram from an arbitrary source to dst (a libcoap socket is looked up by port) */
int  sim_inject(const coap_address_t *src, const coap_address_t *dst,
                const uint8_t *data, size_t len, uint32_t delay, int origin);

/* run the scheduler until virtual time `until` or until nothing is pending (returns sim_now) */
uint64_t sim_run(uint64_t until);
/* run one scheduler round at the current time (no time advance); returns number of deliveries */
int sim_round(void);
uint64_t sim_next_event_time(void);
extern int sim_steps;               /* scheduler steps in this execution (liveness budget) */

/* trace helpers */
void tr(const char *fmt, ...) __attribute__((format(printf, 1, 2)));
void tr_hex(char *out, const uint8_t *d, size_t n);
uint32_t sim_sig(const uint8_t *d, size_t n);
void sim_addr(coap_address_t *a, const char *ip, uint16_t port);
uint16_t sim_port(const coap_address_t *a);

#endif
