/* drv_alloc.c -- driver for C18 (any single allocation failure is survived).
 * coap_malloc_type / coap_realloc_type / coap_free_type are interposed at link time: the k-th allocation of a scenario
 * returns NULL once; every allocation and release is logged with an object number; after the scenario a canary exchange
 * runs with memory available, then everything is torn down and the trace ends with the balance.
 *
 * usage: drv_alloc <cases.txt> <out.ndjson> [from-line]
 *   each line:  <scenario> <k> [k2]  k = 0: no failure (counts the allocations of the scenario); k2: a second failure
 *   scenarios:  setup get block1 block2 observe uri async wkc (a resource listing of several blocks) oscore oscore2 (server configuration with three recipient ids) rawblock1 (a scripted peer uploads three Block1 blocks without Size1)
 */
#include "simnet.h"
#include <string.h>
#include <stdlib.h>

static coap_context_t *sctx, *cctx;
static coap_session_t *csess;
static coap_address_t srv_addr;
static coap_resource_t *res_o;
static int got_resp, resp_code, got_nack, body_ok, notif;
static size_t resp_len;
static uint8_t cur_tok[2];          /* token of the exchange being waited for: only its response counts */
static int releases_c, releases_s, bodies_c, bodies_s;

/* ---- allocator ---------------------------------------------------------------------------------------------------- */
void *__real_coap_malloc_type(coap_memory_tag_t type, size_t size);
void *__real_coap_realloc_type(coap_memory_tag_t type, void *p, size_t size);
void __real_coap_free_type(coap_memory_tag_t type, void *p);
#define LEDGER (1 << 15)
static struct { void *p; int id; } led[LEDGER];
static int nled, next_id = 1, window, fail_at, fail_at2, alloc_count, injected, counting_off;

static int led_find(void *p) { int i; for (i = nled - 1; i >= 0; i--) if (led[i].p == p) return i; return -1; }
static int inject_now(int type) {
  if (!window || counting_off) return 0;
  ++alloc_count;
  if (!(fail_at && alloc_count == fail_at) && !(fail_at2 && alloc_count == fail_at2)) return 0;
  injected++;
  fprintf(sim_trace, "{\"e\":\"Inject\",\"n\":%d,\"ty\":%d}\n", alloc_count, type);
  return 1;
}
void *__wrap_coap_malloc_type(coap_memory_tag_t type, size_t size) {
  void *p;
  if (inject_now((int)type)) return NULL;
  p = __real_coap_malloc_type(type, size);
  if (p && window && nled < LEDGER) {
    led[nled].p = p; led[nled].id = next_id++;
    fprintf(sim_trace, "{\"e\":\"A\",\"id\":%d,\"ty\":%d}\n", led[nled].id, (int)type);
    nled++;
  }
  return p;
}
void *__wrap_coap_realloc_type(coap_memory_tag_t type, void *old, size_t size) {
  void *p;
  int i;
  if (inject_now((int)type)) return NULL;           /* realloc failure leaves the old object alone */
  i = old ? led_find(old) : -1;
  p = __real_coap_realloc_type(type, old, size);
  if (p && window) {
    if (i >= 0) led[i].p = p;
    else if (nled < LEDGER) {
      led[nled].p = p; led[nled].id = next_id++;
      fprintf(sim_trace, "{\"e\":\"A\",\"id\":%d,\"ty\":%d}\n", led[nled].id, (int)type);
      nled++;
    }
  }
  return p;
}
void __wrap_coap_free_type(coap_memory_tag_t type, void *p) {
  if (p && window) {
    int i = led_find(p);
    if (i >= 0) {
      fprintf(sim_trace, "{\"e\":\"F\",\"id\":%d}\n", led[i].id);
      led[i] = led[--nled];
    } else
      fprintf(sim_trace, "{\"e\":\"F\",\"id\":0,\"ty\":%d}\n", (int)type);     /* not allocated inside the window / unknown */
  }
  __real_coap_free_type(type, p);
}
static int id_of(void *p) { int i = led_find(p); return i < 0 ? 0 : led[i].id; }

/* ---- the application (checks every result, as a careful one would) -------------------------------------------------- */
static uint8_t pat(size_t i) { return (uint8_t)(7u * i + (i / 256) + 3); }
static void rel_s(coap_session_t *s, void *p) { (void)s; releases_s++; free(p); }
static void rel_c(coap_session_t *s, void *p) { (void)s; releases_c++; free(p); }

static void h_get(coap_resource_t *r, coap_session_t *s, const coap_pdu_t *req, const coap_string_t *q, coap_pdu_t *resp) {
  (void)r; (void)s; (void)req; (void)q;
  coap_pdu_set_code(resp, COAP_RESPONSE_CODE_CONTENT);
  coap_add_data(resp, 2, (const uint8_t *)"ok");
}
static void h_put(coap_resource_t *r, coap_session_t *s, const coap_pdu_t *req, const coap_string_t *q, coap_pdu_t *resp) {
  size_t n = 0, off = 0, tot = 0, i;
  const uint8_t *d = NULL;
  (void)r; (void)s; (void)q;
  if (coap_get_data_large(req, &n, &d, &off, &tot)) {
    body_ok = (off == 0 && n == tot);
    for (i = 0; i < n; i++) if (d[i] != pat(i)) body_ok = 0;
    fprintf(sim_trace, "{\"e\":\"SrvBody\",\"n\":%zu,\"ok\":%d}\n", n, body_ok);
  }
  coap_pdu_set_code(resp, COAP_RESPONSE_CODE_CHANGED);
}
static void h_big(coap_resource_t *r, coap_session_t *s, const coap_pdu_t *req, const coap_string_t *q, coap_pdu_t *resp) {
  size_t n = 3000, i;
  uint8_t *b = malloc(n);
  for (i = 0; i < n; i++) b[i] = pat(i);
  coap_pdu_set_code(resp, COAP_RESPONSE_CODE_CONTENT);
  bodies_s++;
  if (!coap_add_data_large_response(r, s, req, resp, q, COAP_MEDIATYPE_APPLICATION_OCTET_STREAM, -1, 0, n, b, rel_s, b))
    coap_pdu_set_code(resp, COAP_RESPONSE_CODE_INTERNAL_ERROR);
}
static void h_async(coap_resource_t *r, coap_session_t *s, const coap_pdu_t *req, const coap_string_t *q, coap_pdu_t *resp) {
  (void)r; (void)q;
  if (!coap_find_async(s, coap_pdu_get_token(req))) {
    if (coap_register_async(s, req, COAP_TICKS_PER_SECOND / 2)) return;
    coap_pdu_set_code(resp, COAP_RESPONSE_CODE_SERVICE_UNAVAILABLE);
    return;
  }
  coap_pdu_set_code(resp, COAP_RESPONSE_CODE_CONTENT);
  coap_add_data(resp, 4, (const uint8_t *)"late");
}
static coap_response_t h_resp(coap_session_t *s, const coap_pdu_t *sent, const coap_pdu_t *rcv, const coap_mid_t mid) {
  size_t n = 0, off = 0, tot = 0;
  const uint8_t *d = NULL;
  coap_bin_const_t t = coap_pdu_get_token(rcv);
  (void)s; (void)sent; (void)mid;
  if (coap_check_option(rcv, COAP_OPTION_OBSERVE, &(coap_opt_iterator_t){0})) notif++;
  if (t.length != 2 || t.s[0] != cur_tok[0] || t.s[1] != cur_tok[1])
    return COAP_RESPONSE_OK;                   /* a leftover of an earlier exchange */
  got_resp++;
  resp_code = coap_pdu_get_code(rcv);
  if (coap_get_data_large(rcv, &n, &d, &off, &tot)) resp_len = n;
  return COAP_RESPONSE_OK;
}
static void h_nack(coap_session_t *s, const coap_pdu_t *sent, const coap_nack_reason_t reason, const coap_mid_t mid) {
  (void)s; (void)sent; (void)reason; (void)mid;
  got_nack++;
}

static int multi_rcp;                 /* the server's configuration names three recipients */
static coap_oscore_conf_t *mkconf(int client) {
  char txt[512];
  coap_str_const_t c;
  snprintf(txt, sizeof(txt),
           "master_secret,hex,\"0102030405060708090a0b0c0d0e0f10\"\nmaster_salt,hex,\"9e7ca92223786340\"\n"
           "sender_id,hex,\"%s\"\nrecipient_id,hex,\"%s\"\n%sreplay_window,integer,32\nrfc8613_b_1_2,bool,false\n",
           client ? "" : "01", client ? "01" : "", (!client && multi_rcp) ? "recipient_id,hex,\"0a\"\nrecipient_id,hex,\"0b0c\"\n" : "");
  c.s = (const uint8_t *)txt;
  c.length = strlen(txt);
  return coap_new_oscore_conf(c, NULL, NULL, 0);
}

static void env_down(void) {
  if (csess) coap_session_release(csess);
  csess = NULL;
  if (cctx) { sim_remove_node(cctx); coap_free_context(cctx); }
  cctx = NULL;
  if (sctx) { sim_remove_node(sctx); coap_free_context(sctx); }
  sctx = NULL; res_o = NULL;
}
static int add_res(const char *name, coap_method_handler_t get, coap_method_handler_t put, int observable) {
  coap_resource_t *r = coap_resource_init(coap_make_str_const(name), 0);
  if (!r) return 0;
  if (get) coap_register_request_handler(r, COAP_REQUEST_GET, get);
  if (put) coap_register_request_handler(r, COAP_REQUEST_PUT, put);
  if (observable) { coap_resource_set_get_observable(r, 1); res_o = r; }
  coap_add_resource(sctx, r);
  return 1;
}
static int env_up(int oscore) {
  coap_endpoint_t *ep;
  sctx = coap_new_context(NULL);
  if (!sctx) return 0;
  sim_add_node(sctx);
  coap_context_set_block_mode(sctx, COAP_BLOCK_USE_LIBCOAP | COAP_BLOCK_SINGLE_BODY);
  sim_addr(&srv_addr, "127.0.0.1", 0);
  ep = coap_new_endpoint(sctx, &srv_addr, COAP_PROTO_UDP);
  if (!ep) return 0;
  srv_addr = ep->bind_addr;
  if (!add_res("r", h_get, h_put, 0) || !add_res("big", h_big, NULL, 0) || !add_res("o", h_get, NULL, 1) || !add_res("a", h_async, NULL, 0))
    return 0;
  if (oscore) {
    coap_oscore_conf_t *c = mkconf(0);
    if (!c || !coap_context_oscore_server(sctx, c)) return 0;
  }
  cctx = coap_new_context(NULL);
  if (!cctx) return 0;
  sim_add_node(cctx);
  coap_context_set_block_mode(cctx, COAP_BLOCK_USE_LIBCOAP | COAP_BLOCK_SINGLE_BODY);
  coap_register_response_handler(cctx, h_resp);
  coap_register_nack_handler(cctx, h_nack);
  if (oscore) {
    coap_oscore_conf_t *c = mkconf(1);
    if (!c) return 0;
    csess = coap_new_client_session_oscore(cctx, NULL, &srv_addr, COAP_PROTO_UDP, c);
  } else
    csess = coap_new_client_session(cctx, NULL, &srv_addr, COAP_PROTO_UDP);
  return csess != NULL;
}

/* one request; returns 1 if the exchange ended with the expected response code */
static int exchange(int con, int method, const char *path, size_t body, int obs, int expect, uint64_t wait) {
  coap_pdu_t *pdu;
  uint8_t tok[2], buf[4];
  static unsigned tk;
  coap_mid_t mid;
  int pid;
  if (!csess) return 0;
  pdu = coap_new_pdu(con ? COAP_MESSAGE_CON : COAP_MESSAGE_NON, (coap_pdu_code_t)method, csess);
  if (!pdu) { fputs("{\"e\":\"Ret\",\"op\":\"new_pdu\",\"ok\":0}\n", sim_trace); return 0; }
  tk++;
  tok[0] = (uint8_t)(tk >> 8); tok[1] = (uint8_t)tk;
  cur_tok[0] = tok[0]; cur_tok[1] = tok[1];
  if (!coap_add_token(pdu, 2, tok)) goto drop;
  if (obs >= 0 && !coap_add_option(pdu, COAP_OPTION_OBSERVE, coap_encode_var_safe(buf, sizeof(buf), (unsigned)obs), buf)) goto drop;
  {
    const char *p = path, *sl;
    while ((sl = strchr(p, '/'))) {
      if (!coap_add_option(pdu, COAP_OPTION_URI_PATH, (size_t)(sl - p), (const uint8_t *)p)) goto drop;
      p = sl + 1;
    }
    if (!coap_add_option(pdu, COAP_OPTION_URI_PATH, strlen(p), (const uint8_t *)p)) goto drop;
  }
  if (body) {
    size_t i;
    uint8_t *b = malloc(body);
    for (i = 0; i < body; i++) b[i] = pat(i);
    bodies_c++;
    if (!coap_add_data_large_request(csess, pdu, body, b, rel_c, b)) {
      fputs("{\"e\":\"Ret\",\"op\":\"add_data_large_request\",\"ok\":0}\n", sim_trace);
      goto drop;
    }
  }
  got_resp = 0; resp_code = 0; got_nack = 0; resp_len = 0;
  pid = id_of(pdu);
  mid = coap_send(csess, pdu);
  fprintf(sim_trace, "{\"e\":\"Send\",\"id\":%d,\"ok\":%d}\n", pid, mid != COAP_INVALID_MID);
  if (mid == COAP_INVALID_MID) return 0;
  sim_run(sim_now + wait);
  fprintf(sim_trace, "{\"e\":\"Ret\",\"op\":\"exchange\",\"ok\":%d,\"code\":%d,\"nack\":%d}\n", got_resp && resp_code == expect, resp_code, got_nack);
  return got_resp && resp_code == expect;
drop:
  coap_delete_pdu(pdu);
  fputs("{\"e\":\"Ret\",\"op\":\"build_request\",\"ok\":0}\n", sim_trace);
  return 0;
}

static void sc_uri(void) {
  static const char *uris[] = {"coap://[::1]:5683/a/b%20c/d?x=1&y=%26z", "coaps://example.org/.well-known/core?rt=a", "coap://h/%41/../b/./c?"};
  unsigned i;
  for (i = 0; i < 3; i++) {
    coap_uri_t u;
    coap_optlist_t *ol = NULL;
    uint8_t buf[128];
    if (coap_split_uri((const uint8_t *)uris[i], strlen(uris[i]), &u) < 0) continue;
    if (coap_uri_into_optlist(&u, NULL, &ol, 1)) {
      coap_pdu_t *pdu = coap_pdu_init(COAP_MESSAGE_CON, COAP_REQUEST_CODE_GET, 1, 256);
      if (pdu) {
        coap_add_optlist_pdu(pdu, &ol);
        coap_delete_pdu(pdu);
      }
    }
    coap_delete_optlist(ol);
    ol = NULL;
    coap_path_into_optlist(u.path.s, u.path.length, COAP_OPTION_URI_PATH, &ol);
    coap_query_into_optlist(u.query.s, u.query.length, COAP_OPTION_URI_QUERY, &ol);
    {
      coap_optlist_t *n = coap_new_optlist(COAP_OPTION_CONTENT_FORMAT, coap_encode_var_safe(buf, sizeof(buf), 42), buf);
      if (n && !coap_insert_optlist(&ol, n)) coap_delete_optlist(n);
    }
    coap_delete_optlist(ol);
  }
  {
    coap_str_const_t *s = coap_new_str_const((const uint8_t *)"abc", 3);
    coap_binary_t *b = coap_new_binary(10);
    coap_delete_str_const(s);
    if (b) { coap_binary_t *b2 = coap_resize_binary(b, 2000); coap_delete_binary(b2 ? b2 : b); }
  }
}

/* a scripted peer: Block1 PUT /r in 16-byte blocks, no Size1 option, so the reassembly buffer grows block by block */
static void raw_block1(void) {
  coap_address_t peer;
  unsigned num;
  sim_addr(&peer, "127.0.0.1", 24001);
  for (num = 0; num < 3; num++) {
    uint8_t b[64];
    size_t n = 0, i;
    b[n++] = 0x41; b[n++] = 3; b[n++] = 0x55; b[n++] = (uint8_t)(0x10 + num);
    b[n++] = 0x77;
    b[n++] = 0xb1; b[n++] = 'r';
    b[n++] = 0xd1; b[n++] = 27 - 11 - 13; b[n++] = (uint8_t)((num << 4) | (num < 2 ? 8 : 0));
    b[n++] = 0xff;
    for (i = 0; i < 16; i++) b[n++] = pat(num * 16 + i);
    sim_inject(&peer, &srv_addr, b, n, 0, -1);
    sim_run(sim_now + 50);
  }
}

static void scenario(const char *sc) {
  if (!strcmp(sc, "uri")) { sc_uri(); return; }
  multi_rcp = !strcmp(sc, "oscore2");
  if (!env_up(!strcmp(sc, "oscore") || multi_rcp)) { fputs("{\"e\":\"Ret\",\"op\":\"env_up\",\"ok\":0}\n", sim_trace); return; }
  if (!strcmp(sc, "setup")) return;
  if (!strcmp(sc, "get") || !strcmp(sc, "oscore") || !strcmp(sc, "oscore2")) {
    exchange(1, COAP_REQUEST_CODE_GET, "r", 0, -1, 69, 100000);
    exchange(0, COAP_REQUEST_CODE_GET, "r", 0, -1, 69, 100000);
    exchange(1, COAP_REQUEST_CODE_PUT, "r", 10, -1, 68, 100000);
    exchange(1, COAP_REQUEST_CODE_GET, "none", 0, -1, 132, 100000);
  } else if (!strcmp(sc, "block1")) {
    exchange(1, COAP_REQUEST_CODE_PUT, "r", 3000, -1, 68, 300000);
  } else if (!strcmp(sc, "block2")) {
    exchange(1, COAP_REQUEST_CODE_GET, "big", 0, -1, 69, 300000);
  } else if (!strcmp(sc, "observe")) {
    exchange(1, COAP_REQUEST_CODE_GET, "o", 0, 0, 69, 1000);
    if (res_o) { coap_resource_notify_observers(res_o, NULL); sim_run(sim_now + 1000); }
    if (res_o) { coap_resource_notify_observers(res_o, NULL); sim_run(sim_now + 1000); }
    exchange(1, COAP_REQUEST_CODE_GET, "o", 0, 1, 69, 1000);
    if (res_o) { coap_resource_notify_observers(res_o, NULL); sim_run(sim_now + 100000); }
  } else if (!strcmp(sc, "rawblock1")) {
    raw_block1();
  } else if (!strcmp(sc, "wkc")) {
    /* a resource listing of more than one block (and more than the initial PDU buffer), served by the library itself */
    static char names[60][24];
    int i;
    for (i = 0; i < 60; i++) {
      coap_resource_t *r;
      snprintf(names[i], sizeof(names[i]), "sensors/number-%02d", i);
      r = coap_resource_init(coap_make_str_const(names[i]), 0);
      if (!r) return;
      coap_register_request_handler(r, COAP_REQUEST_GET, h_get);
      coap_add_attr(r, coap_make_str_const("rt"), coap_make_str_const("\"temperature\""), 0);
      coap_add_resource(sctx, r);
    }
    exchange(1, COAP_REQUEST_CODE_GET, ".well-known/core", 0, -1, 69, 300000);
    exchange(0, COAP_REQUEST_CODE_GET, ".well-known/core", 0, -1, 69, 300000);
  } else if (!strcmp(sc, "async")) {
    exchange(1, COAP_REQUEST_CODE_GET, "a", 0, -1, 69, 100000);
  }
}

static int prng(void *out, size_t len) {
  static uint32_t st = 31337;
  uint8_t *o = out;
  size_t i;
  for (i = 0; i < len; i++) { st = st * 1664525u + 1013904223u; o[i] = (uint8_t)(st >> 24); }
  return 1;
}

int main(int argc, char **argv) {
  FILE *in;
  char line[128], sc[32];
  int ln = 0, from = argc > 3 ? atoi(argv[3]) : 0, k, k2;
  if (argc < 3) return 2;
  in = fopen(argv[1], "r");
  sim_trace = fopen(argv[2], from ? "a" : "w");
  if (!in || !sim_trace) return 2;
  setvbuf(sim_trace, NULL, _IOFBF, 1 << 20);
  coap_startup();
  coap_set_log_level(getenv("DRV_DEBUG") ? COAP_LOG_DEBUG : COAP_LOG_EMERG);
  coap_set_prng(prng);
  sim_trace_io = 0;
  sim_trace_dg = 0;
  sim_nested_wait = 1;
  while (fgets(line, sizeof(line), in)) {
    int ok;
    ln++;
    if (ln <= from) continue;
    k2 = 0;
    if (sscanf(line, "%31s %d %d", sc, &k, &k2) < 2) continue;
    fprintf(sim_trace, "{\"e\":\"Case\",\"ln\":%d}\n{\"e\":\"Reset\",\"id\":%d,\"sc\":\"%s\",\"k\":%d,\"k2\":%d}\n", ln, ln, sc, k, k2);
    fflush(sim_trace);
    sim_reset(1000);
    nled = 0; next_id = 1; alloc_count = 0; injected = 0; fail_at = k; fail_at2 = k2; counting_off = 0;
    releases_c = releases_s = bodies_c = bodies_s = 0;
    window = 1;
    scenario(sc);
    fprintf(sim_trace, "{\"e\":\"Done\",\"allocs\":%d,\"injected\":%d}\n", alloc_count, injected);
    fail_at = fail_at2 = 0;                        /* memory is available again */
    counting_off = 1;
    /* the next operation succeeds: on the same endpoints if they exist, else on fresh ones */
    if (!sctx || !cctx || !csess) { env_down(); ok = env_up(0); } else ok = 1;
    ok = ok && exchange(1, COAP_REQUEST_CODE_GET, "r", 0, -1, 69, 100000);
    fprintf(sim_trace, "{\"e\":\"Canary\",\"ok\":%d}\n", ok);
    env_down();
    window = 0;
    fprintf(sim_trace, "{\"e\":\"End\",\"live\":%d,\"bodies_c\":%d,\"releases_c\":%d,\"bodies_s\":%d,\"releases_s\":%d}\n", nled, bodies_c, releases_c, bodies_s,
            releases_s);
    fflush(sim_trace);
  }
  fclose(sim_trace);
  sim_trace = NULL;
  coap_cleanup();
  return 0;
}
