/* drv_lock.c -- driver for C13: real threads calling the public API on one context while another thread sits in
 * coap_io_process(), with every callback type registered and re-entering the API.
 *
 * Events (one atomic sequence number for all threads):
 *   ApiEnter/ApiExit   written by this program around each public libcoap call it makes
 *   CbEnter/CbExit     written by this program at the start/end of each application callback
 *   Acquire/Release    written by the wrapped pthread_mutex_lock/unlock for libcoap's global lock, WHILE the mutex is held
 * A watchdog turns "no progress for a while" into a Stall event listing the threads stuck inside a call.
 *
 * usage: drv_lock <out.ndjson> <nthreads 2..8> <ms to run> <seed> [with_resources 0|1] [keepalive seconds, 0 = off] [signals 0|1: SIGUSR1 to the I/O thread every 0.7 ms]
 *   keepalive: an extra, otherwise idle client session is pinged by the I/O loop; the server's RST reaches the pong handler
 */
#include <coap3/coap_libcoap_build.h>
#include <pthread.h>
#include <stdatomic.h>
#include <stdio.h>
#include <string.h>
#include <stdlib.h>
#include <unistd.h>
#include <time.h>

/* callbacks that libcoap invokes with its lock kept stay inside for a moment, so that other threads do arrive meanwhile */
static void linger(void) { struct timespec t = {0, 200000}; nanosleep(&t, NULL); }

#define MAXEV (1 << 21)
typedef struct { uint8_t kind; uint8_t thr; uint16_t what; } evt_t;
static evt_t *evs;
static atomic_uint nev;
static __thread int me = -1;
static atomic_int stop_flag;
static int with_resources;    /* workload also adds/deletes resources concurrently (known finding KF_C13_ITERATION_ACROSS_RELEASED_CALLBACK) */
static atomic_ulong progress[16];
static atomic_int inside[16];            /* nesting depth of API calls per thread */

enum { E_APIENTER = 1, E_APIEXIT, E_CBENTER, E_CBEXIT, E_ACQ, E_REL };
static const char *KN[] = {"", "ApiEnter", "ApiExit", "CbEnter", "CbExit", "Acquire", "Release"};
static const char *APIS[] = {"io_process", "new_pdu", "send", "notify", "new_session", "session_release", "resource_add", "resource_delete",
                             "max_pdu_size", "new_cache_key", "cache_entry", "io_pending", "register_async", "find_async", "free_async",
                             "session_ping", "cancel_observe", "get_resource", "set_app_data", "delete_cache_key", "session_reference"};
static const char *CBS[] = {"request", "response", "nack", "event", "ping", "pong"};

static void logev(int kind, int what) {
  unsigned i = atomic_fetch_add(&nev, 1);
  if (i < MAXEV) { evs[i].kind = (uint8_t)kind; evs[i].thr = (uint8_t)(me < 0 ? 15 : me); evs[i].what = (uint16_t)what; }
  if (me >= 0) atomic_fetch_add(&progress[me], 1);
}

/* ---- taps on the global lock ---------------------------------------------------------------------------------- */
extern char verif_global_lock __asm__("global_lock") __attribute__((weak));    /* libcoap's lock object; its mutex is the first member. Absent when locking is compiled out */
int __real_pthread_mutex_lock(pthread_mutex_t *m);
int __real_pthread_mutex_unlock(pthread_mutex_t *m);
int __real_pthread_mutex_trylock(pthread_mutex_t *m);
static int is_global(pthread_mutex_t *m) { return &verif_global_lock != NULL && (void *)m == (void *)&verif_global_lock; }
int __wrap_pthread_mutex_lock(pthread_mutex_t *m) {
  int r = __real_pthread_mutex_lock(m);
  if (r == 0 && is_global(m)) logev(E_ACQ, 0);
  return r;
}
int __wrap_pthread_mutex_trylock(pthread_mutex_t *m) {
  int r = __real_pthread_mutex_trylock(m);
  if (r == 0 && is_global(m)) logev(E_ACQ, 0);
  return r;
}
int __wrap_pthread_mutex_unlock(pthread_mutex_t *m) {
  if (is_global(m)) logev(E_REL, 0);
  return __real_pthread_mutex_unlock(m);
}

#define API(id, stmt) do { logev(E_APIENTER, id); atomic_fetch_add(&inside[me], 1); stmt; atomic_fetch_sub(&inside[me], 1); logev(E_APIEXIT, id); } while (0)

/* ---- the application -------------------------------------------------------------------------------------------- */
static coap_context_t *ctx;
static coap_session_t *csess[8], *ksess;
static coap_resource_t *res_a, *res_obs;
static coap_address_t srv;

static void h_get(coap_resource_t *r, coap_session_t *s, const coap_pdu_t *req, const coap_string_t *q, coap_pdu_t *resp) {
  size_t n;
  (void)r; (void)req; (void)q;
  logev(E_CBENTER, 0);
  API(8, n = coap_session_max_pdu_size(s));           /* re-enter the API from a callback */
  (void)n;
  coap_pdu_set_code(resp, COAP_RESPONSE_CODE_CONTENT);
  coap_add_data(resp, 2, (const uint8_t *)"ok");
  logev(E_CBEXIT, 0);
}
static void h_put(coap_resource_t *r, coap_session_t *s, const coap_pdu_t *req, const coap_string_t *q, coap_pdu_t *resp) {
  (void)r; (void)s; (void)req; (void)q;
  logev(E_CBENTER, 0);
  API(3, coap_resource_notify_observers(res_obs, NULL));
  coap_pdu_set_code(resp, COAP_RESPONSE_CODE_CHANGED);
  logev(E_CBEXIT, 0);
}
static coap_response_t h_resp(coap_session_t *s, const coap_pdu_t *sent, const coap_pdu_t *rcv, const coap_mid_t mid) {
  size_t n;
  (void)sent; (void)rcv; (void)mid;
  logev(E_CBENTER, 1);
  API(8, n = coap_session_max_pdu_size(s));
  (void)n;
  logev(E_CBEXIT, 1);
  return COAP_RESPONSE_OK;
}
static void h_nack(coap_session_t *s, const coap_pdu_t *sent, const coap_nack_reason_t reason, const coap_mid_t mid) {
  size_t p;
  (void)sent; (void)reason; (void)mid;
  logev(E_CBENTER, 2);
  API(8, p = coap_session_max_pdu_size(s));
  (void)p;
  linger();
  logev(E_CBEXIT, 2);
}
static int h_event(coap_session_t *s, const coap_event_t ev) {
  size_t n;
  (void)ev;
  logev(E_CBENTER, 3);
  API(8, n = coap_session_max_pdu_size(s));
  (void)n;
  linger();
  logev(E_CBEXIT, 3);
  return 0;
}
static void h_pong(coap_session_t *s, const coap_pdu_t *rcv, const coap_mid_t mid) {
  size_t p;
  (void)rcv; (void)mid;
  logev(E_CBENTER, 5);
  API(8, p = coap_session_max_pdu_size(s));
  (void)p;
  linger();
  logev(E_CBEXIT, 5);
}

/* signals: the I/O thread's wait is interrupted every now and then (EINTR), as any application with signal handlers sees it */
#include <signal.h>
static int with_signals;
static pthread_t io_tid;
static atomic_int io_running;
static void on_usr1(int sig) { (void)sig; }
static void *signaller(void *arg) {
  struct timespec t = {0, 700000};
  (void)arg;
  me = 14;
  while (!atomic_load(&stop_flag)) {
    nanosleep(&t, NULL);
    if (atomic_load(&io_running)) pthread_kill(io_tid, SIGUSR1);
  }
  return NULL;
}

static void *io_thread(void *arg) {
  me = 0;
  (void)arg;
  io_tid = pthread_self();
  atomic_store(&io_running, 1);
  while (!atomic_load(&stop_flag)) {
    int r;
    API(0, r = coap_io_process(ctx, 20));
    (void)r;
  }
  return NULL;
}

static void *worker(void *arg) {
  unsigned seed = (unsigned)(uintptr_t)arg * 2654435761u;
  int id = (int)(uintptr_t)arg & 15, k = 0;
  me = id;
  while (!atomic_load(&stop_flag)) {
    unsigned r;
    seed = seed * 1664525u + 1013904223u;
    r = (seed >> 16) % 100;
    k++;
    if (r < 40) {
      coap_pdu_t *pdu = NULL;
      coap_session_t *s = csess[id % 4];
      uint8_t tok[4] = {(uint8_t)id, (uint8_t)k, (uint8_t)(k >> 8), 1};
      coap_mid_t m;
      API(1, pdu = coap_new_pdu((r & 1) ? COAP_MESSAGE_CON : COAP_MESSAGE_NON, (r & 2) ? COAP_REQUEST_CODE_GET : COAP_REQUEST_CODE_PUT, s));
      if (pdu) {
        coap_add_token(pdu, 4, tok);
        coap_add_option(pdu, COAP_OPTION_URI_PATH, 1, (const uint8_t *)"a");
        /* a Non-confirmable request with a critical option the server does not know is answered with a Reset: the NACK handler is
           then called without a PDU (nothing is queued for a NON) - one more way into a callback */
        if (!(r & 1) && k % 3 == 0)
          coap_add_option(pdu, 65003, 1, (const uint8_t *)"z");
        API(2, m = coap_send(s, pdu));
        (void)m;
      }
    } else if (r < 55) {
      int n;
      API(3, n = coap_resource_notify_observers(res_obs, NULL));
      (void)n;
    } else if (r < 65) {
      coap_session_t *s = NULL;
      API(4, s = coap_new_client_session(ctx, NULL, &srv, COAP_PROTO_UDP));
      if (s) API(5, coap_session_release(s));
      /* a second holder of a session that other threads use: the count is library state like any other */
      s = csess[(id + k) % 4];
      API(20, coap_session_reference(s));
      API(5, coap_session_release(s));
    } else if (r < 75 && with_resources) {
      char name[16];
      coap_resource_t *nr;
      snprintf(name, sizeof(name), "t%d-%d", id, k & 7);
      nr = coap_resource_init(coap_new_str_const((const uint8_t *)name, strlen(name)), COAP_RESOURCE_FLAGS_RELEASE_URI);
      if (nr) {
        coap_register_request_handler(nr, COAP_REQUEST_GET, h_get);
        API(6, coap_add_resource(ctx, nr));
        API(7, coap_delete_resource((k & 1) ? NULL : ctx, nr));      /* the context argument is documented as ignored */
      }
    } else if (r < 85) {
      coap_cache_key_t *ck = NULL;
      coap_pdu_t *pdu = coap_pdu_init(COAP_MESSAGE_CON, COAP_REQUEST_CODE_GET, 1, 64);
      if (pdu) {
        coap_add_option(pdu, COAP_OPTION_URI_PATH, 1, (const uint8_t *)"a");
        API(9, ck = coap_cache_derive_key(csess[id % 4], pdu, COAP_CACHE_NOT_SESSION_BASED));
        if (ck) API(19, coap_delete_cache_key(ck));
        coap_delete_pdu(pdu);
      }
    } else if (r < 92) {
      int p;
      API(11, p = coap_io_pending(ctx));
      (void)p;
    } else {
      coap_mid_t m;
      API(15, m = coap_session_send_ping(csess[id % 4]));
      (void)m;
    }
    if ((k & 15) == 0) usleep(200);
    if (with_signals) usleep(500);        /* leave the I/O thread time to block in its wait: that is where a signal interrupts it */
  }
  return NULL;
}

/* the events so far, in order */
static FILE *write_events(const char *path, int nthr) {
  FILE *out = fopen(path, "w");
  unsigned n, k;
  if (!out) return NULL;
  n = atomic_load(&nev);
  if (n > MAXEV) n = MAXEV;
  fprintf(out, "{\"e\":\"Reset\",\"threads\":%d,\"supported\":%d,\"events\":%u}\n", nthr, coap_threadsafe_is_supported(), n);
  for (k = 0; k < n; k++) {
    evt_t *e = &evs[k];
    if (e->kind == 0) break;             /* a slot claimed but not yet written when the process died */
    if (e->kind == E_APIENTER || e->kind == E_APIEXIT)
      fprintf(out, "{\"e\":\"%s\",\"thr\":%d,\"api\":\"%s\"}\n", KN[e->kind], e->thr, APIS[e->what]);
    else if (e->kind == E_CBENTER || e->kind == E_CBEXIT)
      fprintf(out, "{\"e\":\"%s\",\"thr\":%d,\"cb\":\"%s\"}\n", KN[e->kind], e->thr, CBS[e->what]);
    else
      fprintf(out, "{\"e\":\"%s\",\"thr\":%d}\n", KN[e->kind], e->thr);
  }
  return out;
}
/* a sanitizer report ends the process: what was recorded up to there is still worth judging */
void __sanitizer_set_death_callback(void (*cb)(void));
static const char *trace_path;
static int trace_nthr;
static void on_death(void) {
  FILE *out = write_events(trace_path, trace_nthr);
  if (out) { fprintf(out, "{\"e\":\"End\",\"stalled\":false,\"died\":true}\n"); fclose(out); }
}

int main(int argc, char **argv) {
  FILE *out;
  int nthr = argc > 2 ? atoi(argv[2]) : 4, ms = argc > 3 ? atoi(argv[3]) : 1500, i, stalled = 0;
  pthread_t io, th[16];
  coap_endpoint_t *ep;
  unsigned n, k;
  struct timespec ts;
  unsigned long last[16] = {0};
  int quiet = 0;
  if (argc < 2) return 2;
  with_resources = argc > 5 ? atoi(argv[5]) : 0;
  with_signals = argc > 7 ? atoi(argv[7]) : 0;
  if (nthr < 1) nthr = 1;
  if (nthr > 8) nthr = 8;
  evs = calloc(MAXEV, sizeof(evt_t));
  me = 15;
  coap_startup();
  coap_set_log_level(COAP_LOG_EMERG);
  ctx = coap_new_context(NULL);
  coap_address_init(&srv);
  srv.size = sizeof(struct sockaddr_in);
  srv.addr.sin.sin_family = AF_INET;
  srv.addr.sin.sin_addr.s_addr = htonl(INADDR_LOOPBACK);
  srv.addr.sin.sin_port = 0;
  ep = coap_new_endpoint(ctx, &srv, COAP_PROTO_UDP);
  if (!ep) return 3;
  srv = ep->bind_addr;
  res_a = coap_resource_init(coap_make_str_const("a"), 0);
  coap_register_request_handler(res_a, COAP_REQUEST_GET, h_get);
  coap_register_request_handler(res_a, COAP_REQUEST_PUT, h_put);
  coap_add_resource(ctx, res_a);
  res_obs = coap_resource_init(coap_make_str_const("o"), 0);
  coap_register_request_handler(res_obs, COAP_REQUEST_GET, h_get);
  coap_resource_set_get_observable(res_obs, 1);
  coap_add_resource(ctx, res_obs);
  coap_register_response_handler(ctx, h_resp);
  coap_register_nack_handler(ctx, h_nack);
  coap_register_event_handler(ctx, h_event);
  coap_register_pong_handler(ctx, h_pong);
  coap_context_set_keepalive(ctx, argc > 6 ? (unsigned)atoi(argv[6]) : 0);
  for (i = 0; i < 4; i++) {
    csess[i] = coap_new_client_session(ctx, NULL, &srv, COAP_PROTO_UDP);
    if (!csess[i]) return 3;
    coap_session_set_max_retransmit(csess[i], 1);
  }
  if (argc > 6 && atoi(argv[6]) > 0) {
    /* an idle session for the keepalive logic: one exchange, then silence */
    ksess = coap_new_client_session(ctx, NULL, &srv, COAP_PROTO_UDP);
    if (ksess) {
      coap_pdu_t *pdu = coap_new_pdu(COAP_MESSAGE_NON, COAP_REQUEST_CODE_GET, ksess);
      uint8_t t[2] = {0xdd, 1};
      coap_add_token(pdu, 2, t);
      coap_add_option(pdu, COAP_OPTION_URI_PATH, 1, (const uint8_t *)"a");
      coap_send(ksess, pdu);
    }
  }
  /* one observer so that notifications flow */
  {
    coap_pdu_t *pdu = coap_new_pdu(COAP_MESSAGE_CON, COAP_REQUEST_CODE_GET, csess[0]);
    uint8_t t[2] = {0xee, 1};
    coap_add_token(pdu, 2, t);
    coap_add_option(pdu, COAP_OPTION_OBSERVE, 0, NULL);
    coap_add_option(pdu, COAP_OPTION_URI_PATH, 1, (const uint8_t *)"o");
    coap_send(csess[0], pdu);
  }
  atomic_store(&nev, 0);
  if (with_signals) {
    struct sigaction sa;
    memset(&sa, 0, sizeof(sa));
    sa.sa_handler = on_usr1;            /* no SA_RESTART: blocking calls return EINTR */
    sigaction(SIGUSR1, &sa, NULL);
  }
  trace_path = argv[1]; trace_nthr = nthr;
  __sanitizer_set_death_callback(on_death);
  pthread_create(&io, NULL, io_thread, NULL);
  if (with_signals) { pthread_t sg; pthread_create(&sg, NULL, signaller, NULL); pthread_detach(sg); }
  for (i = 0; i < nthr; i++) pthread_create(&th[i], NULL, worker, (void *)(uintptr_t)(i + 1));
  /* watchdog */
  for (k = 0; k < (unsigned)ms / 50 + 200; k++) {
    int anyprog = 0;
    ts.tv_sec = 0; ts.tv_nsec = 50 * 1000000L;
    nanosleep(&ts, NULL);
    if (k == (unsigned)ms / 50) atomic_store(&stop_flag, 1);
    for (i = 0; i <= nthr; i++) {
      unsigned long p = atomic_load(&progress[i]);
      if (p != last[i]) anyprog = 1;
      last[i] = p;
    }
    if (atomic_load(&stop_flag)) {
      /* all threads must leave the library */
      int busy = 0;
      for (i = 0; i <= nthr; i++) busy += atomic_load(&inside[i]) > 0;
      if (!busy && !anyprog) break;
    }
    quiet = anyprog ? 0 : quiet + 1;
    if (quiet > 60) { stalled = 1; break; }          /* 3 s without any event from any thread */
  }
  atomic_store(&stop_flag, 1);
  out = write_events(argv[1], nthr);
  if (!out) return 2;
  if (stalled) {
    fprintf(out, "{\"e\":\"Stall\",\"stuck\":[");
    for (i = 0, k = 0; i <= nthr; i++)
      if (atomic_load(&inside[i]) > 0) fprintf(out, "%s%d", k++ ? "," : "", i);
    fprintf(out, "]}\n");
    fprintf(out, "{\"e\":\"End\",\"stalled\":true}\n");
    fclose(out);
    _exit(0);                      /* threads are stuck inside the library: no clean shutdown possible */
  }
  pthread_join(io, NULL);
  for (i = 0; i < nthr; i++) pthread_join(th[i], NULL);
  fprintf(out, "{\"e\":\"End\",\"stalled\":false}\n");
  fclose(out);
  /* teardown is not part of what is recorded: no callbacks wanted while the context goes away */
  coap_register_response_handler(ctx, NULL);
  coap_register_nack_handler(ctx, NULL);
  coap_register_event_handler(ctx, NULL);
  coap_register_pong_handler(ctx, NULL);
  for (i = 0; i < 4; i++) coap_session_release(csess[i]);
  if (ksess) coap_session_release(ksess);
  coap_free_context(ctx);
  coap_cleanup();
  return 0;
}
